#!/bin/sh
# Offline self-test: nothing to build (pure Python; /repo is an editable install in /venv).
set -e
cd "$(dirname "$0")"
/venv/bin/python -c "import pygaps, numpy, pandas, scipy, CoolProp; import sys; sys.path.insert(0,'.'); import mc.core, mc.ref_units"
if command -v python3-vt >/dev/null 2>&1; then
python3-vt - <<'PY'
import json, jsonschema
jsonschema.validate(json.load(open('MANIFEST.json')), json.load(open('/root/.vp/MANIFEST.schema.json')))
kf = json.load(open('known_findings.json'))
assert isinstance(kf, list) and all(k.get('status') in ('known', 'fixed') and 'property' in k and 'what' in k for k in kf)
assert all('signature' in k for k in kf if k['status'] == 'known')
print('manifest and known_findings valid')
PY
fi
mkdir -p evidence replays
echo setup ok
