#!/venv/bin/python
"""Run the repository's pinned test suite against a tree and compare with BASELINE.json.

usage: tools/suite.py [TREE_DIR] [-n WORKERS]
Prints the baseline (stable_pass) tests that did not pass; exit 0 iff none.
The tree is used through PYTHONPATH=<tree>/src (which precedes the editable install).
"""
import json, os, subprocess, sys, tempfile, xml.etree.ElementTree as ET

def main():
    args = sys.argv[1:]
    n = '0'
    if '-n' in args:
        i = args.index('-n'); n = args[i + 1]; del args[i:i + 2]
    tree = os.path.abspath(args[0]) if args else '/repo'
    base = json.load(open('/root/.vp/BASELINE.json'))
    stable = set(base['stable_pass'])
    with tempfile.TemporaryDirectory(dir='/dev/shm') as td:
        junit = os.path.join(td, 'junit.xml')
        env = dict(os.environ, PYTHONPATH=os.path.join(tree, 'src'))
        env.pop('PYGAPS_VERIF', None)
        cmd = ['/venv/bin/python', '-m', 'pytest', '-q', '-p', 'no:cacheprovider', '--timeout=900',
               '--continue-on-collection-errors', f'--junitxml={junit}']
        if n != '0':
            cmd += ['-n', n]
        r = subprocess.run(cmd, cwd=tree, env=env, capture_output=True, text=True)
        passed, failed = set(), set()
        try:
            root = ET.parse(junit).getroot()
        except Exception as e:
            print('NO JUNIT', e, r.stdout[-2000:], r.stderr[-2000:]); return 2
        for tc in root.iter('testcase'):
            tid = (tc.get('classname') or '') + '::' + (tc.get('name') or '')
            if tc.find('failure') is not None or tc.find('error') is not None:
                failed.add(tid)
            elif tc.find('skipped') is not None:
                pass
            else:
                passed.add(tid)
    passed -= failed
    missing = sorted(stable - passed)
    newly = sorted(passed - stable)
    print(f'tree={tree} passed={len(passed)} failed={len(failed)} baseline={len(stable)} '
          f'baseline_not_passing={len(missing)} newly_passing={len(newly)}')
    for m in missing:
        print('  BROKEN', m)
    return 1 if missing else 0

if __name__ == '__main__':
    sys.exit(main())
