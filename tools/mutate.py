#!/usr/bin/env python3
"""Apply one catalogue mutant (or a patch file) to /repo, run checks, revert.

usage: tools/mutate.py <mutant-name|patch.diff> <ID>[,<ID>...] [--seeds 0,1,2] [--tier quick]
Requires: exit 1 + VIOLATION on every seed with the mutant; (the clean tree is verified separately).
"""
import os, subprocess, sys
HERE = os.path.dirname(os.path.dirname(os.path.abspath(__file__)))
sys.path.insert(0, os.path.join(HERE, 'mutants'))


def sh(cmd, **kw):
    return subprocess.run(cmd, shell=True, capture_output=True, text=True, **kw)


def main():
    name, ids = sys.argv[1], sys.argv[2].split(',')
    seeds = [0]
    tier = 'quick'
    if '--seeds' in sys.argv:
        seeds = [int(x) for x in sys.argv[sys.argv.index('--seeds') + 1].split(',')]
    if '--tier' in sys.argv:
        tier = sys.argv[sys.argv.index('--tier') + 1]
    st = sh('git -C /repo status --porcelain --untracked-files=no').stdout.strip()
    if st:
        print('refusing: /repo has uncommitted changes:\n' + st); return 2
    try:
        if os.path.exists(name):
            r = sh(f'git -C /repo apply {os.path.abspath(name)}')
            if r.returncode:
                print('patch does not apply:', r.stderr); return 2
        else:
            import catalogue
            path, old, new = catalogue.M[name]
            p = os.path.join('/repo', path)
            s = open(p).read()
            if s.count(old) < 1:
                print('PATTERN NOT FOUND for', name); return 2
            open(p, 'w').write(s.replace(old, new, 1))
        rc = 0
        for pid in ids:
            for seed in seeds:
                r = sh(f'VERIF_SEED={seed} ./vcheck {pid} --tier {tier}', cwd=HERE)
                viol = [l for l in r.stdout.splitlines() if l.startswith('VIOLATION')]
                desc = [l for l in r.stdout.splitlines() if l.strip().startswith('violation:')]
                verdict = 'CAUGHT' if (r.returncode == 1 and viol) else f'MISSED(exit {r.returncode})'
                print(f'{name} {pid} seed={seed}: {verdict} groups={len(viol)}')
                for d in desc[:3]:
                    print('   ', d.strip()[:240])
                if r.returncode == 2:
                    print(r.stdout[-1500:], r.stderr[-1500:])
                if verdict != 'CAUGHT':
                    rc = 1
        return rc
    finally:
        sh('git -C /repo checkout -- .')


if __name__ == '__main__':
    sys.exit(main())
