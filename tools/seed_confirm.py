#!/usr/bin/env python3
"""Confirm a seeded change independently and file it under /verif/seeded/<name>/.

usage: tools/seed_confirm.py <name> <agent-out-dir> [--patch ported.diff]
Steps (in a scratch worktree of /repo HEAD under /tmp, removed afterwards):
  demo on the clean tree must exit 0; patch must apply; demo with the patch must exit non-zero;
  the repository suite with the patch must still pass the 514 baseline tests.
"""
import json, os, shutil, subprocess, sys

def sh(cmd, **kw):
    return subprocess.run(cmd, shell=True, capture_output=True, text=True, **kw)

def main():
    name, src = sys.argv[1], sys.argv[2]
    patch = os.path.join(src, 'patch.diff')
    ported = False
    if '--patch' in sys.argv:
        patch = sys.argv[sys.argv.index('--patch') + 1]; ported = True
    wt = f'/tmp/confirm-{name}'
    sh(f'git -C /repo worktree remove --force {wt}')
    r = sh(f'git -C /repo worktree add -q --detach {wt} HEAD')
    if r.returncode:
        print('worktree failed', r.stderr); return 2
    res = {'name': name}
    try:
        shutil.copy('/repo/src/pygaps/_version.py', f'{wt}/src/pygaps/_version.py')
        env = dict(os.environ, PYTHONPATH=f'{wt}/src')
        demo = os.path.join(src, 'demo.py')
        r0 = subprocess.run(['/venv/bin/python', demo], capture_output=True, text=True, env=env, cwd=wt, timeout=1200)
        res['demo_clean_exit'] = r0.returncode
        a = sh(f'git -C {wt} apply {os.path.abspath(patch)}')
        res['applies'] = a.returncode == 0
        if not res['applies']:
            res['apply_error'] = a.stderr[-300:]
        else:
            r1 = subprocess.run(['/venv/bin/python', demo], capture_output=True, text=True, env=env, cwd=wt, timeout=1200)
            res['demo_patched_exit'] = r1.returncode
            res['demo_patched_tail'] = (r1.stdout + r1.stderr)[-400:]
            s = sh(f'/venv/bin/python /verif/tools/suite.py {wt}')
            res['suite'] = s.stdout.strip().splitlines()[0] if s.stdout.strip() else s.stderr[-200:]
            res['suite_ok'] = s.returncode == 0
        ok = res.get('demo_clean_exit') == 0 and res.get('applies') and res.get('demo_patched_exit', 0) != 0 and res.get('suite_ok')
        res['confirmed'] = bool(ok)
        if ok:
            dst = f'/verif/seeded/{name}'
            os.makedirs(dst, exist_ok=True)
            shutil.copy(patch, f'{dst}/patch.diff')
            shutil.copy(demo, f'{dst}/demo.py')
            meta = {}
            try:
                meta = json.load(open(os.path.join(src, 'meta.json')))
            except Exception as e:
                meta = {'meta_error': str(e)}
            meta['confirmed_by_main'] = {
                'repo_head': sh('git -C /repo log --format=%h -1').stdout.strip(),
                'patch_ported_to_current_head': ported,
                'demo_clean_exit': res['demo_clean_exit'], 'demo_patched_exit': res['demo_patched_exit'],
                'suite_with_patch': res['suite'],
                'how': 'scratch worktree of /repo HEAD; demo run before/after git apply; tools/suite.py (pinned suite, serial) with the patch',
            }
            json.dump(meta, open(f'{dst}/meta.json', 'w'), indent=1)
    finally:
        sh(f'git -C /repo worktree remove --force {wt}')
        shutil.rmtree(wt, ignore_errors=True)
    print(json.dumps(res))
    return 0 if res.get('confirmed') else 1

if __name__ == '__main__':
    sys.exit(main())
