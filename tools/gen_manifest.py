#!/usr/bin/env python3
"""Generate MANIFEST.json from the table below (kept in one place so it stays valid)."""
import json, os
HERE = os.path.dirname(os.path.dirname(os.path.abspath(__file__)))

E1 = 'explicit-state exploration of the implementation (BFS over real objects, canonical state hashing, reference model on every transition)'
E2 = 'bounded-exhaustive enumeration of a finite configuration space x value lattice against an independent reference model'
E3 = 'exhaustive fault/crash-point enumeration on the real write path (SQL-statement interposer, fork+_exit, strace SIGKILL)'

CHECKS = {
 'C01': dict(cat='exploration', engine='E2', tech='bounded-exhaustive enumeration (all ordered pairs/triples of representations x value lattice) vs SI reference model',
   text='Every ordered pair and triple of the 10 pressure, 27 loading (x19 material contexts) and 19 material representations is executed on the real converters for a lattice of values and shapes and compared with an independent SI/PropsSI reference; the refusal alphabet is enumerated completely. The configuration space is finite and covered completely; numeric values only on the lattice.',
   note='CoolProp trusted as equation of state; SI factors compared at table precision (1e-3); values on a fixed lattice (8 phases by VERIF_SEED).', ref='§4 C01'),
 'C02': dict(cat='model_checking', engine='E1', tech='explicit-state BFS over the real PointIsotherm label machine (all reachable representation states x full conversion alphabet) with reference model on every transition',
   text='The label machine of a real PointIsotherm is explored to fixpoint: every reachable representation state (quick: 540-state unit-class quotient; thorough: all 10x27x19x2 = 10260) x every convert*/convert call with omitted/current/valid/unknown arguments, executed on rebuilt real objects with filled interpolator caches. After every transition: labels accepted by the constructor, data equal the ORIGINAL data converted by the independent reference model, target reached, refusal changed nothing (combined convert: exactly the completed steps), frame untouched, no stale interpolation. Variants without thermodynamic backend / with partial properties / super-critical cover impossible targets.',
   note='One data set (pointwise conversions); reference model mc/ref_units.py; refusal = any exception; CoolProp trusted.', ref='§4 C02'),
 'C08': dict(cat='model_checking', engine='E1', tech='explicit-state BFS over real database files (canonical = logical table contents) against a dictionary reference model, two session modes',
   text='Breadth-first exploration of the store: from every reachable database state every public store operation of a 38-operation alphabet (uploads with/without overwrite and auto-insert, deletions by object/name/id/retrieved object, property-type families) is executed on a copy of the real file, in a fresh-session mode and in an everything-registered-in-memory mode. Outcome kind, raw tables read through an independent connection (incl. orphan/dangling-reference invariants) and every retrieval (with and without criteria; retrieved isotherm == stored isotherm) are compared with a plain dict model on every transition. Quick: depth 3; thorough: depth 6.',
   note='Universe of 2 adsorbates, 2 materials, 3 isotherms, cleanly storable values; depth-bounded (reported); SQLite itself trusted.', ref='§4 C08'),
 'C09': dict(cat='fault_enumeration', engine='E3', tech='exhaustive fault-point enumeration: SQL-statement interposer (exception instead of/after every statement, commit, close), fork+_exit at every point, strace SIGKILL at every write syscall',
   text='27 write-operation instances (upload/overwrite/delete of adsorbates, materials, isotherms, property types on empty / unrelated / containing databases) x every statement/commit/rollback/close point the operation issues x fault kinds (4 sqlite3 exception classes raised instead of or after the statement; process exit before/after the point in a forked child); bound 2: a second fault inside the retry; thorough additionally kills the process at every write-class syscall (journal/database writes, fsync, unlink) via strace fault injection. After each fault the raw tables must equal the dict model before or after the operation, prior content must be retrievable, and the repeated call must succeed.',
   note='Process death, not power loss; in-session retry; dict model shared with C08.', ref='§4 C09'),
 'C03': dict(cat='exploration', engine='E2', tech='bounded-exhaustive enumeration of (stored, requested) representation pairs x accessor alphabet, differential against permanent conversion / bare model',
   text='Every ordered pair of stored and requested loading x material representations (quick: 60x60 unit-class quotient; thorough: 513x513) and of the 10 pressure representations, for point isotherms (all accessors: whole branch, limits, interpolation at knots/midpoints/quarter points, scalar/list/array, both branches, foreign inputs) compared with a permanently converted copy read natively, and for model isotherms (Langmuir, Virial) compared with bare model composed with the reference conversion. The branch-guess rule is enumerated over all 363 pressure sequences of length 1-5 over {1,2,3} x 16 construction routes; interpolation clauses (knots, chords, refusal outside, fill) incl. every ordered pair of interpolation settings on one object.',
   note='Permanent conversion trusted as oracle only where it agrees with the SI reference (C02); numeric data on one monotonic two-branch data set (lattice phase scales loadings).', ref='§4 C03'),
 'C04': dict(cat='model_checking', engine='E1', tech='explicit-state exploration of the private cache state of real objects (generic deep digest) + complete depth-2 history enumeration, differential against the first-call outcome',
   text='Part A enumerates ordered pairs of a ~110-query alphabet (accessors with every branch/kind/fill, spreading pressure below/inside/edge/above, exports, every characterisation entry point, fitting incl. user bounds, IAST helpers, adsorbate thermodynamics; heavy kernels in thorough) on freshly built objects; Part B runs a BFS to fixpoint (quick: depth 3) over the private state of all objects and library modules (interpolators, CoolProp state, module caches, lru_caches, class-level containers observed generically) under the cache-relevant sub-alphabet. In every state every query must give its first-call outcome (12 significant digits or the same error kind) and leave every object observably unchanged.',
   note='Fixed alphabet; private state observed through __dict__/module containers/function caches; state inside C extensions other than CoolProp (T,Q,p) only covered by part A.', ref='§4 C04'),
 'C05': dict(cat='exploration', engine='E2', tech='bounded-exhaustive enumeration of construction routes, single content edits and length-1/2 call histories; differential on identifiers (no expected hashes)',
   text='A finite route alphabet (54 routes over metadata-only, point, model and fitted-model templates: literal types, containers, row labellings, column order, branch dtypes, metadata order, from_isotherm, JSON round trip, aliases, shorthands) must give one identifier / == / list membership, also in 4 child processes with other PYTHONHASHSEEDs; a content-edit alphabet (every metadata key, unit label, material, adsorbate, temperature, every data cell +1e-6, every branch mark, model parameters incl. small-magnitude ones, ranges, name) must change it while every cell +1e-10 must not; after every history of length 1 and 2 over 17 public reads and mutations (conversions, in-place edits) the identifier must equal that of an isotherm rebuilt from the resulting content.',
   note='identifier equality only (md5 strings); the route/edit alphabets are fixed lists.', ref='§4 C05'),
 'C06': dict(cat='exploration', engine='E2', tech='bounded-exhaustive product enumeration of isotherm variants through export/import/re-export, exact comparison',
   text='The Cartesian product of class (metadata-only, point, model) x 12 unit configurations x 100 data shapes (1-7 points, 5 branch patterns incl. user-assigned marks, 6 extra-column sets incl. missing values) x a 19-value metadata alphabet (unicode, texts spelling numbers/booleans/None, ints, floats, bools, null, lists, nested dicts, material with properties) x target (string, file) x all 16 models (DR/DA also fitted) is exported to JSON, imported and re-exported; to_dict() incl. Python types, every data column and branch mark, model fields and predictions on a grid, identifier/== and byte-identity of the re-export are compared exactly. Quick thins the product over non-default unit configurations; thorough enumerates it completely.',
   note='Metadata keys are non-reserved; bitwise equality of doubles demanded.', ref='§4 C06'),
 'C07': dict(cat='exploration', engine='E2', tech='bounded-exhaustive product enumeration through CSV/Excel/AIF export and import, field-by-field comparison; refusal alphabet for out-of-domain values',
   text='format (csv, xls, aif) x class x 12 unit configurations x data shapes (1-7 points, 5 branch patterns incl. user-assigned marks, extra numeric/text columns, missing values) x the per-format in-domain metadata alphabet x target (string, file) x all 16 models (DR/DA fitted, small-magnitude parameters) x material with properties x points generated from a model; compared field by field (material+properties, adsorbate, temperature, unit labels, data at 8 decimals, branch marks and order, model name/parameters/ranges/rmse/predictions) and with ==. A per-format out-of-domain alphabet (separator, newline, quote, texts spelling numbers/booleans/none/lists, empty text, lists, nested dicts, keys with blanks) must be refused with a pyGAPS error or come back unchanged.',
   note='Value domains as the property defines them; 5 == 5.0 counts as the same value, booleans and texts must keep their kind.', ref='§4 C07'),
 'C10': dict(cat='exploration', engine='E2', tech='bounded-exhaustive enumeration of model x parameter lattice x pressure lattice x input shapes; algebraic identities and limits of the defining equations',
   text='All 16 models x a parameter lattice inside the declared bounds (geometric points plus documented special values) x 7 fractions of the validity range x six input shapes: inverse identities in both directions, scalar/array agreement, zero point, non-negativity, monotonicity and saturation bound on a dense 400-point scan (only where the defining equation is monotone), Henry limit against the constant of the defining equation; evaluation through a ModelIsotherm in 5 foreign representations equals bare model composed with the unit conversion (both directions).',
   note='Numerical inverses judged only where the library returns; tolerances tied to optimiser stopping tolerances; lattice phase by VERIF_SEED.', ref='§4 C10'),
 'C11': dict(cat='exploration', engine='E2', tech='bounded-exhaustive enumeration of model x parameter lattice x pressure lattice against independent numerical quadrature; point isotherms against the definition',
   text='13 models exposing a spreading pressure x parameter lattice x 6 fractions of the validity range: value against two independent quadratures of the same model loading/p (linear with break points; over ln p to -inf), zero limit, monotonicity, additivity over intervals, p dpi/dp = n, and a query after an in-place parameter change; 36 point isotherms (4 curve shapes x 3/5/9 points x float/int/series pressures) x queries below the first point, at every knot and mid-segment and at the last point against the Henry-continued piecewise-linear interpolant integrated exactly; unit arguments (pressure unit/mode, loading unit/basis, material unit) for point and model isotherms.',
   note='scipy quadrature trusted where two formulations agree to 1e-8; queries beyond the last data point are outside the property.', ref='§4 C11'),
 'C12': dict(cat='exploration', engine='E2', tech='bounded-exhaustive enumeration of model x generator x sampling grid fits; exhaustive sub-lists for best-of-list; differential oracles for branch, units, sequences',
   text='Exact data from independently written defining equations for the 10 well-posed models x generating parameter vectors x {8,20,60} x {linear, log} grids must be reproduced by the fit; for all 16 models x 4 deterministic noisy data sets the reported rmse must equal the recomputed normalised rms deviation; ModelIsotherm.guess over every 2- and 3-element sub-list of the guess models (plus lists containing a candidate that fails) must return the converged candidate of smallest error; user bounds/guesses, a bounded-then-plain fit sequence, branch isolation in both directions, from_modelisotherm (3 ways) with refit, and the fit after 6 unit conversions (predictions compared).',
   note='Fits raising CalculationError count as did-not-return; unit covariance on predictions at 1e-5.', ref='§4 C12'),
 'C13': dict(cat='exploration', engine='E2', tech='bounded-exhaustive enumeration of mixtures x partial-pressure lattice x all component permutations; IAST equations re-derived from the returned loadings with independent quadrature',
   text='All 2-subsets of a 15-isotherm pool (every IAST-capable model type, 3 dense point isotherms) x 9 partial-pressure vectors x both orders, 24 ternary subsets x 27 vectors x 6 permutations, 2 quaternary subsets x 81 vectors x 24 permutations (quick thins the vectors): from each returned result mole fractions, equal spreading pressure at p_i/x_i (independent quadrature / point-isotherm definition, not the library function), ideal mixing rule, Henry and equal-capacity Langmuir closed forms, permutation invariance, user starting guess, fraction/selectivity/VLE helpers, reverse-after-forward, and IAST on the same objects before/after permanent conversions.',
   note='Calls that raise are counted as did-not-return (per component count; >50% is a vacuity error).', ref='§4 C13'),
 'C20': dict(cat='exploration', engine='E2', tech='exhaustive enumeration of the shipped registry (names x aliases x case variants, both data sources) and of property-call pairs against CoolProp PropsSI',
   text='All 176 shipped adsorbates x name and every alias x 5 case variants through Adsorbate.find and the isotherm constructor; alias -> adsorbate must be a function; adsorbates.json and the packaged default.db must describe the same registry; registry-replacement sequences. All 81 backend-linked adsorbates x a temperature lattice across (T_triple, T_critical) (quick 5, thorough 25 points) x 7 property methods against the independent high-level CoolProp API, density identities, p_triple <= p_sat <= p_crit, monotone p_sat, positive enthalpy, all 8 pressure units, and every ordered pair of 10 property calls (incl. pressure-specified enthalpy) on a reset adsorbate; the fallback alphabet (4 adsorbate kinds x 13 methods x calculate flag) and super-critical refusal.',
   note='CoolProp trusted as equation of state.', ref='§4 C20'),
 'C14': dict(cat='exploration', engine='E2', tech='bounded-exhaustive enumeration of generating parameters x sampling grids x limit pairs through the raw and isotherm entry points; closed-form expectations',
   text='BET (n_m x C x 24 grids x cross-sections), Langmuir (n_m x K), t-plot (slope x intercept on the 4 built-in thickness models and a callable), alpha-s (a curve against itself and scaled copies), DR/DA (volume x energy x exponent 1..3, fixed and searched) on exactly generated data; for every grid the automatic window, every pair of 6 off-grid limit positions, one-sided and zero limits: recovered parameters, selected index window (exactly the points strictly inside the limits), refusal below three points with CalculationError, inputs unchanged; automatic BET window on data with an interior maximum of n(1-p); isotherm entry points in three stored representations.',
   note='Limits never coincide with a data pressure; both readings of where n(1-p) stops increasing are accepted.', ref='§4 C14'),
 'C16': dict(cat='exploration', engine='E2', tech='bounded-exhaustive enumeration of method x pore/meniscus geometry x thickness/Kelvin model x pressure grid x volume profile; independent Kelvin equation and conservation identities',
   text='The three classical methods x their pore geometries x 3 meniscus geometries x 4 thickness models (incl. zero and a callable) x Kelvin/Kelvin-KJS x 4 pressure grids (one up to p/p0 = 0.9995) x 3 adsorbate property sets x 6 volume profiles through the raw functions: widths = 2(r_K + t) from an independently written Kelvin equation at one end of each interval and increasing, distribution x width increments = pore volumes, with zero thickness volumes = successive volume changes and their sum, single step -> single peak inside the Kelvin widths of the step, inputs unchanged; psd_mesoporous on isotherms (5 method/geometry pairs x 4 limit settings x both branches x 3 adsorbates): used index window, widths, cumulative curve end and steps, and analyses before/after the adsorbate is re-defined.',
   note='Kelvin geometry factors per meniscus as pinned by the project reference values; volumes for non-zero thickness are not fixed by the property.', ref='§4 C16'),
}

def main():
    checks = []
    for pid, c in sorted(CHECKS.items()):
        checks.append({
            'property_id': pid,
            'quick_cmd': f'./vcheck {pid} --tier quick',
            'thorough_cmd': f'./vcheck {pid} --tier thorough',
            'evidence_file': f'/verif/evidence/{pid}.json',
            'replay_cmd_template': f'./vcheck {pid} --replay {{path}}',
            'engine': c['engine'],
            'level_claimed': {'category': c['cat'], 'text': c['text'], 'design_ref': c['ref']},
            'level_note': c['note'],
            'technique': c['tech'],
        })
    props = [json.loads(l)['id'] for l in open(os.path.join(HERE, 'properties.jsonl'))]
    na = [{'property_id': p, 'reason': 'check not built yet (work in progress; see DESIGN.md §4 for the planned model-checking design)'}
          for p in props if p not in CHECKS]
    man = {
        'version': 1,
        'setup_cmd': './setup.sh',
        'hooks': {
            'guard': 'PYGAPS_VERIF',
            'enable': 'none needed: checks rebind module attributes of the imported working tree at run time (editable install of /repo/src); PYGAPS_VERIF=1 is exported by ./vcheck but no guarded code exists in /repo',
            'baseline_off_cmd': 'cd /repo && env -u PYGAPS_VERIF /venv/bin/python -m pytest -ra -q -p no:cacheprovider --timeout=900 --continue-on-collection-errors',
            'source_commits': [],
            'add_only': True,
        },
        'engines': [
            {'name': 'E1', 'path': 'mc/engine_states.py', 'serves_properties': ['C02', 'C04', 'C05', 'C08'], 'kind_free_text': E1},
            {'name': 'E2', 'path': 'mc/core.py', 'serves_properties': ['C01', 'C03', 'C06', 'C07'] + [f'C{i}' for i in range(10, 21)], 'kind_free_text': E2},
            {'name': 'E3', 'path': 'mc/engine_faults.py', 'serves_properties': ['C09'], 'kind_free_text': E3},
        ],
        'checks': checks,
        'not_applicable': na,
        'notes': 'All checks run the current /repo working tree through the editable install (nothing to rebuild). Exit 0 held / 1 VIOLATION / 2 harness error.',
    }
    json.dump(man, open(os.path.join(HERE, 'MANIFEST.json'), 'w'), indent=1)
    print('wrote MANIFEST.json with', len(checks), 'checks;', len(na), 'not yet claimed')

if __name__ == '__main__':
    main()
