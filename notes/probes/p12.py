import warnings, logging, itertools
warnings.filterwarnings('ignore')
import pygaps, numpy as np
import pygaps.characterisation as pgc
import pygaps.iast as pgi
from scipy import integrate, constants
pygaps.logger.setLevel(logging.CRITICAL)
from pygaps.modelling import get_isotherm_model
U=dict(pressure_mode='absolute',pressure_unit='bar',loading_basis='molar',loading_unit='mmol',material_basis='mass',material_unit='g',temperature_unit='K')
def mi(name,params,ads='CH4',T=300,pr=(0,10)):
    m=get_isotherm_model(name,parameters=params,pressure_range=pr,loading_range=(0,10))
    if name in('DR','DA'): m.minus_rt=-8.314*T
    return pygaps.ModelIsotherm(material='M',adsorbate=ads,temperature=T,model=m,**U)
def t(label, f):
    try: r=f(); print(label,'->',r)
    except Exception as e: print(label,'-> EXC',type(e).__name__, str(e)[:200].replace('\n',' '))
# C12 fit recovery
p=np.linspace(0.05,8,25)
for name,params in [('Henry',dict(K=2.)),('Langmuir',dict(K=1.5,n_m=3.)),('DSLangmuir',dict(n_m1=2.,K1=0.3,n_m2=1.,K2=5.)),('BET',dict(n_m=2.,C=50.,N=0.05)),('Freundlich',dict(K=1.2,m=2.)),('TemkinApprox',dict(n_m=3.,K=1.,tht=0.5)),('Toth',dict(n_m=3.,K=2.,t=0.7)),('JensenSeaton',dict(K=5.,a=2.,b=0.1,c=1.5))]:
    gen=get_isotherm_model(name,parameters=params); n=gen.loading(p)
    def f():
        m=pygaps.ModelIsotherm(material='M',adsorbate='CH4',temperature=300,pressure=p,loading=n,model=name,**U)
        pred=m.model.loading(p); rm=np.sqrt(np.mean((pred-n)**2))/(max(n)-min(n))
        return (float(np.max(np.abs(pred-n)/n)), float(m.model.rmse), float(rm))
    t('fit '+name,f)
# C13
a=mi('Langmuir',dict(K=1.,n_m=3.)); b=mi('Toth',dict(K=5.,n_m=2.,t=0.6),'C2H6'); c=mi('DSLangmuir',dict(n_m1=2.,K1=0.3,n_m2=1.,K2=5.),'CO2'); d=mi('Quadratic',dict(n_m=2.,Ka=1.,Kb=0.5),'N2')
def resid(isos,pp):
    n=pgi.iast_point(isos,pp); x=n/n.sum(); p0=np.asarray(pp)/x
    sp=[integrate.quad(lambda q: float(i.loading_at(q))/q,0,pi,limit=200)[0] for i,pi in zip(isos,p0)]
    nt=1/sum(xi/float(i.loading_at(pi)) for xi,i,pi in zip(x,isos,p0))
    return (x.round(4).tolist(), np.ptp(sp)/np.mean(sp), abs(nt-n.sum())/nt)
t('iast ab', lambda: resid([a,b],[0.5,0.7]))
t('iast abc', lambda: resid([a,b,c],[0.5,0.7,0.2]))
t('iast abcd', lambda: resid([a,b,c,d],[0.5,0.7,0.2,1.0]))
t('iast perm', lambda: (pgi.iast_point([a,b,c],[0.5,0.7,0.2]), pgi.iast_point([c,a,b],[0.2,0.5,0.7])))
def rev():
    n=pgi.iast_point([a,b],[0.5,0.7]); x=n/n.sum(); y,n2=pgi.reverse_iast([a,b],x,1.2); return (y, n, n2)
t('reverse', rev)
t('reverse x sum float', lambda: pgi.reverse_iast([a,b,c],[0.1,0.2,0.7],1.2)[0])
# C19 isosteric
R=constants.gas_constant
for dH in (10.,40.):
    Ts=[280,300,330]; isos=[]
    for T in Ts:
        K=1e-3*np.exp(dH*1000/R/T)/np.exp(dH*1000/R/300)*1.0
        isos.append(mi('Langmuir',dict(K=K,n_m=3.),'CH4',T))
    r=pgc.isosteric_enthalpy(isos, loading_points=[0.5,1.,2.])
    print('isosteric',dH,r['isosteric_enthalpy'])
