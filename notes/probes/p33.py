import warnings, logging, itertools, collections, time
warnings.filterwarnings('ignore')
import pygaps, numpy as np
import pygaps.iast as pgi
from scipy import integrate
from pygaps.modelling import get_isotherm_model
from pygaps.utilities.exceptions import CalculationError, pgError
pygaps.logger.setLevel(logging.CRITICAL)
U=dict(pressure_mode='absolute',pressure_unit='bar',loading_basis='molar',loading_unit='mmol',material_basis='mass',material_unit='g',temperature_unit='K')
def mi(name,params,ads):
    return pygaps.ModelIsotherm(material='M',adsorbate=ads,temperature=300,model=get_isotherm_model(name,parameters=params,pressure_range=(0,50),loading_range=(0,10)),**U)
pool=[mi('Henry',dict(K=0.8),'CH4'),mi('Langmuir',dict(K=1.,n_m=3.),'CH4'),mi('Langmuir',dict(K=6.,n_m=3.),'C2H6'),mi('DSLangmuir',dict(n_m1=2.,K1=0.3,n_m2=1.,K2=5.),'CO2'),mi('TSLangmuir',dict(n_m1=2.,K1=0.3,n_m2=1.,K2=5.,n_m3=0.5,K3=20.),'N2'),mi('Quadratic',dict(n_m=2.,Ka=1.,Kb=0.5),'N2'),mi('Toth',dict(K=5.,n_m=2.,t=0.6),'C2H6'),mi('JensenSeaton',dict(K=4.,a=2.,b=0.05,c=1.2),'CO2'),mi('TemkinApprox',dict(n_m=3.,K=2.,tht=0.),'CH4')]
def spref(i,p): return integrate.quad(lambda q: float(i.loading_at(q))/q,0,p,limit=300,epsabs=1e-13,epsrel=1e-11)[0]
stats=collections.Counter(); worst=(0,); t0=time.time()
for k in (2,3):
    for comb in itertools.combinations(range(len(pool)),k):
        isos=[pool[j] for j in comb]
        for pp in itertools.product((0.05,0.5,2.0),repeat=k):
            try:
                n=pgi.iast_point(isos,list(pp))
            except pgError as e: stats[(k,'noreturn',type(e).__name__)]+=1; continue
            except Exception as e: stats[(k,'EXC',type(e).__name__)]+=1; continue
            x=n/n.sum(); p0=np.asarray(pp)/x
            sp=[spref(i,q) for i,q in zip(isos,p0)]
            spread=np.ptp(sp)/np.mean(sp)
            nt=1/sum(xi/float(i.loading_at(q)) for xi,i,q in zip(x,isos,p0))
            e2=abs(nt-n.sum())/nt
            stats[(k,'returned')]+=1
            worst=max(worst,(spread,comb,pp))
            if spread>1e-6 or e2>1e-9: stats[(k,'RESID>1e-6')]+=1
print(dict(stats)); print('worst spread',worst,'time',round(time.time()-t0,1))
import traceback
seen=set()
for comb in itertools.combinations(range(len(pool)),2):
    isos=[pool[j] for j in comb]
    for pp in itertools.product((0.05,0.5,2.0),repeat=2):
        try: pgi.iast_point(isos,list(pp))
        except TypeError as e:
            key=(tuple(i.model.name for i in isos))
            if key not in seen:
                seen.add(key); print(key,pp,str(e)[:150]); 
                if len(seen)==1: traceback.print_exc()
        except Exception: pass
print(seen)
