import warnings, logging, collections
warnings.filterwarnings('ignore')
import pygaps, numpy as np
import pygaps.parsing as pgp
from pygaps.core.baseisotherm import BaseIsotherm
from pygaps.utilities.exceptions import pgError
pygaps.logger.setLevel(logging.CRITICAL)
U=dict(pressure_mode='absolute',pressure_unit='bar',loading_basis='molar',loading_unit='mmol',material_basis='mass',material_unit='g',temperature_unit='K')
vals={'text':'hello world','unicode':'zéolithe β','strNone':'None','strtrue':'true','str5':'5','str1e3':'1e3','int5':5,'intneg':-3,'float':5.5,'floatint':7.0,'big':1.5e21,'small':1.5e-9,'true':True,'false':False,'list':[1,2],'liststr':['a','b'],'nested':{'a':1},'none':None,'empty':'','sep':'a,b','quote':"it's",'dquote':'say "hi"','newline':'a\nb','space_lead':' lead','brackets':'[abc]','hash':'#x','semicolon':'a;b'}
def rt(fmt,iso):
    if fmt=='json': return pgp.isotherm_from_json(iso.to_json())
    if fmt=='csv': return pgp.isotherm_from_csv(iso.to_csv())
    if fmt=='aif': return pgp.isotherm_from_aif(iso.to_aif())
    if fmt=='xls': iso.to_xl('/dev/shm/probe/m.xls'); return pgp.isotherm_from_xl('/dev/shm/probe/m.xls')
for fmt in ['json','csv','aif','xls']:
    res={}
    for k,v in vals.items():
        iso=BaseIsotherm(material='M',adsorbate='N2',temperature=77.,**U,**{'k_'+k:v})
        try:
            r=rt(fmt,iso); got=r.properties.get('k_'+k,'<missing>')
            if r==iso: res[k]='OK'
            elif got==v and type(got)==type(v): res[k]='same-value-but-neq'
            elif got==v: res[k]=f'type {type(v).__name__}->{type(got).__name__}'
            else: res[k]=f'CHANGED {v!r}->{got!r}'
        except pgError as e: res[k]='refused:'+type(e).__name__
        except Exception as e: res[k]='EXC:'+type(e).__name__
    print(fmt, {k:v for k,v in res.items() if v!='OK'})
# unit configs
for fmt in ['json','csv','aif','xls']:
    bad=[]
    for u in [dict(pressure_mode='relative',pressure_unit=None),dict(pressure_mode='relative%',pressure_unit=None),dict(loading_basis='fraction',loading_unit=None),dict(loading_basis='percent',loading_unit=None),dict(material_basis='volume',material_unit='cm3'),dict(material_basis='molar',material_unit='mol'),dict(temperature_unit='°C'),dict(loading_basis='volume_gas',loading_unit='cm3'),dict(loading_unit='cm3(STP)')]:
        UU=dict(U); UU.update(u)
        iso=pygaps.PointIsotherm(pressure=[0.1,0.2,0.3,0.2],loading=[1,2,3,2.5],material={'name':'Mp','density':2.0,'form':'powder'},adsorbate='N2',temperature=77.,**UU)
        try:
            r=rt(fmt,iso)
            if not r==iso: bad.append((u,{k:(v,iso.to_dict().get(k)) for k,v in r.to_dict().items() if iso.to_dict().get(k)!=v}))
        except Exception as e: bad.append((u,'EXC:'+type(e).__name__+str(e)[:50]))
    print(fmt,'unit configs bad:',bad)
