import warnings, logging, itertools, collections
warnings.filterwarnings('ignore')
import pygaps, numpy as np
import pygaps.iast as pgi
from scipy import integrate
from pygaps.modelling import get_isotherm_model, _GUESS_MODELS
from pygaps.utilities.exceptions import CalculationError
pygaps.logger.setLevel(logging.CRITICAL)
U=dict(pressure_mode='absolute',pressure_unit='bar',loading_basis='molar',loading_unit='mmol',material_basis='mass',material_unit='g',temperature_unit='K')
def t(label, f):
    try: r=f(); print(label,'->',r)
    except Exception as e: print(label,'-> EXC',type(e).__name__, str(e)[:200].replace('\n',' '))
p=np.linspace(0.05,8,25); n=3*1.5*p/(1+1.5*p)*(1+0.02*np.sin(7*p))
# guess best-of-list
def g():
    best=pygaps.ModelIsotherm.guess(pressure=p,loading=n,material='M',adsorbate='CH4',temperature=300,models=['Henry','Langmuir','Toth','Freundlich'],**U)
    singles={}
    for m in ['Henry','Langmuir','Toth','Freundlich']:
        try: singles[m]=float(pygaps.ModelIsotherm(pressure=p,loading=n,material='M',adsorbate='CH4',temperature=300,model=m,**U).model.rmse)
        except CalculationError: singles[m]=None
    return best.model.name, float(best.model.rmse), singles
t('guess',g)
def gall():
    best=pygaps.ModelIsotherm.guess(pressure=p,loading=n,material='M',adsorbate='CH4',temperature=300,models='guess',**U); return best.model.name, float(best.model.rmse)
t('guess all',gall)
# bounds
def b():
    m=pygaps.ModelIsotherm(pressure=p,loading=n,material='M',adsorbate='CH4',temperature=300,model='Langmuir',param_bounds={'K':(0.,1.0),'n_m':(0.,10.)},**U); return m.model.params
t('bounds K<=1',b)
def b2():
    m=pygaps.ModelIsotherm(pressure=p,loading=n,material='M',adsorbate='CH4',temperature=300,model='Langmuir',param_bounds={'K':(0.,1.0)},**U); return m.model.params
t('partial bounds',b2)
# branch
pp=list(p)+[6,4,2,1]; nn=list(n)+[3.0,2.9,2.7,2.4]
def br():
    iso=pygaps.PointIsotherm(pressure=pp,loading=nn,material='M',adsorbate='CH4',temperature=300,**U)
    a=pygaps.ModelIsotherm.from_pointisotherm(iso,model='Langmuir',branch='ads').model.params; d=pygaps.ModelIsotherm.from_pointisotherm(iso,model='Langmuir',branch='des').model.params
    nn2=list(nn); nn2[-1]=2.0
    iso2=pygaps.PointIsotherm(pressure=pp,loading=nn2,material='M',adsorbate='CH4',temperature=300,**U)
    a2=pygaps.ModelIsotherm.from_pointisotherm(iso2,model='Langmuir',branch='ads').model.params
    return a,d,a2
t('branch',br)
# from_modelisotherm
def fm():
    m=pygaps.ModelIsotherm(pressure=p,loading=3*1.5*p/(1+1.5*p),material='M',adsorbate='CH4',temperature=300,model='Langmuir',comment='c',**U)
    pi=pygaps.PointIsotherm.from_modelisotherm(m); pi2=pygaps.PointIsotherm.from_modelisotherm(m,pressure_points=[0.1,1,5]); pi3=pygaps.PointIsotherm.from_modelisotherm(m,loading_points=[0.5,1,2])
    return len(pi.pressure()), pi.properties, float(np.max(np.abs(pi.loading()-m.model.loading(pi.pressure())))), pi2.loading().tolist(), pi3.pressure().tolist(), pi.units==m.units
t('from_model',fm)
# unit clause
def uc():
    m1=pygaps.ModelIsotherm(pressure=p,loading=n,material='M',adsorbate='N2',temperature=77.355,model='Toth',**U)
    U2=dict(U,pressure_unit='kPa',loading_unit='mol')
    m2=pygaps.ModelIsotherm(pressure=p*100,loading=n/1000,material='M',adsorbate='N2',temperature=77.355,model='Toth',**U2)
    return float(np.max(np.abs(m1.loading_at(p)-m2.loading_at(p*100)*1000)/m1.loading_at(p))), m1.model.rmse, m2.model.rmse
t('unit clause',uc)
# C13 point isotherms
pg=np.concatenate([np.linspace(0.001,0.1,40),np.linspace(0.12,30,300)])
def pt(K,nm,ads): return pygaps.PointIsotherm(pressure=pg,loading=nm*K*pg/(1+K*pg),material='M',adsorbate=ads,temperature=300,**U)
a=pt(1.,3.,'CH4'); b=pt(5.,3.,'C2H6')
t('iast point', lambda: (pgi.iast_point([a,b],[0.5,0.5]), [3*1*0.5/(1+0.5+2.5), 3*5*0.5/4]))
t('iast point guess', lambda: pgi.iast_point([a,b],[0.5,0.5],adsorbed_mole_fraction_guess=[0.2,0.8]))
t('iast point hi', lambda: pgi.iast_point([a,b],[5,5]))
t('reverse point', lambda: pgi.reverse_iast([a,b],[0.25,0.75],1.0))
t('svp', lambda: pgi.iast_binary_svp([a,b],[0.5,0.5],[0.5,1,2])['selectivity'])
t('vle', lambda: pgi.iast_binary_vle([a,b],1.0,npoints=5))
