import sqlite3, sys, os
p='/dev/shm/probe/cr.db'
c=sqlite3.connect(p)
c.execute('create table if not exists t(a)')
c.commit()
os.write(2, b'MARK\n')
c.execute('insert into t values (1)')
c.execute('insert into t values (2)')
c.commit()
c.close()
