import warnings, logging, subprocess, sys, os, json
warnings.filterwarnings('ignore')
import pygaps, numpy as np, pandas as pd
import pygaps.parsing as pgp
pygaps.logger.setLevel(logging.CRITICAL)
U=dict(pressure_mode='absolute',pressure_unit='bar',loading_basis='molar',loading_unit='mmol',material_basis='mass',material_unit='g',temperature_unit='K')
P=[1.,2.,3.,2.5,1.5]; L=[1.5,2.5,3.5,3.25,2.75]; E=[5.,4.,3.,2.,1.]; T=list('abcde'); B=[0,0,0,1,1]
meta=dict(material='Mz',adsorbate='N2',temperature=77.355,note='x',num=1.5,**U)
routes={}
routes['lists']=lambda: pygaps.PointIsotherm(pressure=P,loading=L,**meta)
routes['arrays']=lambda: pygaps.PointIsotherm(pressure=np.array(P),loading=np.array(L),**meta)
routes['series idx']=lambda: pygaps.PointIsotherm(pressure=pd.Series(P,index=range(5,10)),loading=pd.Series(L,index=range(5,10)),**meta)
routes['df']=lambda: pygaps.PointIsotherm(isotherm_data=pd.DataFrame({'pressure':P,'loading':L}),pressure_key='pressure',loading_key='loading',**meta)
routes['df idx5']=lambda: pygaps.PointIsotherm(isotherm_data=pd.DataFrame({'pressure':P,'loading':L},index=range(5,10)),pressure_key='pressure',loading_key='loading',**meta)
routes['df stridx']=lambda: pygaps.PointIsotherm(isotherm_data=pd.DataFrame({'pressure':P,'loading':L},index=list('vwxyz')),pressure_key='pressure',loading_key='loading',**meta)
routes['df othernames']=lambda: pygaps.PointIsotherm(isotherm_data=pd.DataFrame({'p':P,'n':L}),pressure_key='p',loading_key='n',**meta)
routes['df branch int64']=lambda: pygaps.PointIsotherm(isotherm_data=pd.DataFrame({'pressure':P,'loading':L,'branch':B}),pressure_key='pressure',loading_key='loading',**meta)
routes['df branch bool']=lambda: pygaps.PointIsotherm(isotherm_data=pd.DataFrame({'pressure':P,'loading':L,'branch':[bool(b) for b in B]}),pressure_key='pressure',loading_key='loading',**meta)
routes['df branch float']=lambda: pygaps.PointIsotherm(isotherm_data=pd.DataFrame({'pressure':P,'loading':L,'branch':[float(b) for b in B]}),pressure_key='pressure',loading_key='loading',**meta)
routes['branch list arg']=lambda: pygaps.PointIsotherm(pressure=P,loading=L,branch=[bool(b) for b in B],**meta)
routes['from_isotherm']=lambda: pygaps.PointIsotherm.from_isotherm(pygaps.core.baseisotherm.BaseIsotherm(**meta),pressure=P,loading=L)
routes['json rt']=lambda: pgp.isotherm_from_json(routes['lists']().to_json())
routes['csv rt']=lambda: pgp.isotherm_from_csv(routes['lists']().to_csv())
routes['meta order']=lambda: pygaps.PointIsotherm(pressure=P,loading=L,**dict(reversed(list(meta.items()))))
ids={}
for k,f in routes.items():
    try: ids[k]=f().iso_id
    except Exception as e: ids[k]='EXC:'+type(e).__name__+str(e)[:60]
ref=ids['lists']
for k,v in ids.items(): print(('SAME ' if v==ref else 'DIFF ')+k, '' if v==ref else v[:50])
# other process / hash seed
code="import warnings;warnings.filterwarnings('ignore');import logging,pygaps;pygaps.logger.setLevel(logging.CRITICAL);print(pygaps.PointIsotherm(pressure=%r,loading=%r,**%r).iso_id)"%(P,L,meta)
for seed in ('0','1','12345'):
    r=subprocess.run(['/venv/bin/python','-c',code],env=dict(os.environ,PYTHONHASHSEED=seed),capture_output=True,text=True).stdout.strip().splitlines()[-1]
    print('child seed',seed, r==ref)
# sensitivity
base=routes['lists']()
def mk(**kw):
    m=dict(meta); P2=list(P); L2=list(L); br='guess'
    for k,v in kw.items():
        if k=='p0': P2[0]+=v
        elif k=='l3': L2[3]+=v
        elif k=='branch': br=v
        else: m[k]=v
    return pygaps.PointIsotherm(pressure=P2,loading=L2,branch=br,**m)
for label,kw in [('p0+1e-6',dict(p0=1e-6)),('p0+1e-10',dict(p0=1e-10)),('l3+1e-6',dict(l3=1e-6)),('note',dict(note='y')),('num',dict(num=1.6)),('temp',dict(temperature=77.36)),('punit',dict(pressure_unit='kPa')),('lunit',dict(loading_unit='mol')),('munit',dict(material_unit='kg')),('tunit',dict(temperature_unit='°C')),('material',dict(material='Mq')),('adsorbate',dict(adsorbate='Ar')),('branch flip',dict(branch=[0,0,1,1,1])),('extra key',dict(extra=1))]:
    i=mk(**kw); print(label, 'changed' if i.iso_id!=base.iso_id else 'SAME-ID')
