import warnings, logging, itertools, time, collections
warnings.filterwarnings('ignore')
import pygaps, numpy as np, pandas as pd
pygaps.logger.setLevel(logging.CRITICAL)
from pygaps.units.converter_mode import _LOADING_MODE, _MATERIAL_MODE
from pygaps.utilities.exceptions import pgError
import ref_units as ru
T=77.355; c=ru.ads_consts('NITROGEN',T)
mat=pygaps.Material('mm2',density=2.0,molar_mass=100.0); m=dict(density=2.0,molar_mass=100.0)
P0=np.array([0.1,0.2,0.35,0.5,0.4,0.25]); L0=np.array([1.,2.,3.,4.,3.8,3.])
def build(labels, p, l):
    df=pd.DataFrame({'pressure':p,'loading':l,'branch':[0,0,0,0,1,1],'enth':[5.,4,3,2,1,0],'txt':list('abcdef')}, index=[3,4,5,6,7,8])
    return pygaps.PointIsotherm(isotherm_data=df,pressure_key='pressure',loading_key='loading',material=mat,adsorbate='N2',temperature=labels_temp(labels), note='x', **dict(zip(KEYS,labels)))
KEYS=['pressure_mode','pressure_unit','loading_basis','loading_unit','material_basis','material_unit','temperature_unit']
def labels_temp(lab): return T if lab[6]=='K' else T-273.15
init=('absolute','bar','molar','mmol','mass','g','K')
canonP=ru.p_to_pa(P0,'absolute','bar',c); canonL=ru.loading_to_canon(L0,'molar','mmol','mass','g',c,m)
def refdata(lab):
    return ru.pa_to(canonP,lab[0],lab[1],c), ru.canon_to_loading(canonL,lab[2],lab[3],lab[4],lab[5],c,m)
PU=['bar','Pa','torr']; LU={'molar':['mmol','cm3(STP)'],'mass':['g','mg'],'volume_gas':['cm3'],'volume_liquid':['cm3','L']}; MU={'mass':['g','kg'],'volume':['cm3','m3'],'molar':['mol','mmol']}
ops=[]
for mode in [None,'absolute','relative','relative%','bogus']:
    for u in [None]+PU+['bogus']: ops.append(('convert_pressure',dict(mode_to=mode,unit_to=u)))
for b in [None,'molar','mass','volume_gas','volume_liquid','fraction','percent','bogus']:
    for u in [None,'mmol','cm3(STP)','g','mg','cm3','L','bogus']: ops.append(('convert_loading',dict(basis_to=b,unit_to=u)))
for b in [None,'mass','volume','molar','bogus']:
    for u in [None,'g','kg','cm3','m3','mol','mmol','bogus']: ops.append(('convert_material',dict(basis_to=b,unit_to=u)))
for u in [None,'K','°C','C','celsius','bogus']: ops.append(('convert_temperature',dict(unit_to=u)))
print(len(ops),'ops')
def getlab(iso): return tuple(getattr(iso,k) for k in KEYS)
def valid(lab):
    try:
        pygaps.core.baseisotherm.BaseIsotherm(material='x',adsorbate='N2',temperature=1,**dict(zip(KEYS,lab))); return True
    except Exception as e: return False
seen={init}; frontier=collections.deque([(init,P0,L0)]); viol=collections.Counter(); ex={}; ntr=0; t0=time.time()
def sig(op,kw,lab,kind):
    return (op, tuple((k,('None' if v is None else 'bogus' if v=='bogus' else 'same' if v in lab else 'val')) for k,v in kw.items()), 'frac' if lab[2] in('fraction','percent') else 'phys', kind)
while frontier:
    lab,p,l=frontier.popleft()
    for op,kw in ops:
        iso=build(lab,p,l); ntr+=1
        try:
            getattr(iso,op)(**kw); out='ok'
        except pgError as e: out='pg'
        except Exception as e: out='other:'+type(e).__name__
        nl=getlab(iso); np_=iso.data_raw['pressure'].values; nl_=iso.data_raw['loading'].values
        if out!='ok':
            if nl!=lab or not np.array_equal(np_,p) or not np.array_equal(nl_,l) :
                viol[sig(op,kw,lab,'refused-but-changed')]+=1; ex.setdefault(sig(op,kw,lab,'refused-but-changed'),(lab,kw,nl))
            if out.startswith('other'): viol[sig(op,kw,lab,out)]+=1; ex.setdefault(sig(op,kw,lab,out),(lab,kw))
            continue
        if not valid(nl):
            viol[sig(op,kw,lab,'invalid-labels')]+=1; ex.setdefault(sig(op,kw,lab,'invalid-labels'),(lab,kw,nl)); continue
        try:
            rp,rl=refdata(nl)
            okd=np.allclose(np_,rp,rtol=5e-4,atol=0) and np.allclose(nl_,rl,rtol=5e-4,atol=0)
        except Exception as e: okd=False
        if not okd:
            viol[sig(op,kw,lab,'data-inconsistent')]+=1; ex.setdefault(sig(op,kw,lab,'data-inconsistent'),(lab,kw,nl, nl_[:2], rl[:2])); continue
        if abs(iso.temperature-T)>1e-9: viol[sig(op,kw,lab,'temp')]+=1
        if not (iso.data_raw['branch'].tolist()==[0,0,0,0,1,1] and iso.data_raw['txt'].tolist()==list('abcdef') and list(iso.data_raw.index)==[3,4,5,6,7,8] and iso.properties=={'note':'x'}): viol[sig(op,kw,lab,'frame')]+=1
        if nl not in seen:
            seen.add(nl); frontier.append((nl,np_.copy(),nl_.copy()))
print('states',len(seen),'transitions',ntr,'time',time.time()-t0)
for k,v in sorted(viol.items(), key=lambda x:-x[1]): print(v,k,'e.g.',ex.get(k))
