import warnings, logging, os, sqlite3, types
warnings.filterwarnings('ignore')
import pygaps, numpy as np
from pygaps.parsing import sqlite as pgsql
from pygaps.utilities.sqlite_db_pragmas import PRAGMAS
from pygaps.utilities.sqlite_utilities import db_execute_general
pygaps.logger.setLevel(logging.CRITICAL)
# --- proxy
class Inject(Exception): pass
class CurP:
    def __init__(s,c,ctl): s._c=c; s._ctl=ctl
    def execute(s,sql,*a):
        s._ctl.point('execute',sql)
        r=s._c.execute(sql,*a); return s
    def __getattr__(s,n): return getattr(s._c,n)
    def __iter__(s): return iter(s._c)
class ConP:
    def __init__(s,c,ctl): object.__setattr__(s,'_c',c); object.__setattr__(s,'_ctl',ctl)
    def cursor(s): return CurP(s._c.cursor(),s._ctl)
    def commit(s): s._ctl.point('commit',''); return s._c.commit()
    def rollback(s): s._ctl.point('rollback',''); return s._c.rollback()
    def close(s): s._ctl.point('close',''); return s._c.close()
    def __setattr__(s,n,v): setattr(s._c,n,v)
    def __getattr__(s,n): return getattr(s._c,n)
class Ctl:
    def __init__(s,fail_at=None,exc=None): s.n=0; s.log=[]; s.fail_at=fail_at; s.exc=exc
    def point(s,kind,sql):
        s.n+=1; s.log.append((s.n,kind,sql[:50]))
        if s.fail_at==s.n: raise s.exc
def install(ctl):
    ns=types.SimpleNamespace(**{k:getattr(sqlite3,k) for k in dir(sqlite3) if not k.startswith('__')})
    ns.connect=lambda p,*a,**k: ConP(sqlite3.connect(p,*a,**k),ctl)
    pgsql.sqlite3=ns
def newdb(p):
    if os.path.exists(p): os.remove(p)
    for pr in PRAGMAS: db_execute_general(pr,p)
    for t in ('isotherm','pointisotherm','modelisotherm'): pgsql.isotherm_type_to_db({'type':t},db_path=p,verbose=False)
A='/dev/shm/probe/f.db'; newdb(A)
mat=pygaps.Material('pm', density=2.0, comment='x')
ctl=Ctl(); install(ctl)
pgsql.material_to_db(mat, db_path=A, verbose=False)
print(len(ctl.log)); [print(l) for l in ctl.log]
def dump(p):
    c=sqlite3.connect(p); r={t:c.execute(f'select * from {t}').fetchall() for t in ('materials','material_properties','material_properties_type')}; c.close(); return r
for k in range(1,ctl.n+1):
    for exc in (sqlite3.IntegrityError('inj'), sqlite3.OperationalError('inj')):
        newdb(A); pygaps.MATERIAL_LIST.clear()
        c2=Ctl(fail_at=k,exc=exc); install(c2)
        try: pgsql.material_to_db(mat, db_path=A, verbose=False); out='ok'
        except Exception as e: out=type(e).__name__
        d=dump(A)
        print(k,type(exc).__name__,out,{t:len(v) for t,v in d.items()}, 'inlist', mat in pygaps.MATERIAL_LIST)
