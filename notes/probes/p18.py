import warnings, logging, itertools, time, collections
warnings.filterwarnings('ignore')
import pygaps, numpy as np, pandas as pd
pygaps.logger.setLevel(logging.CRITICAL)
from pygaps.modelling import get_isotherm_model
mat=pygaps.Material('mm3',density=2.0,molar_mass=100.0)
KEYS=['pressure_mode','pressure_unit','loading_basis','loading_unit','material_basis','material_unit']
PR=[('absolute','bar'),('absolute','Pa'),('absolute','torr'),('relative',None),('relative%',None)]
LR=[('molar','mmol'),('molar','cm3(STP)'),('mass','g'),('mass','mg'),('volume_gas','cm3'),('volume_liquid','cm3'),('volume_liquid','L'),('fraction',None),('percent',None)]
MR=[('mass','g'),('mass','kg'),('volume','cm3'),('volume','m3'),('molar','mol'),('molar','mmol')]
P0=[0.1,0.2,0.35,0.5,0.4,0.25]; L0=[1.,2.,3.,4.,3.8,3.]
def mkpoint():
    return pygaps.PointIsotherm(pressure=P0,loading=L0,material=mat,adsorbate='N2',temperature=77.355,pressure_mode='absolute',pressure_unit='bar',loading_basis='molar',loading_unit='mmol',material_basis='mass',material_unit='g',temperature_unit='K')
def mkmodel():
    return pygaps.ModelIsotherm(model=get_isotherm_model('Langmuir',parameters=dict(K=5.,n_m=4.),pressure_range=(0.05,0.6),loading_range=(0.5,3.)),material=mat,adsorbate='N2',temperature=77.355,pressure_mode='absolute',pressure_unit='bar',loading_basis='molar',loading_unit='mmol',material_basis='mass',material_unit='g',temperature_unit='K')
def conv_model(mi, S):
    # ModelIsotherm has no convert; build a model isotherm natively in S by refitting? skip: use point differential only
    return None
viol=collections.Counter(); ex={}
def rec(k,e): viol[k]+=1; ex.setdefault(k,e)
def close(a,b): 
    a=np.asarray(a,dtype=float); b=np.asarray(b,dtype=float)
    return a.shape==b.shape and np.allclose(a,b,rtol=1e-9,atol=0)
t0=time.time(); n=0
for S in itertools.product(PR,LR,MR):
    base=mkpoint(); base.convert(pressure_mode=S[0][0],pressure_unit=S[0][1],material_basis=S[2][0],material_unit=S[2][1],loading_basis=S[1][0],loading_unit=S[1][1])
    for R in itertools.product(PR,LR,MR):
        # only vary one dimension group at a time plus combined L+M
        same=[S[i]==R[i] for i in range(3)]
        if sum(same)<1: continue
        perm=mkpoint(); perm.convert(pressure_mode=S[0][0],pressure_unit=S[0][1],material_basis=S[2][0],material_unit=S[2][1],loading_basis=S[1][0],loading_unit=S[1][1])
        perm.convert(pressure_mode=R[0][0],pressure_unit=R[0][1],material_basis=R[2][0],material_unit=R[2][1],loading_basis=R[1][0],loading_unit=R[1][1])
        pk=dict(pressure_mode=R[0][0],pressure_unit=R[0][1]); lk=dict(loading_basis=R[1][0],loading_unit=R[1][1],material_basis=R[2][0],material_unit=R[2][1])
        n+=1
        cls=('Ssame' if S==R else '') + ('Sfrac' if S[1][0] in('fraction','percent') else 'Sphys')+('Rfrac' if R[1][0] in('fraction','percent') else 'Rphys')+('Mchg' if S[2]!=R[2] else 'Msame')
        def chk(name,f,g):
            try: a=f()
            except Exception as e: a='EXC:'+type(e).__name__
            try: b=g()
            except Exception as e: b='EXC:'+type(e).__name__
            if isinstance(a,str) or isinstance(b,str):
                if a!=b: rec((name,cls,'exc',str(a)[:30] if isinstance(a,str) else 'val',str(b)[:30] if isinstance(b,str) else 'val'),(S,R))
            elif not close(a,b): rec((name,cls,'value'),(S,R,np.asarray(a).ravel()[:2],np.asarray(b).ravel()[:2]))
        chk('pressure()',lambda: base.pressure(branch='ads',**pk), lambda: perm.pressure(branch='ads'))
        chk('loading()',lambda: base.loading(branch='des',**lk), lambda: perm.loading(branch='des'))
        qp=perm.pressure(branch='ads')[1]*0.5+perm.pressure(branch='ads')[2]*0.5
        ql=perm.loading(branch='ads')[1]*0.5+perm.loading(branch='ads')[2]*0.5
        chk('loading_at',lambda: base.loading_at(qp,**pk,**lk), lambda: perm.loading_at(qp))
        chk('pressure_at',lambda: base.pressure_at(ql,**pk,**lk), lambda: perm.pressure_at(ql))
print(n,'pairs',time.time()-t0)
for k,v in sorted(viol.items(), key=lambda x:-x[1]): print(v,k,'e.g.',ex[k])
