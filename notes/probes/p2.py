import warnings, logging
warnings.filterwarnings('ignore')
import pygaps, numpy as np, pandas as pd
import pygaps.parsing as pgp
pygaps.logger.setLevel(logging.CRITICAL)
def mk(**kw):
    d=dict(material='M', adsorbate='N2', temperature=77.344, pressure=[0.1,0.2,0.3,0.4,0.5,0.35,0.2], loading=[1,2,3,4,5,4.5,3.0])
    d.update(kw); return pygaps.PointIsotherm(**d)
def t(label, f):
    try: r=f(); print(label,'->',r)
    except Exception as e: print(label,'-> EXC',type(e).__name__, str(e)[:200].replace('\n',' '))
iso=mk(); j=iso.to_json(); r=pgp.isotherm_from_json(j); print('json rt eq', r==iso, r.data_raw.dtypes.to_dict(), iso.data_raw.dtypes.to_dict())
print(j[:300])
iso=mk(pressure=[1,2,3.],loading=[1,2,3.]); r=pgp.isotherm_from_json(iso.to_json()); print('json rt ads-only eq', r==iso)
iso=mk(pressure=[1,3,2.],loading=[1,3,2.], branch='ads'); r=pgp.isotherm_from_json(iso.to_json()); print('json rt ads-nonmono eq', r==iso, r.data_raw.branch.tolist())
iso=mk(pressure=[3,2,1.],loading=[3,2,1.], branch='des'); r=pgp.isotherm_from_json(iso.to_json()); print('json rt all-des eq', r==iso, r.data_raw.branch.tolist(), r.data_raw.dtypes.to_dict())
for name,fw,fr in [('csv',pgp.isotherm_to_csv,pgp.isotherm_from_csv),('aif',pgp.isotherm_to_aif,pgp.isotherm_from_aif)]:
    for lab,iso in [('adsdes',mk()),('ads',mk(pressure=[1,2,3.],loading=[1,2,3.]))]:
        def f():
            s=fw(iso); r=fr(s); return (r==iso, r.data_raw.dtypes.to_dict(), {k:(v,type(v).__name__) for k,v in r.to_dict().items() if iso.to_dict().get(k)!=v})
        t(name+' '+lab, f)
def fx():
    iso=mk(); iso.to_xl('/dev/shm/probe/a.xlsx'); r=pgp.isotherm_from_xl('/dev/shm/probe/a.xlsx'); return (r==iso, r.data_raw.dtypes.to_dict(), {k:(v,type(v).__name__) for k,v in r.to_dict().items() if iso.to_dict().get(k)!=v})
t('xlsx', fx)
def fx():
    iso=mk(); iso.to_xl('/dev/shm/probe/a.xls'); r=pgp.isotherm_from_xl('/dev/shm/probe/a.xls'); return (r==iso, r.data_raw.dtypes.to_dict(), {k:(v,type(v).__name__) for k,v in r.to_dict().items() if iso.to_dict().get(k)!=v})
t('xls', fx)
