import warnings, logging, os, sqlite3
warnings.filterwarnings('ignore')
import pygaps, numpy as np, pandas as pd
from pygaps.parsing import sqlite as pgsql
from pygaps.utilities.sqlite_db_creator import db_create
from pygaps.utilities.sqlite_db_pragmas import PRAGMAS
from pygaps.utilities.sqlite_utilities import db_execute_general
pygaps.logger.setLevel(logging.CRITICAL)
def t(label, f):
    try: r=f(); print(label,'->',r)
    except Exception as e: print(label,'-> EXC',type(e).__name__, str(e)[:150].replace('\n',' '))
import time
def newdb(p):
    if os.path.exists(p): os.remove(p)
    for pr in PRAGMAS: db_execute_general(pr,p)
    pgsql.isotherm_type_to_db({'type':'isotherm'},db_path=p,verbose=False)
    pgsql.isotherm_type_to_db({'type':'pointisotherm'},db_path=p,verbose=False)
    pgsql.isotherm_type_to_db({'type':'modelisotherm'},db_path=p,verbose=False)
t0=time.time(); newdb('/dev/shm/probe/a.db'); newdb('/dev/shm/probe/b.db'); print('newdb time', time.time()-t0, os.path.getsize('/dev/shm/probe/a.db'))
A='/dev/shm/probe/a.db'; B='/dev/shm/probe/b.db'
ads=pygaps.Adsorbate('xads', formula='X2', molar_mass=10.0)
iso=pygaps.PointIsotherm(material='matx', adsorbate='xads', temperature=77.0, pressure=[1,2,3,2.],loading=[1,2,3,2.5], comment='hello', numb=1.5)
t0=time.time()
t('iso to A', lambda: pgsql.isotherm_to_db(iso, db_path=A, verbose=False))
print('time', time.time()-t0)
r=pgsql.isotherms_from_db(db_path=A, verbose=False)
print('retrieved eq', r[0]==iso, {k:v for k,v in r[0].to_dict().items() if iso.to_dict().get(k)!=v})
t('delete via retrieved', lambda: pgsql.isotherm_delete_db(r[0], db_path=A, verbose=False))
t('iso to B (same session)', lambda: pgsql.isotherm_to_db(iso, db_path=B, verbose=False))
print('lists', 'matx' in [m.name for m in pygaps.MATERIAL_LIST], ads in pygaps.ADSORBATE_LIST)
# int metadata
iso2=pygaps.PointIsotherm(material='maty', adsorbate='N2', temperature=77.0, pressure=[1,2,3,2.],loading=[1,2,3,2.5], n=5, s='12')
t('iso2 to A', lambda: pgsql.isotherm_to_db(iso2, db_path=A, verbose=False))
con=sqlite3.connect(A); print(con.execute('select name from adsorbates').fetchall(), con.execute('select name from materials').fetchall(), con.execute('select id from isotherms').fetchall()); con.close()
# relative
iso3=pygaps.PointIsotherm(material='matz', adsorbate='N2', temperature=77.0, pressure=[.1,.2,.3],loading=[1,2,3.], pressure_mode='relative')
t('iso3 rel to A', lambda: pgsql.isotherm_to_db(iso3, db_path=A, verbose=False))
con=sqlite3.connect(A); print(con.execute('select name from adsorbates').fetchall(), con.execute('select name from materials').fetchall(), con.execute('select id from isotherms').fetchall()); con.close()
print('matz in list', 'matz' in [m.name for m in pygaps.MATERIAL_LIST])
iso3.convert_pressure('absolute','bar')
t('iso3 abs retry to A', lambda: pgsql.isotherm_to_db(iso3, db_path=A, verbose=False))
