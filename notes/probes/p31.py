import warnings, logging, itertools, collections
warnings.filterwarnings('ignore')
import pygaps, numpy as np
import pygaps.parsing as pgp, pygaps.iast as pgi
from scipy import integrate
from pygaps.modelling import get_isotherm_model, _MODELS, _IAST_MODELS
from pygaps.utilities.exceptions import CalculationError, pgError
pygaps.logger.setLevel(logging.CRITICAL)
U=dict(pressure_mode='absolute',pressure_unit='bar',loading_basis='molar',loading_unit='mmol',material_basis='mass',material_unit='g',temperature_unit='K')
# (g) point isotherm spreading pressure vs reference interpolant
def ref_sp(P,L,p):
    P=np.asarray(P,float); L=np.asarray(L,float)
    if p<=P[0]: return L[0]/P[0]*p
    tot=L[0]
    for i in range(len(P)-1):
        a,b=P[i],min(P[i+1],p)
        if b<=a: break
        s=(L[i+1]-L[i])/(P[i+1]-P[i]); c=L[i]-s*P[i]
        tot+=s*(b-a)+c*np.log(b/a)
    return tot
bad=[]
for name,P,L in [('concave',[0.1,0.3,0.7,1.5,3,6],[1,2.2,3.3,4.1,4.6,4.9]),('convex',[0.1,0.5,1,2,4],[0.05,0.4,1.2,3.5,9]),('lin',[1,2,3],[2,4,6]),('plateau',[0.2,0.5,1,2,3,5,8,10,12],[1,2,2.8,3,3,3,3,3.05,3.1])]:
    iso=pygaps.PointIsotherm(pressure=P,loading=L,material='M',adsorbate='CH4',temperature=300,**U)
    qs=[P[0]/2,P[0]]+[(a+b)/2 for a,b in zip(P[:-1],P[1:])]+list(P[1:])
    for q in qs:
        i2=pygaps.PointIsotherm(pressure=P,loading=L,material='M',adsorbate='CH4',temperature=300,**U)
        v=float(i2.spreading_pressure_at(q)); r=ref_sp(P,L,q)
        if abs(v-r)>1e-10*max(1,abs(r)): bad.append((name,q,v,r))
    # units
    i2=pygaps.PointIsotherm(pressure=P,loading=L,material='M',adsorbate='CH4',temperature=300,**U)
    v=float(i2.spreading_pressure_at(P[2]*100,pressure_unit='kPa')); v2=float(i2.spreading_pressure_at(P[2]))
    v3=float(i2.spreading_pressure_at(P[2],loading_unit='mol'))
    print(name,'kPa arg',v,v2,'mol arg',v3)
print('point sp mismatches',bad)
# (h) rmse identity for all models on noisy data
p=np.linspace(0.05,0.9,25); n=3*8*p/(1+8*p)*(1+0.02*np.sin(7*p))
for m in _MODELS:
    try:
        UU=dict(U); 
        mi=pygaps.ModelIsotherm(pressure=p,loading=n,material='M',adsorbate='N2',temperature=77.355,model=m,**dict(U,pressure_mode='relative',pressure_unit=None))
        mod=mi.model
        if mod.calculates=='loading':
            r=mod.loading(p)-n; rng=mod.loading_range[1]-mod.loading_range[0]
        else:
            r=mod.pressure(n)-p; rng=mod.pressure_range[1]-mod.pressure_range[0]
        rm=np.sqrt(np.sum(r**2)/len(n))/rng
        print(m,'rmse',float(mod.rmse),'recomputed',float(rm), 'ok' if abs(rm-mod.rmse)<=1e-9*abs(rm) else ('VIRIAL-own-def' if m=='Virial' else 'MISMATCH'))
    except CalculationError as e: print(m,'fit failed (CalculationError)')
    except Exception as e: print(m,'EXC',type(e).__name__,str(e)[:80])
