import sys, os, subprocess, shutil, json
M={
 'M01_c_loading_vg_vl_sign': ('src/pygaps/units/converter_mode.py', """                constant = adsorbate.gas_molar_density(temp=temp) /\\
                    adsorbate.liquid_molar_density(temp=temp)
                sign = 1""", """                constant = adsorbate.gas_molar_density(temp=temp) /\\
                    adsorbate.liquid_molar_density(temp=temp)
                sign = -1"""),
 'M02_c_material_unit_sign': ('src/pygaps/units/converter_mode.py', "return c_unit(_MATERIAL_MODE[basis_from], value, unit_from, unit_to, sign=-1)", "return c_unit(_MATERIAL_MODE[basis_from], value, unit_from, unit_to, sign=1)"),
 'M03_no_interp_reset_material': ('src/pygaps/core/pointisotherm.py', """            self.material_basis = basis_to

        # Reset interpolators
        self.l_interpolator = None
        self.p_interpolator = None""", """            self.material_basis = basis_to
"""),
 'M04_cache_key_drops_kind': ('src/pygaps/core/pointisotherm.py', """            self.l_interpolator is None or self.l_interpolator.interp_branch != branch
            or self.l_interpolator.interp_kind != interpolation_type
            or""", """            self.l_interpolator is None or self.l_interpolator.interp_branch != branch
            or"""),
 'M05_hash_round4': ('src/pygaps/utilities/hashgen.py', "isotherm.data_raw.round(8)", "isotherm.data_raw.round(4)"),
 'M06_json_des_as_ads': ('src/pygaps/parsing/json.py', ".fillna(0).replace('des', 1)", ".fillna(0).replace('des', 0)"),
 'M07_material_overwrite_keeps_props': ('src/pygaps/parsing/sqlite.py', """            _delete_by_id(
                cursor,
                'material_properties',
                'mat_id',
                mat_id,
                'material properties',
                verbose,
            )""", """            pass"""),
 'M08_nested_commit': ('src/pygaps/parsing/sqlite.py', """        cursor.execute(build_insert(table="materials", to_insert=['name']), {'name': material.name})
        mat_id = cursor.lastrowid""", """        cursor.execute(build_insert(table="materials", to_insert=['name']), {'name': material.name})
        mat_id = cursor.lastrowid
        cursor.connection.commit()"""),
 'M10_sp_henry_second_point': ('src/pygaps/core/pointisotherm.py', "henry_const = loadings[0] / pressures[0]", "henry_const = loadings[1] / pressures[1]"),
 'M11_rmse_no_range': ('src/pygaps/modelling/base_model.py', "self.rmse = numpy.sqrt(numpy.sum((opt_res.fun)**2) / len(loading)) / model_range", "self.rmse = numpy.sqrt(numpy.sum((opt_res.fun)**2) / len(loading))"),
 'M12_iast_ternary_closure': ('src/pygaps/iast/pgiast.py', """            if i == n_components - 2:
                # automatically assert \\sum z_i = 1
                ads_mole_frac2 = 1.0 - numpy.sum(adsorbed_mole_fractions)""", """            if i == 0:
                # automatically assert \\sum z_i = 1
                ads_mole_frac2 = 1.0 - numpy.sum(adsorbed_mole_fractions)"""),
 'M13_bet_window_plus2': ('src/pygaps/characterisation/area_bet.py', "                maximum = index + 1\n", "                maximum = min(index + 2, len(pressure) - 1)\n"),
 'M14_dr_no_basis': ('src/pygaps/characterisation/dr_da_plots.py', """            "loading_basis": "molar",
            "loading_unit": "mol\"""", """            "loading_unit": "mol\""""),
 'M15_meso_cumulative_first': ('src/pygaps/characterisation/psd_meso.py', "        volume_adsorbed[-1]\n", "        volume_adsorbed[0]\n"),
 'M16_dft_limit_off_by_one': ('src/pygaps/characterisation/psd_kernel.py', """    pressure = pressure[minimum:maximum + 1]
    loading = loading[minimum:maximum + 1]""", """    pressure = pressure[minimum:maximum]
    loading = loading[minimum:maximum]"""),
 'M17_isosteric_sorted_T': ('src/pygaps/characterisation/isosteric_enth.py', "temperatures = [x.temperature for x in isotherms]", "temperatures = sorted(x.temperature for x in isotherms)"),
 'M18_alias_case_sensitive': ('src/pygaps/core/adsorbate.py', "        return other.lower() in self.alias", "        return other in self.alias"),
 'M19_csv_round4': ('src/pygaps/parsing/csv.py', "data.round(_PARSER_PRECISION).to_csv", "data.round(4).to_csv"),
 'M20_hk_slit_constant': ('src/pygaps/characterisation/psd_micro.py', "        sigma_p10_o9 = sigma**10 / 9  # pre-calculated constant", "        sigma_p10_o9 = sigma**10 / 10  # pre-calculated constant"),
 'M21_bjh_ratio_no_square': ('src/pygaps/characterisation/psd_meso.py', """    ratio_factors = (avg_pore_radii / (avg_k_radii + d_thickness))**2

    # Now we can iteratively calculate the pore size distribution
    pore_areas = numpy.zeros_like(avg_pore_radii)  # areas of pore populations [m2/mat]""", """    ratio_factors = (avg_pore_radii / (avg_k_radii + d_thickness))

    # Now we can iteratively calculate the pore size distribution
    pore_areas = numpy.zeros_like(avg_pore_radii)  # areas of pore populations [m2/mat]"""),
 'M22_fraction_percent_factor': ('src/pygaps/units/converter_mode.py', """                    if basis_from == 'percent':
                        factor = 0.01""", """                    if basis_from == 'percent':
                        factor = 0.1"""),
 'M23_whittaker_rt': ('src/pygaps/characterisation/enth_sorp_whittaker.py', "        h_st = d_lambda + h_vap + RT", "        h_st = d_lambda + h_vap"),
 'M24_temkin_loading': ('src/pygaps/modelling/toth.py', "        return (loading / (n_m * K)) / (1 - (loading / n_m)**t)**(1 / t)", "        return (loading / (n_m * K)) / (1 - (loading / n_m)**t)**(1 / t) if numpy.ndim(loading) == 0 else (loading / (n_m * K)) / (1 - (loading / n_m))**(1 / t)"),
}
if __name__=='__main__':
    name=sys.argv[1]; path,old,new=M[name]
    root=f'/dev/shm/mut/{name}'
    shutil.rmtree(root,ignore_errors=True)
    subprocess.run(['rsync','-a','--exclude','.git','/repo/',root+'/'],check=True)
    s=open(f'{root}/{path}').read()
    if s.count(old)<1: print(name,'PATTERN NOT FOUND'); sys.exit(0)
    open(f'{root}/{path}','w').write(s.replace(old,new,1))
    env=dict(os.environ,PYTHONPATH=f'{root}/src')
    r=subprocess.run(['/venv/bin/python','-m','pytest','-q','-p','no:cacheprovider','--timeout=900','--continue-on-collection-errors',f'--junitxml={root}/junit.xml','-q'],cwd=root,env=env,capture_output=True,text=True)
    out=subprocess.run(['/venv/bin/python','/dev/shm/probe/cmpjunit.py',f'{root}/junit.xml'],capture_output=True,text=True).stdout
    open(f'/dev/shm/mut/{name}.result','w').write(out)
    shutil.rmtree(root,ignore_errors=True)
    print(name, out.splitlines()[1] if len(out.splitlines())>1 else out)
