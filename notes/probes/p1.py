import warnings, logging
warnings.filterwarnings('ignore')
import pygaps, numpy as np, pandas as pd
logging.getLogger('pygaps').setLevel(logging.CRITICAL)
pygaps.logger.setLevel(logging.CRITICAL)
from pygaps.units.converter_mode import c_loading, c_pressure, c_material, c_temperature
def mk(**kw):
    d=dict(material='M', adsorbate='N2', temperature=77.344, pressure=[0.1,0.2,0.3,0.4,0.5,0.35,0.2], loading=[1,2,3,4,5,4.5,3.0])
    d.update(kw); return pygaps.PointIsotherm(**d)
def t(label, f):
    try: r=f(); print(label,'->',r)
    except Exception as e: print(label,'-> EXC',type(e).__name__, str(e)[:100].replace('\n',' '))
iso=mk()
print(iso.units)
iso.convert_pressure(); print('after convert_pressure():', iso.units['pressure_mode'], iso.units['pressure_unit'])
iso=mk(); iso.convert_loading(basis_to='molar'); print('after convert_loading(molar):', iso.loading_basis, iso.loading_unit)
iso=mk(); iso.convert_material(); print('after convert_material():', iso.material_basis, iso.material_unit)
iso=mk(); iso.convert_temperature('C'); print('temp unit', iso.temperature_unit, iso._temperature, iso.temperature)
t('reconstruct', lambda: pygaps.PointIsotherm(pressure=[1,2],loading=[1,2], **iso.to_dict()))
t('c_loading frac no material', lambda: c_loading(1,'molar','fraction','mmol',None,adsorbate=pygaps.Adsorbate.find('N2'),temp=77))
t('c_loading frac->frac unit', lambda: c_loading(1,'fraction','fraction',None,'mmol'))
t('c_pressure no ads', lambda: c_pressure(1,'absolute','relative','bar',None,temp=77))
# split
df=pd.DataFrame({'pressure':[5,4,3,2.],'loading':[4,3,2,1.]})
print('idx0', mk(pressure=None,loading=None,isotherm_data=df,pressure_key='pressure',loading_key='loading').data_raw['branch'].tolist())
df2=df.copy(); df2.index=[1,2,3,4]
print('idx1', mk(pressure=None,loading=None,isotherm_data=df2,pressure_key='pressure',loading_key='loading').data_raw['branch'].tolist())
df3=pd.DataFrame({'pressure':[1,2,3,2,1.],'loading':[1,2,3,2.5,1.5]}); df3.index=[3,4,5,6,7]
print('idx3', mk(pressure=None,loading=None,isotherm_data=df3,pressure_key='pressure',loading_key='loading').data_raw['branch'].tolist())
# ids
a=mk(pressure=[1,2,3],loading=[1,2,3]); b=mk(pressure=[1.,2.,3.],loading=[1.,2.,3.])
print('int vs float id equal:', a.iso_id==b.iso_id)
df=pd.DataFrame({'pressure':[1.,2,3],'loading':[1.,2,3]}); d2=df.copy(); d2.index=[5,6,7]
c=mk(pressure=None,loading=None,isotherm_data=df,pressure_key='pressure',loading_key='loading'); d=mk(pressure=None,loading=None,isotherm_data=d2,pressure_key='pressure',loading_key='loading')
print('index id equal:', c.iso_id==d.iso_id, 'list vs df', b.iso_id==c.iso_id)
# json roundtrip
iso=mk(); j=iso.to_json(); r=pygaps.isotherm_from_json(j); print('json rt eq', r==iso, r.data_raw.dtypes.to_dict(), iso.data_raw.dtypes.to_dict())
iso=mk(pressure=[1,2,3.],loading=[1,2,3.]); r=pygaps.isotherm_from_json(iso.to_json()); print('json rt ads-only eq', r==iso)
