import warnings, logging
warnings.filterwarnings('ignore')
import pygaps, numpy as np
import pygaps.characterisation as pgc
import pygaps.parsing as pgp
pygaps.logger.setLevel(logging.CRITICAL)
F='/repo/docs/examples/data/characterisation/MCM-41 N2 77.355.json'
def run(iso):
    out={}
    def s(k,f):
        try: out[k]=f()
        except Exception as e: out[k]='EXC:'+type(e).__name__+':'+str(e)[:60]
    s('bet',lambda: pgc.area_BET(iso)['area']); s('bet_c',lambda: pgc.area_BET(iso)['c_const'])
    s('lang',lambda: pgc.area_langmuir(iso)['area'])
    s('tplot',lambda: [r['area'] for r in pgc.t_plot(iso)['results']])
    s('tplot_v',lambda: [r['adsorbed_volume'] for r in pgc.t_plot(iso)['results']])
    s('dr',lambda: pgc.dr_plot(iso, p_limits=(0,0.1))['pore_volume'])
    s('da',lambda: pgc.da_plot(iso, p_limits=(0,0.1))['exponent'])
    for m in ['pygaps-DH','BJH','DH']:
        s('meso_'+m,lambda: pgc.psd_mesoporous(iso,psd_model=m)['pore_volumes'].sum())
    for m in ['HK','HK-CY','RY']:
        s('micro_'+m,lambda: pgc.psd_microporous(iso,psd_model=m)['pore_widths'][-3:].tolist())
    s('dft',lambda: float(pgc.psd_dft(iso)['pore_volume_cumulative'][-1]))
    s('henry',lambda: pgc.initial_henry_slope(iso))
    s('henry_v',lambda: pgc.initial_henry_virial(iso))
    return out
base_iso=pgp.isotherm_from_json(F); base_iso.convert_pressure('absolute','bar'); base=run(base_iso)
print({k:(v if isinstance(v,str) else np.round(np.asarray(v,dtype=float),6).tolist()) for k,v in base.items()})
def cmp(a,b,tol):
    if isinstance(a,str) or isinstance(b,str): return a==b
    a=np.asarray(a,dtype=float); b=np.asarray(b,dtype=float)
    return a.shape==b.shape and np.allclose(a,b,rtol=tol)
for conv in [dict(pressure_unit='kPa'),dict(pressure_unit='torr'), dict(pressure_mode='relative'), dict(pressure_mode='relative%'), dict(loading_basis='mass',loading_unit='g'), dict(loading_basis='volume_gas',loading_unit='cm3'), dict(loading_basis='volume_liquid',loading_unit='cm3'), dict(loading_unit='cm3(STP)'), dict(loading_unit='mol')]:
    i2=pgp.isotherm_from_json(F); i2.convert_pressure('absolute','bar'); i2.convert(**conv)
    r=run(i2)
    diffs={k:(r[k] if isinstance(r[k],str) else np.round(np.asarray(r[k],dtype=float),5).tolist()) for k in r if not cmp(r[k],base[k],1e-6)}
    print(conv, diffs)
