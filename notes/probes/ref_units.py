"""Throwaway probe: independent reference conversion model."""
import CoolProp.CoolProp as CPP
R=8.314462618
ATM=101325.0
P_UNITS={'Pa':1.0,'kPa':1e3,'MPa':1e6,'mbar':100.0,'bar':1e5,'atm':ATM,'mmHg':133.322387415,'torr':ATM/760}
VM_STP=R*273.15/ATM*1e6   # cm3/mol
MOLAR={'mmol':1e-3,'mol':1.0,'kmol':1e3,'cm3(STP)':1/VM_STP,'mL(STP)':1/VM_STP,'cc(STP)':1/VM_STP,'L(STP)':1e3/VM_STP}  # in mol
MASS={'amu':1.66053906660e-24,'mg':1e-3,'cg':1e-2,'dg':0.1,'g':1.0,'kg':1e3}   # in g
VOL={'cm3':1.0,'mL':1.0,'cc':1.0,'dm3':1e3,'L':1e3,'m3':1e6}  # cm3
def ads_consts(backend,T):
    M=CPP.PropsSI('M',backend)*1e3  # g/mol
    rl=CPP.PropsSI('Dmolar','T',T,'Q',0,backend)/1e6 # mol/cm3
    rg=CPP.PropsSI('Dmolar','T',T,'Q',1,backend)/1e6
    ps=CPP.PropsSI('P','T',T,'Q',0,backend)
    return dict(M=M,rl=rl,rg=rg,ps=ps)
def p_to_pa(v,mode,unit,c):
    if mode=='absolute': return v*P_UNITS[unit]
    if mode=='relative': return v*c['ps']
    if mode=='relative%': return v*c['ps']/100
def pa_to(v,mode,unit,c):
    if mode=='absolute': return v/P_UNITS[unit]
    if mode=='relative': return v/c['ps']
    if mode=='relative%': return v/c['ps']*100
def amount_to_mol(v,basis,unit,c):
    if basis=='molar': return v*MOLAR[unit]
    if basis=='mass': return v*MASS[unit]/c['M']
    if basis=='volume_gas': return v*VOL[unit]*c['rg']
    if basis=='volume_liquid': return v*VOL[unit]*c['rl']
def mol_to_amount(v,basis,unit,c):
    if basis=='molar': return v/MOLAR[unit]
    if basis=='mass': return v*c['M']/MASS[unit]
    if basis=='volume_gas': return v/c['rg']/VOL[unit]
    if basis=='volume_liquid': return v/c['rl']/VOL[unit]
def mat_to_g(basis,unit,m):  # grams of material in one (unit) of material
    if basis=='mass': return MASS[unit]
    if basis=='volume': return VOL[unit]*m['density']
    if basis=='molar': return MOLAR[unit]*m['molar_mass']
def loading_to_canon(v,lb,lu,mb,mu,c,m):
    """-> mol adsorbate per g material"""
    if lb in('fraction','percent'):
        f=v/100 if lb=='percent' else v
        b='volume_liquid' if mb=='volume' else mb
        return amount_to_mol(f,b,mu,c)/mat_to_g(mb,mu,m)
    return amount_to_mol(v,lb,lu,c)/mat_to_g(mb,mu,m)
def canon_to_loading(x,lb,lu,mb,mu,c,m):
    per=x*mat_to_g(mb,mu,m)
    if lb in('fraction','percent'):
        b='volume_liquid' if mb=='volume' else mb
        f=mol_to_amount(per,b,mu,c)
        return f*100 if lb=='percent' else f
    return mol_to_amount(per,lb,lu,c)
