import warnings, logging, itertools, json
warnings.filterwarnings('ignore')
import pygaps, numpy as np
pygaps.logger.setLevel(logging.CRITICAL)
from pygaps.core.adsorbate import Adsorbate
from pygaps.data import ADSORBATE_LIST
print(len(ADSORBATE_LIST))
# alias uniqueness
owner={}
coll=[]
for a in ADSORBATE_LIST:
    for al in set(a.alias):
        if al in owner and owner[al] is not a: coll.append((al, owner[al].name, a.name))
        owner.setdefault(al,a)
print('alias collisions', len(coll), coll[:10])
names=[a.name for a in ADSORBATE_LIST]; print('dup names', len(names)-len(set(names)))
bad=[]
for a in ADSORBATE_LIST:
    for al in a.alias+[a.name]:
        for v in (al, al.upper(), al.title()):
            try:
                f=Adsorbate.find(v)
                if f is not a: bad.append((v,a.name,f.name))
            except Exception as e: bad.append((v,a.name,type(e).__name__))
print('find mismatches', len(bad), bad[:10])
nb=[a for a in ADSORBATE_LIST if a.properties.get('backend_name')]
print('with backend', len(nb))
# json source vs db
import importlib.resources as ir
js=json.loads((ir.files('pygaps.data')/'adsorbates.json').read_text(encoding='utf8'))
print('json entries', len(js))
jn={d['name']:d for d in js}
diff=[]
for a in ADSORBATE_LIST:
    d=jn.get(a.name)
    if d is None: diff.append(('missing in json',a.name)); continue
    ja=set(x.lower() for x in d.get('alias',[]))|{a.name.lower()}
    if ja!=set(a.alias): diff.append((a.name, sorted(ja^set(a.alias))[:5]))
    for k,v in d.items():
        if k in('name','alias'): continue
        if a.properties.get(k)!=v: diff.append((a.name,k,v,a.properties.get(k)))
print('json/db diffs', len(diff), diff[:10])
# thermo consistency
import CoolProp as CP
bad=[]
for a in nb:
    try:
        tt=a.t_triple(); tc=a.t_critical(); 
    except Exception as e: bad.append((a.name,'tt',type(e).__name__)); continue
    prev=None
    for fr in (0.05,0.3,0.6,0.9):
        T=tt+fr*(tc-tt)
        try:
            ps=a.saturation_pressure(T); M=a.molar_mass()
            ld=a.liquid_density(T); lmd=a.liquid_molar_density(T); gd=a.gas_density(T); gmd=a.gas_molar_density(T); hv=a.enthalpy_vaporisation(T)
            if abs(ld-lmd*M)>1e-9*ld: bad.append((a.name,T,'liq',ld,lmd*M))
            if abs(gd-gmd*M)>1e-9*gd: bad.append((a.name,T,'gas'))
            if not hv>0: bad.append((a.name,T,'hv',hv))
            if prev is not None and not ps>prev: bad.append((a.name,T,'psat mono'))
            if not (a.p_triple()*0.999<=ps<=a.p_critical()*1.001): bad.append((a.name,T,'ps range',a.p_triple(),ps,a.p_critical()))
            prev=ps
            if abs(a.saturation_pressure(T,unit='bar')*1e5-ps)>1e-9*ps: bad.append((a.name,'unit'))
        except Exception as e: bad.append((a.name,T,type(e).__name__,str(e)[:80]))
print('thermo issues', len(bad)); 
for b in bad[:25]: print(b)
