import warnings, logging
warnings.filterwarnings('ignore')
import pygaps, numpy as np
import pygaps.parsing as pgp
from pygaps.modelling import get_isotherm_model
pygaps.logger.setLevel(logging.CRITICAL)
U=dict(pressure_mode='relative',pressure_unit=None,loading_basis='molar',loading_unit='mmol',material_basis='mass',material_unit='g',temperature_unit='K')
p=np.linspace(0.001,0.5,30)
g=get_isotherm_model('DR',parameters=dict(n_m=5.,e=5000.)); g.minus_rt=-8.314462618*77.355; n=g.loading(p)
m=pygaps.ModelIsotherm(pressure=p,loading=n,material='M',adsorbate='N2',temperature=77.355,model='DR',**U)
r=pgp.isotherm_from_json(m.to_json())
print('eq',r==m,'pred orig',m.loading_at(0.1),'pred rt',r.loading_at(0.1), r.model.minus_rt, m.model.minus_rt)
