"""Throwaway probe for C17: do reported HK widths solve the potential equation?"""
import warnings, logging, time, collections
warnings.filterwarnings('ignore')
import pygaps, numpy as np
from pygaps.characterisation import psd_micro
from pygaps.characterisation.models_hk import PROPERTIES_CARBON
pygaps.logger.setLevel(logging.CRITICAL)
cap={}
orig=psd_micro._solve_hk; origcy=psd_micro._solve_hk_cy
def w(pressure,hk_fun,bound,geo):
    cap['f']=hk_fun; cap['bound']=bound; cap['geo']=geo; cap['sf']=None
    r=orig(pressure,hk_fun,bound,geo); cap['raw']=list(r); return r
def wcy(pressure,loading,hk_fun,bound,geo):
    cap['f']=hk_fun; cap['bound']=bound; cap['geo']=geo
    cov=loading/(max(loading)*1.01); cap['sf']=1+1/cov*np.log(1-cov)
    r=origcy(pressure,loading,hk_fun,bound,geo); cap['raw']=list(r); return r
psd_micro._solve_hk=w; psd_micro._solve_hk_cy=wcy
ads=dict(molecular_diameter=0.3,polarizability=1.76e-3,magnetic_susceptibility=3.6e-8,surface_density=6.71e18,liquid_density=0.806,adsorbate_molar_mass=28.0134)
p=np.logspace(-7,-1,25); n=np.linspace(0.5,8,25)
for fn,name in [(psd_micro.psd_horvath_kawazoe,'HK'),(psd_micro.psd_horvath_kawazoe_ry,'RY')]:
    for geo in ['slit','cylinder','sphere']:
        for cy in [False,True]:
            t0=time.time()
            try:
                res=fn(p,n,77.355,geo,ads,PROPERTIES_CARBON,use_cy=cy)
            except Exception as e: print(name,geo,cy,'EXC',type(e).__name__,e); continue
            f=cap['f']; raw=np.array(cap['raw']); k=len(raw)
            sf=cap['sf'][:k] if cap['sf'] is not None else np.zeros(k)
            resid=np.array([abs(np.exp(f(L)-s)-pp) for L,pp,s in zip(raw,p[:k],sf)])/p[:k]
            # dense scan for global min
            grid=np.linspace(cap['bound']*1.0001,50,20000)
            vals=np.array([f(L) for L in grid[:4000]])  # up to ~10nm
            best=[]
            for pp,s in zip(p[:k],sf):
                e=np.abs(np.exp(vals-s)-pp)/pp; best.append(e.min())
            best=np.array(best)
            worse=np.sum(resid>np.maximum(10*best,1e-3))
            print(name,geo,'cy' if cy else '  ','n',k,'time',round(time.time()-t0,2),'max rel resid',f'{resid.max():.2e}','median',f'{np.median(resid):.2e}','scan-best max',f'{best.max():.2e}','points worse than scan:',int(worse),'mono',bool(np.all(np.diff(raw)>=-1e-9)))
