import warnings, logging, itertools, time
warnings.filterwarnings('ignore')
import pygaps, numpy as np
pygaps.logger.setLevel(logging.CRITICAL)
from pygaps.units.converter_mode import c_loading, c_pressure, c_material, _LOADING_MODE, _MATERIAL_MODE, _PRESSURE_MODE
import ref_units as ru
ads=pygaps.Adsorbate.find('N2'); T=77.355; c=ru.ads_consts('NITROGEN',T)
mat=pygaps.Material('mm',density=2.0,molar_mass=100.0); m=dict(density=2.0,molar_mass=100.0)
PR=[('absolute',u) for u in ru.P_UNITS]+[('relative',None),('relative%',None)]
LR=[(b,u) for b,us in _LOADING_MODE.items() if us for u in us]+[('fraction',None),('percent',None)]
MR=[(b,u) for b,us in _MATERIAL_MODE.items() for u in us]
print(len(PR),len(LR),len(MR))
worst={}
def rel(a,b): return abs(a-b)/max(abs(b),1e-300)
t0=time.time(); n=0
for (m1,u1),(m2,u2) in itertools.product(PR,PR):
    v=c_pressure(1.7,m1,m2,u1,u2,ads,T); r=ru.pa_to(ru.p_to_pa(1.7,m1,u1,c),m2,u2,c); n+=1
    e=rel(v,r); worst['p']=max(worst.get('p',(0,)),(e,(m1,u1,m2,u2)))
for (mb,mu) in MR:
    for (b1,u1),(b2,u2) in itertools.product(LR,LR):
        v=c_loading(1.7,b1,b2,u1,u2,ads,T,mb,mu); n+=1
        r=ru.canon_to_loading(ru.loading_to_canon(1.7,b1,u1,mb,mu,c,m),b2,u2,mb,mu,c,m)
        e=rel(v,r); k='l:'+('frac' if (b1 in('fraction','percent') or b2 in ('fraction','percent')) else 'phys')
        worst[k]=max(worst.get(k,(0,)),(e,(b1,u1,b2,u2,mb,mu)))
for (b1,u1),(b2,u2) in itertools.product(MR,MR):
    v=c_material(1.7,b1,b2,u1,u2,mat); n+=1
    r=1.7*ru.mat_to_g(b2,u2,m)/ru.mat_to_g(b1,u1,m)
    e=rel(v,r); worst['m']=max(worst.get('m',(0,)),(e,(b1,u1,b2,u2)))
print(n,'pairs',time.time()-t0,'s'); 
for k,v in worst.items(): print(k,v)
# histogram of rel errors for loading phys pairs
errs=[]
for (b1,u1),(b2,u2) in itertools.product(LR[:-2],LR[:-2]):
    v=c_loading(1.7,b1,b2,u1,u2,ads,T,'mass','g'); r=ru.canon_to_loading(ru.loading_to_canon(1.7,b1,u1,'mass','g',c,m),b2,u2,'mass','g',c,m); errs.append((rel(v,r),b1,u1,b2,u2))
errs.sort(reverse=True); print(errs[:5]); print(sum(e[0]>1e-9 for e in errs), len(errs))
print(sorted(set(round(e[0],9) for e in errs))[:12])
# triples consistency
t0=time.time(); w=(0,)
for a,b,d in itertools.product(LR,LR,LR):
    x=c_loading(c_loading(1.7,a[0],b[0],a[1],b[1],ads,T,'volume','cm3'),b[0],d[0],b[1],d[1],ads,T,'volume','cm3'); y=c_loading(1.7,a[0],d[0],a[1],d[1],ads,T,'volume','cm3')
    w=max(w,(rel(x,y),a,b,d))
print('triples',time.time()-t0,w)
