import warnings, logging, os, copy
warnings.filterwarnings('ignore')
import pygaps, numpy as np, pandas as pd
import pygaps.parsing as pgp
pygaps.logger.setLevel(logging.CRITICAL)
def mk(**kw):
    d=dict(material='M', adsorbate='N2', temperature=77.344, pressure=[0.1,0.2,0.3,0.4,0.5,0.35,0.2], loading=[1,2,3,4,5,4.5,3.0])
    d.update(kw); return pygaps.PointIsotherm(**d)
def t(label, f):
    try: r=f(); print(label,'->',r)
    except Exception as e: print(label,'-> EXC',type(e).__name__, str(e)[:150].replace('\n',' '))
# C03: loading_at fraction + material volume
mat=pygaps.Material('MM', density=2.0, molar_mass=100.0)
iso=mk(material=mat)
a=iso.loading_at(0.25, loading_basis='fraction', material_basis='volume', material_unit='cm3')
b=iso.loading(branch='ads', loading_basis='fraction', material_basis='volume', material_unit='cm3')
iso2=mk(material=mat); iso2.convert(material_basis='volume', material_unit='cm3', loading_basis='fraction')
print('loading_at frac/vol accessor', a, 'permanent', iso2.loading_at(0.25), 'loading() accessor', b[:2], 'perm', iso2.loading(branch='ads')[:2])
# pressure_at with foreign loading
t('pressure_at frac vol', lambda: (iso.pressure_at(iso2.loading(branch='ads')[1], loading_basis='fraction', loading_unit=None, material_basis='volume', material_unit='cm3')))
# C04 spreading guard
iso=mk()
t('fresh sp below', lambda: iso.spreading_pressure_at(0.05))
iso.loading_at(0.25)
t('after loading_at sp below', lambda: iso.spreading_pressure_at(0.05))
iso=mk()
t('fresh sp above', lambda: iso.spreading_pressure_at(0.6))
iso.loading_at(0.25)
t('after sp above', lambda: iso.spreading_pressure_at(0.6))
# whittaker mutates
iso=mk(pressure=[0.01,0.05,0.1,0.2,0.4,0.6,0.9], loading=[0.5,1.5,2.2,3,3.6,3.9,4.1])
before=iso.units.copy(); 
t('whittaker', lambda: list(pygaps.characterisation.enthalpy_sorption_whittaker(iso, model='Langmuir')['enthalpy_sorption'][:2]))
print('units before', before['pressure_unit'], 'after', iso.pressure_unit)
# csv model_from
m=pygaps.ModelIsotherm(material='M',adsorbate='N2',temperature=77, pressure=[0.1,0.2,0.3,0.4,0.5], loading=[1,1.8,2.4,2.9,3.2], model='Langmuir')
p=pygaps.PointIsotherm.from_modelisotherm(m)
t('csv model_from', lambda: pgp.isotherm_from_csv(p.to_csv())==p)
t('json model', lambda: pgp.isotherm_from_json(m.to_json())==m)
t('csv model', lambda: pgp.isotherm_from_csv(m.to_csv())==m)
t('aif model', lambda: pgp.isotherm_from_aif(m.to_aif())==m)
def fx():
    m.to_xl('/dev/shm/probe/m.xls'); return pgp.isotherm_from_xl('/dev/shm/probe/m.xls')==m
t('xl model', fx)
mi=pygaps.ModelIsotherm(material='M',adsorbate='N2',temperature=77, pressure=[1,2,3,4,5], loading=[1,1.8,2.4,2.9,3.2], model='Langmuir')
t('int pressure model iso_id', lambda: mi.iso_id)
b=pygaps.core.baseisotherm.BaseIsotherm(material='M',adsorbate='N2',temperature=77, foo=5, bar=-3, baz='hello', q=True, f=1.5)
for nm,fw,fr in [('json',pgp.isotherm_to_json,pgp.isotherm_from_json),('csv',pgp.isotherm_to_csv,pgp.isotherm_from_csv),('aif',pgp.isotherm_to_aif,pgp.isotherm_from_aif)]:
    def f():
        r=fr(fw(b)); return (r==b, {k:(v,r.to_dict().get(k)) for k,v in b.to_dict().items() if r.to_dict().get(k)!=v or type(r.to_dict().get(k))!=type(v)})
    t(nm+' base', f)
def fx():
    b.to_xl('/dev/shm/probe/b.xls'); r=pgp.isotherm_from_xl('/dev/shm/probe/b.xls'); return (r==b, {k:(v,r.to_dict().get(k)) for k,v in b.to_dict().items() if r.to_dict().get(k)!=v or type(r.to_dict().get(k))!=type(v)})
t('xl base', fx)
