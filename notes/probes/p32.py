import warnings, logging, collections
warnings.filterwarnings('ignore')
import pygaps, numpy as np
import pygaps.parsing as pgp
from pygaps.modelling import get_isotherm_model, _MODELS
from pygaps.utilities.exceptions import pgError
pygaps.logger.setLevel(logging.CRITICAL)
U=dict(pressure_mode='relative',pressure_unit=None,loading_basis='molar',loading_unit='mmol',material_basis='mass',material_unit='g',temperature_unit='K')
PAR={'Henry':dict(K=2.),'Langmuir':dict(K=5.,n_m=3.),'DSLangmuir':dict(n_m1=2.,K1=3.,n_m2=1.,K2=15.),'TSLangmuir':dict(n_m1=2.,K1=3.,n_m2=1.,K2=15.,n_m3=0.5,K3=0.4),'BET':dict(n_m=2.,C=50.,N=0.9),'GAB':dict(n_m=2.,C=50.,K=0.8),'Freundlich':dict(K=1.2,m=2.),'DA':dict(n_m=5.,e=5000.,m=1.7),'DR':dict(n_m=5.,e=5000.),'Quadratic':dict(n_m=2.,Ka=3.,Kb=5.),'TemkinApprox':dict(n_m=3.,K=4.,tht=0.5),'Virial':dict(K=5.,A=0.3,B=0.05,C=0.01),'Toth':dict(n_m=3.,K=5.,t=0.7),'JensenSeaton':dict(K=5.,a=2.,b=0.5,c=1.5),'FHVST':dict(n_m=4.,K=5.,a1v=0.5),'WVST':dict(n_m=4.,K=5.,L1v=1.2,Lv1=0.8)}
def rt(fmt,iso):
    if fmt=='json': return pgp.isotherm_from_json(iso.to_json())
    if fmt=='csv': return pgp.isotherm_from_csv(iso.to_csv())
    if fmt=='aif': return pgp.isotherm_from_aif(iso.to_aif())
    if fmt=='xls': iso.to_xl('/dev/shm/probe/mm.xls'); return pgp.isotherm_from_xl('/dev/shm/probe/mm.xls')
for fmt in ['json','csv','aif','xls']:
    out={}
    for name in _MODELS:
        m=get_isotherm_model(name,parameters=PAR[name],pressure_range=(0.01,0.8),loading_range=(0.05,2.5),rmse=0.0123)
        if name in('DR','DA'): m.minus_rt=-8.314462618*77.355
        iso=pygaps.ModelIsotherm(model=m,material='M',adsorbate='N2',temperature=77.355,**U)
        try:
            r=rt(fmt,iso)
            if m.calculates=='loading':
                a=iso.loading_at([0.05,0.3,0.6]); b=r.loading_at([0.05,0.3,0.6])
            else:
                a=np.array([float(np.asarray(iso.pressure_at(x)).ravel()[0]) for x in (0.2,1.0,2.0)]); b=np.array([float(np.asarray(r.pressure_at(x)).ravel()[0]) for x in (0.2,1.0,2.0)])
            pred=np.allclose(a,b,rtol=1e-9)
            md=r.model.to_dict(); mo=iso.model.to_dict()
            same={k:(mo[k],md[k]) for k in mo if not (mo[k]==md[k] or (isinstance(mo[k],(tuple,list)) and list(mo[k])==list(md[k])))}
            out[name]=('eq' if r==iso else 'NEQ')+(' pred-ok' if pred else ' PRED-DIFF')+(' '+str({k:(type(v[0]).__name__,type(v[1]).__name__) for k,v in same.items()}) if same else '')
        except pgError as e: out[name]='pgError:'+type(e).__name__
        except Exception as e: out[name]='EXC:'+type(e).__name__+':'+str(e)[:50]
    print(fmt,{k:v for k,v in out.items() if v!='eq pred-ok'})
