import warnings, logging, itertools, json
warnings.filterwarnings('ignore')
import pygaps, numpy as np
import pygaps.characterisation as pgc
pygaps.logger.setLevel(logging.CRITICAL)
from pygaps.characterisation.area_bet import area_BET_raw, simple_bet
from pygaps.characterisation.area_lang import area_langmuir_raw, simple_lang
from pygaps.characterisation.dr_da_plots import da_plot_raw
from pygaps.characterisation.t_plots import t_plot_raw
from scipy import constants
def t(label, f):
    try: r=f(); print(label,'->',r)
    except Exception as e: print(label,'-> EXC',type(e).__name__, str(e)[:150].replace('\n',' '))
p=np.linspace(0.01,0.6,40)
for nm,C in [(1e-3,100.),(1e-2,5.),(0.05,2000.)]:
    n=simple_bet(p,nm,C)
    r=area_BET_raw(p,n,0.162)
    print('BET', nm,C,'->', r[2],r[1],r[3], 1/(np.sqrt(C)+1), r[0], nm*0.162e-18*constants.Avogadro, 'win',r[6],r[7], p[r[6]],p[r[7]])
    roq=n*(1-p); pk=int(np.argmax(roq)); print('   roq peak idx',pk, 'min expected', np.searchsorted(p,0.1*p[r[7]]))
for nm,K in [(1e-3,5.),(1e-2,100.)]:
    n=simple_lang(p,nm,K); r=area_langmuir_raw(p,n,0.162); print('Lang',nm,K,'->',r[2],r[1],r[5],r[6],p[r[5]],p[r[6]],0.05*p[-1],0.9*p[-1])
t('BET 2pts', lambda: area_BET_raw(p,simple_bet(p,1e-3,100.),0.162,p_limits=(0.1,0.13)))
t('BET lim', lambda: area_BET_raw(p,simple_bet(p,1e-3,100.),0.162,p_limits=(0.105,0.305))[6:8])
print(p[6:9],p[19:21])
# DA
T=77.; M=28.; rho=0.8
for V,E,m in [(0.3,5.,2.),(0.5,10.,1.5),(0.1,8.,3.)]:
    pr=np.linspace(0.001,0.3,30)
    lnv=np.log(V) - ((constants.gas_constant*T/(E*1000))**m)*(-np.log(pr))**m
    n=np.exp(lnv)*rho/M
    r=da_plot_raw(pr,n,T,M,rho,exp=m); print('DA fixed',V,E,m,'->',r[0],r[1],r[2])
    r=da_plot_raw(pr,n,T,M,rho,exp=None); print('DA find ',V,E,m,'->',r[0],r[1],r[2])
# t-plot: loading = slope*t + intercept
from pygaps.characterisation.models_thickness import thickness_harkins_jura
pr=np.linspace(0.05,0.8,30); th=thickness_harkins_jura(pr)
for s,i in [(2.,1.),(10.,0.)]:
    n=s*th+i; res,tc=t_plot_raw(n,pr,thickness_harkins_jura,rho,M,t_limits=(0.3,0.8)); print('tplot',s,i,'->',[(x['slope'],x['intercept'],x['area'],s*M/rho,x['adsorbed_volume'],i*M/rho/1000,len(x['section'])) for x in res], np.sum((th>0.3)&(th<0.8)))
    res,tc=t_plot_raw(n,pr,thickness_harkins_jura,rho,M); print('tplot auto',len(res))
