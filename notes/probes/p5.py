import warnings, logging, itertools
warnings.filterwarnings('ignore')
import pygaps, numpy as np
from pygaps.modelling import get_isotherm_model, _MODELS
from scipy import integrate
pygaps.logger.setLevel(logging.CRITICAL)
grids={
 'Henry':{'K':[0.1,1,10]},
 'Langmuir':{'K':[0.1,1,10],'n_m':[0.5,5]},
 'DSLangmuir':{'n_m1':[0.5,5],'K1':[0.1,10],'n_m2':[0.5,5],'K2':[0.1,1,10]},
 'TSLangmuir':{'n_m1':[0.5,5],'K1':[0.1,10],'n_m2':[1.],'K2':[1.],'n_m3':[0.5],'K3':[0.1,10]},
 'BET':{'n_m':[0.5,5],'C':[0.1,0.5,2,100],'N':[0.01,0.3,0.9]},
 'GAB':{'n_m':[0.5,5],'C':[0.5,2,100],'K':[0.1,0.9]},
 'Freundlich':{'K':[0.1,10],'m':[0.5,1,3]},
 'DR':{'n_m':[0.5,5],'e':[2000,10000]},
 'DA':{'n_m':[0.5,5],'e':[2000,10000],'m':[1,1.5,3]},
 'Quadratic':{'n_m':[0.5,5],'Ka':[0.1,10],'Kb':[0.01,1,100]},
 'TemkinApprox':{'n_m':[0.5,5],'K':[0.1,10],'tht':[0,0.5,2]},
 'Toth':{'n_m':[0.5,5],'K':[0.1,10],'t':[0.3,1,2]},
 'JensenSeaton':{'K':[1,10],'a':[1,5],'b':[0.1,1],'c':[0.5,1,3]},
}
bad={}
for name,g in grids.items():
    keys=list(g)
    for vals in itertools.product(*[g[k] for k in keys]):
        m=get_isotherm_model(name, parameters=dict(zip(keys,vals)))
        if name in('DR','DA'): m.minus_rt=-8.314*77
        if name in ('BET',): pmax=0.9/ vals[keys.index('N')]
        elif name=='GAB': pmax=0.9/vals[keys.index('K')]
        elif name in('DR','DA'): pmax=0.95
        else: pmax=20
        ps=np.array([1e-3,1e-2,0.1,0.3,0.6,0.9])*pmax
        try:
            n=m.loading(ps); p2=np.asarray(m.pressure(n)).ravel()
            err=np.max(np.abs(p2-ps)/ps)
            if not err<1e-6: bad.setdefault(name+':inv',[]).append((vals,float(err)))
            if np.any(np.diff(n)<0): bad.setdefault(name+':mono',[]).append(vals)
        except Exception as e:
            bad.setdefault(name+':exc',[]).append((vals,type(e).__name__,str(e)[:60]))
        # spreading
        for p in ps[[2,4]]:
            try:
                sp=float(m.spreading_pressure(p)); ref=integrate.quad(lambda x: float(m.loading(x))/x, 0, p, limit=200)[0]
                if abs(sp-ref)>1e-6*max(1,abs(ref)): bad.setdefault(name+':sp',[]).append((vals,float(p),sp,ref))
            except Exception as e:
                bad.setdefault(name+':spexc',[]).append((vals,type(e).__name__,str(e)[:60]))
for k,v in bad.items(): print(k,len(v),v[:3])
# zero point & scalar
for name in grids:
    g=grids[name]; m=get_isotherm_model(name, parameters={k:v[-1] for k,v in g.items()})
    if name in('DR','DA'): m.minus_rt=-8.314*77
    try: print(name,'n(0)=',m.loading(0.0),'p(0)=',m.pressure(0.0), 'p(arr0)=', m.pressure(np.array([0.0,0.1])))
    except Exception as e: print(name,'zero EXC',type(e).__name__,e)
