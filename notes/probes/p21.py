import warnings, logging
warnings.filterwarnings('ignore')
import pygaps, numpy as np
import pygaps.characterisation as pgc
import CoolProp.CoolProp as CPP
from pygaps.modelling import get_isotherm_model
pygaps.logger.setLevel(logging.CRITICAL)
R=8.314462618
U=dict(pressure_mode='absolute',pressure_unit='Pa',loading_basis='molar',loading_unit='mmol',material_basis='mass',material_unit='g',temperature_unit='K')
for name,params in [('Langmuir',dict(K=1e-4,n_m=5.)),('Toth',dict(K=1e-4,n_m=5.,t=0.6))]:
    T=300.
    m=pygaps.ModelIsotherm(material='M',adsorbate='CO2',temperature=T,model=get_isotherm_model(name,parameters=params,pressure_range=(0,1e6),loading_range=(0.1,4.5)),**U)
    r=pgc.enthalpy_sorption_whittaker(m, loading=[0.5,1.,2.,4.])
    out=[]
    for n in r['loading']:
        p=float(m.pressure_at(n)); t=params.get('t',1.); b=1/params['K']**t
        psat=CPP.PropsSI('P','T',T,'Q',0,'CO2'); pt=CPP.PropsSI('PTRIPLE','CO2'); pp=max(p,pt)
        hv=CPP.PropsSI('Hmolar','P',pp,'Q',1,'CO2')-CPP.PropsSI('Hmolar','P',pp,'Q',0,'CO2')
        th=n/params['n_m']; lam=R*T*np.log(psat/b**(1/t)*(th**t/(1-th**t))**((t-1)/t))
        out.append((lam+hv+R*T)/1000)
    print(name, r['loading'], r['enthalpy_sorption'], out)
