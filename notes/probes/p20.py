import warnings, logging, itertools, collections
warnings.filterwarnings('ignore')
import pygaps, numpy as np
import pygaps.characterisation as pgc
from pygaps.characterisation import psd_meso, psd_kernel, models_kelvin
from pygaps.characterisation.models_thickness import thickness_zero, thickness_harkins_jura
from functools import partial
pygaps.logger.setLevel(logging.CRITICAL)
def t(label, f):
    try: r=f(); print(label,'->',r)
    except Exception as e: print(label,'-> EXC',type(e).__name__, str(e)[:200].replace('\n',' '))
# C16
p=np.linspace(0.1,0.95,30); v=0.1+0.5/(1+np.exp(-(p-0.6)*40))
for men in ['cylindrical','hemispherical','hemicylindrical']:
    k=partial(models_kelvin.kelvin_radius, meniscus_geometry=men, temperature=77.355, liquid_density=0.807, adsorbate_molar_mass=28.0134, adsorbate_surface_tension=8.9)
    for geo in ['slit','cylinder','sphere']:
        r=psd_meso.psd_pygapsdh(v,p,geo,thickness_zero,k)
        dv=np.diff(v)
        print(men,geo,'zero-thickness vols==dV', np.allclose(r['pore_volumes'],dv,rtol=1e-12), 'widths==2rk', np.allclose(r['pore_widths'],2*k(p)[1:],rtol=1e-12), 'dist*dw==vol', np.allclose(r['pore_distribution']*np.diff(2*k(p)), r['pore_volumes'],rtol=1e-10), 'incr', bool(np.all(np.diff(r['pore_widths'])>0)))
    for meth,fn in [('bjh',psd_meso.psd_bjh),('dh',psd_meso.psd_dollimore_heal)]:
        r=fn(v,p,'cylinder',thickness_zero,k); print(men,meth,'zero-thickness vols==dV', np.allclose(r['pore_volumes'],np.diff(v),rtol=1e-12), np.max(np.abs(r['pore_volumes']-np.diff(v))))
# widths ordering: pore_widths[:0:-1] -> corresponds to which pressures?
k=partial(models_kelvin.kelvin_radius, meniscus_geometry='hemispherical', temperature=77.355, liquid_density=0.807, adsorbate_molar_mass=28.0134, adsorbate_surface_tension=8.9)
r=psd_meso.psd_pygapsdh(v,p,'cylinder',thickness_harkins_jura,k)
print('HJ widths vs 2(rk+t) at p[1:]', np.allclose(r['pore_widths'], 2*(k(p)+thickness_harkins_jura(p))[1:]), len(r['pore_widths']), len(r['pore_volumes']))
# isotherm-level cumulative
iso=pygaps.PointIsotherm(pressure=list(p)+[0.5,0.3],loading=list(v)+[0.3,0.15],material='M',adsorbate='N2',temperature=77.355,pressure_mode='relative',loading_basis='volume_liquid',loading_unit='cm3')
for meth in ['pygaps-DH','BJH','DH']:
    r=pgc.psd_mesoporous(iso,psd_model=meth,branch='ads',thickness_model='zero thickness',p_limits=(0.15,0.9))
    mn,mx=r['limits']; print(meth,'limits',mn,mx,p[mn],p[mx],'cum end', r['pore_volume_cumulative'][-1], v[mx], 'sum', r['pore_volumes'].sum(), v[mx]-v[mn])
# C18 synthetic
K=psd_kernel._load_kernel(str(pygaps.data.KERNELS['DFT-N2-77K-carbon-slit'])); widths=list(K.keys()); print(len(widths), widths[:3], widths[-3:])
pr=np.logspace(-6,-0.05,60)
import time
for idx in [5,30,60]:
    w=np.zeros(len(widths)); w[idx]=1.0
    n=sum(wi*K[s](pr) for wi,s in zip(w,widths))
    t0=time.time(); pw,pdist,cum,fit=psd_kernel.psd_dft_kernel_fit(pr,n,str(pygaps.data.KERNELS['DFT-N2-77K-carbon-slit']),bspline_order=0)
    print(idx,'time',round(time.time()-t0,2),'min dist',pdist.min(),'resid',np.sqrt(np.mean((fit-n)**2))/n.max(), 'cum mono', bool(np.all(np.diff(cum)>=-1e-15)), 'cum end',cum[-1], 'recon', np.allclose(sum(x*K[s](pr) for x,s in zip(pdist*np.ediff1d(pw,to_begin=pw[0]),widths)),fit))
t('out of range', lambda: psd_kernel.psd_dft_kernel_fit(np.array([0.5,0.9,1.5]),np.array([1,2,3.]),str(pygaps.data.KERNELS['DFT-N2-77K-carbon-slit'])))
