import warnings, logging, collections
warnings.filterwarnings('ignore')
import pygaps, numpy as np
from pygaps.utilities.exceptions import pgError, CalculationError, ParameterError
pygaps.logger.setLevel(logging.CRITICAL)
def out(f):
    try: return ('val',f())
    except CalculationError as e: return ('CalculationError',)
    except ParameterError as e: return ('ParameterError',)
    except Exception as e: return ('other',type(e).__name__,str(e)[:60])
methods=[('molar_mass',()),('p_triple',()),('t_triple',()),('p_critical',()),('t_critical',()),('saturation_pressure',(100.,)),('surface_tension',(100.,)),('liquid_density',(100.,)),('liquid_molar_density',(100.,)),('gas_density',(100.,)),('gas_molar_density',(100.,)),('enthalpy_liquefaction',(100.,))]
props={'molar_mass':28.0,'p_triple':0.1,'t_triple':60.,'p_critical':34.,'t_critical':126.,'saturation_pressure':5e5,'surface_tension':8.,'liquid_density':0.8,'liquid_molar_density':0.03,'gas_density':0.004,'gas_molar_density':1e-4,'enthalpy_liquefaction':5.5}
for label,kw in [('nobackend-noprops',{}),('nobackend-props',props),('bogusbackend-props',dict(props,backend_name='NOTAFLUID')),('bogusbackend-noprops',dict(backend_name='NOTAFLUID'))]:
    a=pygaps.Adsorbate('zz',**kw)
    res=collections.OrderedDict()
    for m,args in methods:
        for calc in (True,False):
            res[(m,calc)]=out(lambda: getattr(a,m)(*args,calculate=calc))
    bad={k:v for k,v in res.items() if not ((v[0]=='val' and m_ok(k,v,kw)) if False else True)}
    print(label)
    for k,v in res.items(): print('   ',k,v if v[0]!='val' else ('val',v[1], 'expected', props.get(k[0])))
# supercritical temperature with real backend
n2=pygaps.Adsorbate.find('N2')
print('N2 psat at 200K', out(lambda: n2.saturation_pressure(200.)), 'liq dens', out(lambda: n2.liquid_density(200.)))
print('N2 psat at 200K unit bar', out(lambda: n2.saturation_pressure(200.,unit='bar')))
