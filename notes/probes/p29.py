import warnings, logging
warnings.filterwarnings('ignore')
import pygaps, numpy as np
from pygaps.modelling import get_isotherm_model
pygaps.logger.setLevel(logging.CRITICAL)
U=dict(pressure_mode='relative',pressure_unit=None,loading_basis='molar',loading_unit='mmol',material_basis='mass',material_unit='g')
p=np.linspace(0.001,0.5,30)
for name,params in [('DR',dict(n_m=5.,e=5000.)),('DA',dict(n_m=5.,e=5000.,m=1.7))]:
    g=get_isotherm_model(name,parameters=params); g.minus_rt=-8.314462618*77.355; n=g.loading(p)
    for T,tu in [(77.355,'K'),(77.355-273.15,'°C')]:
        try:
            m=pygaps.ModelIsotherm(pressure=p,loading=n,material='M',adsorbate='N2',temperature=T,temperature_unit=tu,model=name,**U)
            print(name,tu,m.model.params, 'maxrel', float(np.max(np.abs(m.model.loading(p)-n)/n)), 'minus_rt',m.model.minus_rt)
        except Exception as e: print(name,tu,'EXC',type(e).__name__,str(e)[:100])
