"""Throwaway probe for C04: history (in)dependence of read-only queries on a PointIsotherm."""
import warnings, logging, itertools, time, collections, hashlib
warnings.filterwarnings('ignore')
import pygaps, numpy as np, pandas as pd
import pygaps.characterisation as pgc, pygaps.parsing as pgp, pygaps.iast as pgi, pygaps.modelling as pgm
from pygaps.utilities.exceptions import pgError
pygaps.logger.setLevel(logging.CRITICAL)
U=dict(pressure_mode='absolute',pressure_unit='bar',loading_basis='molar',loading_unit='mmol',material_basis='mass',material_unit='g',temperature_unit='K')
P0=[0.05,0.1,0.2,0.35,0.5,0.7,0.9,0.6,0.3,0.1]; L0=[1.,1.8,2.6,3.2,3.6,3.9,4.1,3.95,3.5,2.4]
def fresh():
    ads=pygaps.Adsorbate.find('N2'); ads._state=None; ads._backend_mode=None
    from pygaps.characterisation import models_thickness, psd_kernel
    models_thickness._LOADED.clear()
    return pygaps.PointIsotherm(pressure=P0,loading=L0,material='Mx',adsorbate='N2',temperature=77.355,note='a',**U)
def snap(iso):
    return (iso.iso_id, tuple(sorted(iso.units.items(),key=str)), hashlib.md5(pd.util.hash_pandas_object(iso.data_raw).values.tobytes()).hexdigest(), tuple(sorted(iso.properties.items())), tuple(sorted((k,str(v)) for k,v in iso.adsorbate.properties.items())))
def outcome(f):
    try:
        r=f()
        if isinstance(r,dict): r=tuple((k, np.round(np.asarray(v,dtype=float),10).tobytes() if not isinstance(v,(str,list,tuple,dict)) else str(v)[:200]) for k,v in sorted(r.items()))
        elif isinstance(r,str): r=hashlib.md5(r.encode()).hexdigest()
        else: r=np.round(np.asarray(r,dtype=float),10).tobytes()
        return ('val',r)
    except pgError as e: return ('pg',type(e).__name__)
    except Exception as e: return ('other',type(e).__name__)
Q={}
for br in ('ads','des'):
    for kind in ('linear','cubic'):
        for fill in (None,0.0,'extrapolate'):
            Q[f'loading_at[{br},{kind},{fill}]@0.25']=lambda i,br=br,kind=kind,fill=fill: i.loading_at(0.25,branch=br,interpolation_type=kind,interp_fill=fill)
            Q[f'loading_at[{br},{kind},{fill}]@0.95']=lambda i,br=br,kind=kind,fill=fill: i.loading_at(0.95,branch=br,interpolation_type=kind,interp_fill=fill)
            Q[f'pressure_at[{br},{kind},{fill}]@3.0']=lambda i,br=br,kind=kind,fill=fill: i.pressure_at(3.0,branch=br,interpolation_type=kind,interp_fill=fill)
    for pq in (0.02,0.25,0.9,0.95):
        for fill in (None,4.1):
            Q[f'spreading[{br},{fill}]@{pq}']=lambda i,br=br,pq=pq,fill=fill: i.spreading_pressure_at(pq,branch=br,interp_fill=fill)
    Q[f'pressure({br},kPa)']=lambda i,br=br: i.pressure(branch=br,pressure_unit='kPa')
    Q[f'loading({br},g)']=lambda i,br=br: i.loading(branch=br,loading_basis='mass',loading_unit='g')
Q['loading_at kPa']=lambda i: i.loading_at(25.,pressure_unit='kPa')
Q['loading_at rel']=lambda i: i.loading_at(0.25,pressure_mode='relative')
Q['to_json']=lambda i: i.to_json()
Q['to_csv']=lambda i: i.to_csv()
Q['to_aif']=lambda i: i.to_aif()
Q['area_BET']=lambda i: {k:v for k,v in pgc.area_BET(i).items() if k!='p_limit_indices'}
Q['area_lang']=lambda i: {k:v for k,v in pgc.area_langmuir(i).items() if k!='p_limit_indices'}
Q['t_plot']=lambda i: pgc.t_plot(i)['t_curve']
Q['t_plot CB']=lambda i: pgc.t_plot(i,thickness_model='carbon black Kruk/Jaroniec/Gadkaree')['t_curve']
Q['dr_plot']=lambda i: {k:v for k,v in pgc.dr_plot(i).items() if k!='p_limits'}
Q['psd_meso']=lambda i: pgc.psd_mesoporous(i,branch='des')['pore_volumes']
Q['psd_micro']=lambda i: pgc.psd_microporous(i,p_limits=(0,0.6))['pore_widths']
Q['henry']=lambda i: pgc.initial_henry_slope(i)
Q['whittaker']=lambda i: pgc.enthalpy_sorption_whittaker(i,model='Langmuir')['enthalpy_sorption']
Q['model_iso L']=lambda i: list(pgm.model_iso(i,model='Langmuir').model.params.values())
Q['model_iso guess']=lambda i: list(pgm.model_iso(i,model=['Henry','Langmuir','Toth']).model.params.values())
Q['iast self']=lambda i: pgi.iast_point([i,i],[0.1,0.1])
Q['psat']=lambda i: i.adsorbate.saturation_pressure(77.355)
Q['gas_density@90']=lambda i: i.adsorbate.gas_density(90.)
Q['liquid_density']=lambda i: i.adsorbate.liquid_density(77.355)
names=list(Q); print(len(names),'queries')
base={}; basesnap=snap(fresh())
for n in names:
    i=fresh(); base[n]=outcome(lambda: Q[n](i)); 
    if snap(i)!=basesnap: print('IMPURE single:',n)
print(collections.Counter(v[0]+':'+(v[1] if v[0]!='val' else '') for v in base.values()))
t0=time.time(); bad=collections.defaultdict(list); impure=set()
for a in names:
    for b in names:
        i=fresh(); outcome(lambda: Q[a](i)); s1=snap(i)
        if s1!=basesnap: impure.add(a)
        o=outcome(lambda: Q[b](i))
        if o!=base[b]: bad[b].append((a, base[b][:2] if base[b][0]!='val' else 'val', o[:2] if o[0]!='val' else 'val'))
print('pairs',len(names)**2,'time',time.time()-t0)
print('impure after:',impure)
for b,v in bad.items(): print(b,len(v),v[:3])
