import warnings, logging, itertools, collections
warnings.filterwarnings('ignore')
import pygaps, numpy as np
from pygaps.modelling import get_isotherm_model
from pygaps.utilities.exceptions import CalculationError
pygaps.logger.setLevel(logging.CRITICAL)
grids={
 'TSLangmuir':{'n_m1':[0.5,5],'K1':[0.1,10],'n_m2':[1.,3.],'K2':[1.,30.],'n_m3':[0.5,2.],'K3':[0.1,10]},
 'TemkinApprox':{'n_m':[0.5,5],'K':[0.1,1,10],'tht':[0,0.5,1,2,3]},
 'JensenSeaton':{'K':[1,10,100],'a':[1,5],'b':[0.1,1],'c':[0.5,1,3]},
 'Virial':{'K':[0.5,5,50],'A':[-1,0,1],'B':[-0.1,0,0.1],'C':[0,0.01]},
 'FHVST':{'n_m':[2.,5.],'K':[0.5,5.],'a1v':[-0.5,0,0.5,2.]},
 'WVST':{'n_m':[2.,5.],'K':[0.5,5.],'L1v':[0.5,1,2.],'Lv1':[0.5,1,2.]},
}
res=collections.Counter(); ex={}
for name,g in grids.items():
    keys=list(g)
    for vals in itertools.product(*[g[k] for k in keys]):
        m=get_isotherm_model(name, parameters=dict(zip(keys,vals)))
        if m.calculates=='loading':
            xs=np.array([1e-3,1e-2,0.1,0.3,0.6,0.9])*20/ (vals[keys.index('K')] if 'K' in keys else vals[keys.index('K1')])
            f=m.loading; inv=m.pressure
        else:
            nm=vals[keys.index('n_m')] if 'n_m' in keys else 3.0
            xs=np.array([1e-3,1e-2,0.1,0.3,0.6,0.8])*nm
            f=m.pressure; inv=m.loading
        ys=f(xs)
        if not np.all(np.diff(ys)>0): res[(name,'nonmonotone-skip')]+=1; continue
        # scalar
        sc=[]
        for y in ys:
            try: sc.append(float(np.asarray(inv(y)).ravel()[0]))
            except CalculationError: sc.append(np.nan)
            except Exception as e: sc.append(np.inf); res[(name,'scalar-exc',type(e).__name__)]+=1
        sc=np.array(sc)
        try: ar=np.asarray(inv(ys),dtype=float).ravel()
        except CalculationError: ar=np.full(len(ys),np.nan)
        except Exception as e: ar=np.full(len(ys),np.inf); res[(name,'array-exc',type(e).__name__)]+=1; ex.setdefault((name,'array-exc',type(e).__name__),(vals,str(e)[:80]))
        for lab,got in (('scalar',sc),('array',ar)):
            ok=np.isnan(got)| (np.abs(got-xs)<=1e-4*xs)
            if not ok.all():
                res[(name,lab,'wrong-returned')]+=1; ex.setdefault((name,lab,'wrong-returned'),(vals,xs[~ok][:3],got[~ok][:3]))
            res[(name,lab,'failed-reported')]+=int(np.isnan(got).sum())
            res[(name,lab,'total')]+=len(got)
for k,v in sorted(res.items()): print(v,k, ex.get(k,''))
