"""Throwaway probe for C08: BFS of the sqlite store against a dict model (one db file)."""
import warnings, logging, os, sqlite3, collections, copy, time, shutil
warnings.filterwarnings('ignore')
import pygaps, numpy as np
from pygaps.parsing import sqlite as pgsql
from pygaps.utilities.sqlite_db_pragmas import PRAGMAS
from pygaps.utilities.sqlite_utilities import db_execute_general
from pygaps.utilities.exceptions import ParsingError
pygaps.logger.setLevel(logging.CRITICAL)
D='/dev/shm/probe/bfs.db'; TPL='/dev/shm/probe/tpl.db'
if os.path.exists(TPL): os.remove(TPL)
for pr in PRAGMAS: db_execute_general(pr,TPL)
for t in ('isotherm','pointisotherm','modelisotherm'): pgsql.isotherm_type_to_db({'type':t},db_path=TPL,verbose=False)
BASE_ADS=list(pygaps.ADSORBATE_LIST); BASE_MAT=list(pygaps.MATERIAL_LIST)
U=dict(pressure_mode='absolute',pressure_unit='bar',loading_basis='molar',loading_unit='mmol',material_basis='mass',material_unit='g',temperature_unit='K')
def universe():
    a1=pygaps.Adsorbate('gasA', formula='A2', molar_mass=10.5, alias=['ga','g-a']); a2=pygaps.Adsorbate('gasB')
    m1=pygaps.Material('matA', density=2.5, comment='hello'); m2=pygaps.Material('matB')
    pygaps.ADSORBATE_LIST[:]=BASE_ADS+[a1,a2]   # adsorbates known in memory (as a user who created them with store=True)
    pygaps.MATERIAL_LIST[:]=BASE_MAT
    i1=pygaps.core.baseisotherm.BaseIsotherm(material='matA',adsorbate='gasA',temperature=300.,note='n1',val=1.5,**U)
    i2=pygaps.PointIsotherm(material='matB',adsorbate='gasA',temperature=310.,pressure=[1,2,3,2.],loading=[1,2,3,2.5],enth=[5,4,3,2.],flag=True,**U)
    return dict(a1=a1,a2=a2,m1=m1,m2=m2,i1=i1,i2=i2)
# ops: (name, fn(u) )
OPS=[
 ('ads_up a1', lambda u: pgsql.adsorbate_to_db(u['a1'],db_path=D,verbose=False)),
 ('ads_up a2', lambda u: pgsql.adsorbate_to_db(u['a2'],db_path=D,verbose=False)),
 ('ads_ow a1', lambda u: pgsql.adsorbate_to_db(u['a1'],db_path=D,overwrite=True,verbose=False)),
 ('ads_del a1', lambda u: pgsql.adsorbate_delete_db(u['a1'],db_path=D,verbose=False)),
 ('ads_del a2name', lambda u: pgsql.adsorbate_delete_db('gasB',db_path=D,verbose=False)),
 ('mat_up m1', lambda u: pgsql.material_to_db(u['m1'],db_path=D,verbose=False)),
 ('mat_up m2', lambda u: pgsql.material_to_db(u['m2'],db_path=D,verbose=False)),
 ('mat_ow m1', lambda u: pgsql.material_to_db(u['m1'],db_path=D,overwrite=True,verbose=False)),
 ('mat_del m1', lambda u: pgsql.material_delete_db(u['m1'],db_path=D,verbose=False)),
 ('mat_del m2', lambda u: pgsql.material_delete_db(u['m2'],db_path=D,verbose=False)),
 ('iso_up i1', lambda u: pgsql.isotherm_to_db(u['i1'],db_path=D,verbose=False)),
 ('iso_up i1 noauto', lambda u: pgsql.isotherm_to_db(u['i1'],db_path=D,verbose=False,autoinsert_material=False,autoinsert_adsorbate=False)),
 ('iso_up i2', lambda u: pgsql.isotherm_to_db(u['i2'],db_path=D,verbose=False)),
 ('iso_del i1', lambda u: pgsql.isotherm_delete_db(u['i1'],db_path=D,verbose=False)),
 ('iso_del i2', lambda u: pgsql.isotherm_delete_db(u['i2'],db_path=D,verbose=False)),
 ('iso_del retrieved', lambda u: pgsql.isotherm_delete_db(pgsql.isotherms_from_db(db_path=D,verbose=False)[0],db_path=D,verbose=False)),
]
# dict model: state = (ads:set, mats:set, isos:set)
REF={'i1':('matA','gasA'),'i2':('matB','gasA')}
def model(st,op):
    ads,mats,isos=set(st[0]),set(st[1]),set(st[2]); ok=True
    k=op.split()
    if k[0]=='ads_up':
        n={'a1':'gasA','a2':'gasB'}[k[1]]
        if n in ads: ok=False
        else: ads.add(n)
    elif k[0]=='ads_ow':
        if 'gasA' not in ads: ok=False
    elif k[0]=='ads_del':
        n='gasA' if k[1]=='a1' else 'gasB'
        if n not in ads or any(REF[i][1]==n for i in isos): ok=False
        else: ads.discard(n)
    elif k[0]=='mat_up':
        n={'m1':'matA','m2':'matB'}[k[1]]
        if n in mats: ok=False
        else: mats.add(n)
    elif k[0]=='mat_ow':
        if 'matA' not in mats: ok=False
    elif k[0]=='mat_del':
        n={'m1':'matA','m2':'matB'}[k[1]]
        if n not in mats or any(REF[i][0]==n for i in isos): ok=False
        else: mats.discard(n)
    elif k[0]=='iso_up':
        i=k[1]; m,a=REF[i]
        if i in isos: ok=False
        elif len(k)>2:
            if m not in mats or a not in ads: ok=False
            else: isos.add(i)
        else: mats.add(m); ads.add(a); isos.add(i)
    elif k[0]=='iso_del':
        if k[1]=='retrieved':
            if not isos: ok=False
            else: isos.discard(sorted(isos)[0]) if len(isos)==1 else isos.discard(None)  # ambiguous when 2
        else:
            if k[1] not in isos: ok=False
            else: isos.discard(k[1])
    return (frozenset(ads),frozenset(mats),frozenset(isos)),ok
def raw():
    c=sqlite3.connect(D)
    r=(frozenset(x[0] for x in c.execute('select name from adsorbates')),frozenset(x[0] for x in c.execute('select name from materials')),c.execute('select id,material,adsorbate from isotherms').fetchall(),
       c.execute('select count(*) from isotherm_data where iso_id not in (select id from isotherms)').fetchone()[0], c.execute('select count(*) from isotherm_properties where iso_id not in (select id from isotherms)').fetchone()[0],
       c.execute('select count(*) from adsorbate_properties where ads_id not in (select id from adsorbates)').fetchone()[0], c.execute('select count(*) from material_properties where mat_id not in (select id from materials)').fetchone()[0])
    c.close(); return r
def replay(hist):
    shutil.copy(TPL,D); u=universe(); outs=[]
    for n in hist:
        f=dict(OPS)[n]
        try: f(u); outs.append('ok')
        except ParsingError: outs.append('refused')
        except Exception as e: outs.append('other:'+type(e).__name__)
    return u,outs
viol=collections.Counter(); ex={}
seen={}; frontier=collections.deque([()]); t0=time.time(); ntr=0
init=(frozenset(),frozenset(),frozenset())
mstate={():init}
while frontier:
    h=frontier.popleft()
    if len(h)>=4: continue
    for name,_ in OPS:
        if name=='iso_del retrieved' and len(mstate[h][2])!=1: continue
        hh=h+(name,); u,outs=replay(hh); ntr+=1
        ms,ok=model(mstate[h],name)
        r=raw(); u_ids={u['i1'].iso_id:'i1',u['i2'].iso_id:'i2'}
        impl=(r[0],r[1],frozenset(u_ids.get(x[0],x[0]) for x in r[2]))
        got=outs[-1]
        key=None
        if got.startswith('other'): key=(name,got)
        elif (got=='ok')!=ok: key=(name,'outcome impl='+got+' model='+('ok' if ok else 'refused'))
        elif impl!=ms: key=(name,'state mismatch')
        elif any(r[3:]): key=(name,'orphans')
        if key:
            viol[key]+=1; ex.setdefault(key,(hh,impl,ms)); continue   # do not expand violating states
        # retrieval check
        try:
            got_isos=pgsql.isotherms_from_db(db_path=D,verbose=False)
            for gi in got_isos:
                if gi.iso_id not in u_ids: viol[('retrieve','iso not equal to stored')]+=1; ex.setdefault(('retrieve','iso not equal to stored'),(hh,{k:v for k,v in gi.to_dict().items() if k not in U}))
        except Exception as e: viol[('retrieve','exc '+type(e).__name__)]+=1
        canon=(ms, frozenset(m.name for m in pygaps.MATERIAL_LIST if m.name in('matA','matB')))
        if canon not in seen:
            seen[canon]=hh; mstate[hh]=ms; frontier.append(hh)
print('states',len(seen),'transitions',ntr,'time',round(time.time()-t0,1))
for k,v in sorted(viol.items(),key=lambda x:-x[1]): print(v,k,'e.g.',ex.get(k))
