"""Finite generators of isotherms for the round-trip checks (C06, C07): classes x unit configurations x data shapes x metadata."""
import numpy
import pandas

UKEYS = ['pressure_mode', 'pressure_unit', 'loading_basis', 'loading_unit', 'material_basis', 'material_unit', 'temperature_unit']
DEFAULT = ('absolute', 'bar', 'molar', 'mmol', 'mass', 'g', 'K')

UNIT_CONFIGS = [
    DEFAULT,
    ('absolute', 'kPa', 'molar', 'cm3(STP)', 'mass', 'kg', 'K'),
    ('relative', None, 'molar', 'mmol', 'mass', 'g', 'K'),
    ('relative%', None, 'mass', 'mg', 'mass', 'g', 'K'),
    ('absolute', 'torr', 'fraction', None, 'mass', 'g', 'K'),
    ('absolute', 'bar', 'percent', None, 'volume', 'cm3', 'K'),
    ('absolute', 'Pa', 'volume_gas', 'cm3', 'volume', 'cm3', 'K'),
    ('absolute', 'bar', 'volume_liquid', 'cm3', 'molar', 'mmol', 'K'),
    ('absolute', 'atm', 'mass', 'g', 'molar', 'mol', '°C'),
    ('relative', None, 'volume_liquid', 'L', 'mass', 'kg', '°C'),
    ('absolute', 'mbar', 'molar', 'mol', 'volume', 'm3', 'K'),
    ('relative%', None, 'percent', None, 'molar', 'mol', 'K'),
]


def units(cfg):
    return dict(zip(UKEYS, cfg))


# data shapes: (n, branch pattern, extra columns)
def pressures(n, pattern):
    """Pressure sequence of n points for a branch pattern."""
    if pattern == 'ads-from-zero':          # the (0, 0) origin as first point
        return [0.0] + [0.1 + 0.15 * i for i in range(n - 1)]
    if pattern == 'hysteresis-to-zero':     # desorption back to exact vacuum; a zero in the middle of the table
        up = max(2, (n + 1) // 2)
        a = [0.0] + [0.1 + 0.2 * i for i in range(up - 1)]
        d = [a[-1] * (1 - (i + 1) / (n - up)) for i in range(n - up)]
        d[-1] = 0.0
        return a + d
    if pattern in ('all-ads', 'all-des', 'user-alternating'):
        base = [0.1 + 0.15 * i for i in range(n)]
        if pattern == 'all-des':
            base = base[::-1]
        return base
    if pattern in ('guessable', 'user-ads-on-hysteresis'):
        up = (n + 1) // 2 + (1 if n > 2 else 0)
        up = min(n, max(1, up))
        a = [0.1 + 0.2 * i for i in range(up)]
        d = [a[-1] - 0.15 * (i + 1) for i in range(n - up)]
        return a + d
    raise ValueError(pattern)


def branch_marks(n, pattern, p):
    if pattern in ('all-ads', 'ads-from-zero'):
        return [0] * n
    if pattern == 'hysteresis-to-zero':
        m = p.index(max(p))
        return [0] * (m + 1) + [1] * (n - m - 1)
    if pattern == 'all-des':
        return [1] * n
    if pattern == 'guessable':
        m = p.index(max(p))
        return [0] * (m + 1) + [1] * (n - m - 1)
    if pattern == 'user-alternating':
        return [i % 2 for i in range(n)]
    if pattern == 'user-ads-on-hysteresis':
        return [0] * n
    raise ValueError(pattern)


def guess_rule(p):
    """Reference of the documented guess rule (split at the first pressure maximum)."""
    n = len(p)
    m = p.index(max(p))
    if m == n - 1:
        return [0] * n
    if m == 0:
        return [1] * n
    return [0] * (m + 1) + [1] * (n - m - 1)


def point_frame(n, pattern, extras, scale=1.0):
    p = pressures(n, pattern)
    l = [round((0.5 + 0.37 * i) * scale + 1.2345678e-5 * (i + 1), 8) for i in range(n)]
    if pattern == 'ads-from-zero':
        l[0] = 0.0
    if pattern == 'hysteresis-to-zero':
        m = p.index(max(p))
        l = [round((0.37 * min(i, m) + 0.05 * max(0, i - m)) * scale + (1.2345678e-5 * (i + 1) if i else 0.0), 8) for i in range(n)]
    if pattern in ('guessable', 'user-ads-on-hysteresis'):
        m = p.index(max(p))
        l = [round((0.5 + 0.37 * min(i, m) + 0.05 * max(0, i - m)) * scale + 1.2345678e-5 * (i + 1), 8) for i in range(n)]
    d = {'pressure': p, 'loading': l, 'branch': branch_marks(n, pattern, p)}
    if extras in ('numeric', 'both'):
        d['enthalpy'] = [round(40.0 - 1.5 * i, 3) for i in range(n)]
    if extras in ('text', 'both'):
        d['remark'] = [f'pt{i}' for i in range(n)]
    if extras == 'branch-words':            # a per-point text label that happens to use the words of the branch marks
        d['step'] = ['ads' if b == 0 else 'des' for b in d['branch']]
        d['note'] = ['des', 'ads', 'Des', 'desorption', 'des.', 'x1', 'ads'][:n] + ['x'] * max(0, n - 7)
    if extras == 'early-name':              # a column whose name sorts BEFORE 'branch'
        d['alpha'] = [round(40.0 - 1.5 * i, 3) for i in range(n)]
        d['Zeta'] = [round(1.0 + 0.5 * i, 3) for i in range(n)]     # upper case sorts before lower case
    if extras == 'text-numeric':            # labels that spell numbers stay labels
        d['label'] = [f'{i + 1:03d}' for i in range(n)]
    if extras == 'text-numeric-gaps':
        d['label'] = [None if i % 3 == 1 else f'{i + 1:03d}' for i in range(n)]
    if extras == 'nan-partial':
        d['enthalpy'] = [float('nan') if i % 2 == 0 else round(40.0 - 1.5 * i, 3) for i in range(n)]
    if extras == 'bool-marks':              # the branch marks given as booleans (False = adsorption), as the constructor documents for `branch=[...]`
        d['branch'] = [bool(b) for b in d['branch']]
    if extras == 'infinities':
        # a ratio / selectivity column: +inf, -inf and NaN next to ordinary numbers
        d['selectivity'] = [[float('inf'), 12.5, float('nan'), 3.25, float('-inf'), 8.0, float('inf')][i % 7] for i in range(n)]
    if extras == 'nan-all':
        d['enthalpy'] = [round(40.0 - 1.5 * i, 3) for i in range(n)]
        d['unmeasured'] = [float('nan')] * n
    return pandas.DataFrame(d)


DATA_SHAPES = [(n, pat, ex) for n in (1, 2, 4, 7) for pat in ('all-ads', 'all-des', 'guessable', 'user-alternating', 'user-ads-on-hysteresis')
               for ex in ('none', 'numeric', 'text', 'both', 'nan-partial', 'nan-all')
               if not (n < 3 and pat in ('guessable', 'user-ads-on-hysteresis')) and not (n == 1 and pat == 'user-alternating')]
# structural additions (kept after the original product so that thinned enumerations stay what they were)
ZERO_SHAPES = [(n, pat, ex) for n in (2, 4, 7) for pat in ('ads-from-zero', 'hysteresis-to-zero') for ex in ('none', 'numeric')
               if not (n < 4 and pat == 'hysteresis-to-zero')]
EARLY_SHAPES = [(n, pat, 'early-name') for n in (4, 7) for pat in ('guessable', 'all-ads', 'all-des', 'user-alternating')]
WORDS_SHAPES = [(n, pat, 'branch-words') for n in (4, 7) for pat in ('guessable', 'all-ads', 'all-des', 'user-alternating')]
TEXTNUM_SHAPES = [(n, 'all-ads', ex) for n in (1, 4, 7) for ex in ('text-numeric', 'text-numeric-gaps')]
BOOL_SHAPES = [(n, pat, 'bool-marks') for n in (2, 4, 7) for pat in ('guessable', 'all-ads', 'all-des', 'user-alternating') if not (n < 3 and pat == 'guessable')]
INF_SHAPES = [(n, pat, 'infinities') for n in (1, 4, 7) for pat in ('all-ads', 'guessable') if not (n < 3 and pat == 'guessable')]


MATERIAL_WITH_PROPS = {'name': 'gen-mat-conv', 'density': 2.25, 'molar_mass': 101.5}


def mk_point_converted(cfg, shape, meta, scale=1.0):
    """The same content as mk_point(cfg, ...) would carry labels for, but REACHED by permanent conversion from the default units."""
    iso = mk_point(DEFAULT, shape, meta, scale, material=dict(MATERIAL_WITH_PROPS))
    iso.convert(**{k: v for k, v in units(cfg).items() if k != 'temperature_unit'})
    if cfg[6] != 'K':
        iso.convert_temperature(cfg[6])
    return iso


def mk_point(cfg, shape, meta, scale=1.0, material='gen-mat'):
    import pygaps
    n, pat, ex = shape
    df = point_frame(n, pat, ex, scale)
    return pygaps.PointIsotherm(isotherm_data=df, pressure_key='pressure', loading_key='loading', material=material, adsorbate='N2',
                                temperature=77.355 if cfg[6] == 'K' else -195.795, **units(cfg), **meta)


def mk_base(cfg, meta, material='gen-mat'):
    from pygaps.core.baseisotherm import BaseIsotherm
    return BaseIsotherm(material=material, adsorbate='N2', temperature=77.355 if cfg[6] == 'K' else -195.795, **units(cfg), **meta)


MODEL_PARAMS = {
    'Henry': {'K': 2.5},
    'Langmuir': {'K': 8.0, 'n_m': 4.5},
    'DSLangmuir': {'n_m1': 2.0, 'K1': 20.0, 'n_m2': 3.0, 'K2': 0.8},
    'TSLangmuir': {'n_m1': 1.0, 'K1': 30.0, 'n_m2': 2.0, 'K2': 3.0, 'n_m3': 1.5, 'K3': 0.3},
    'BET': {'n_m': 3.0, 'C': 80.0, 'N': 0.9},
    'GAB': {'n_m': 3.0, 'C': 40.0, 'K': 0.8},
    'Freundlich': {'K': 2.0, 'm': 2.5},
    'DA': {'n_m': 6.0, 'e': 4000.0, 'm': 2.2},
    'DR': {'n_m': 6.0, 'e': 4500.0},
    'Quadratic': {'n_m': 2.5, 'Ka': 3.0, 'Kb': 1.5},
    'TemkinApprox': {'n_m': 4.0, 'K': 5.0, 'tht': -0.5},
    'Virial': {'K': 10.0, 'A': 0.05, 'B': 0.01, 'C': 0.001},
    'Toth': {'n_m': 5.0, 'K': 12.0, 't': 0.7},
    'JensenSeaton': {'K': 10.0, 'a': 4.0, 'b': 0.1, 'c': 1.2},
    'FHVST': {'n_m': 5.0, 'K': 2.0, 'a1v': 0.5},
    'WVST': {'n_m': 5.0, 'K': 2.0, 'L1v': 1.2, 'Lv1': 0.8},
}


def mk_model_instance(name, params=None, prange=(0.05, 0.9), lrange=(0.25, 3.5), rmse=0.0123456789):
    from pygaps.modelling import get_isotherm_model
    m = get_isotherm_model(name)
    names = list(m.param_names)
    p = dict(params or MODEL_PARAMS[name])
    if set(p) != set(names):
        raise ValueError(f'parameter names of {name}: {names} vs {sorted(p)}')
    m.params = {k: p[k] for k in names}
    m.pressure_range = tuple(prange)
    m.loading_range = tuple(lrange)
    m.rmse = rmse
    return m


def mk_model(cfg, name, meta, params=None, material='gen-mat', fitted_dr=False, branch=None, **kw):
    import pygaps
    T = 77.355 if cfg[6] == 'K' else -195.795
    if branch is not None:
        meta = dict(meta, branch=branch)        # the branch the model describes (constructor argument)
    if fitted_dr and name in ('DR', 'DA'):
        # DR/DA carry a temperature-dependent constant that is set when the model is FITTED: generate data and fit
        p = numpy.linspace(0.02, 0.9, 25)
        mi = mk_model_instance(name, params)
        mi.minus_rt = -8.314462618 * 77.355
        n = mi.loading(p)
        return pygaps.ModelIsotherm(pressure=p, loading=n, model=name, material=material, adsorbate='N2', temperature=T, **units(cfg), **meta)
    return pygaps.ModelIsotherm(model=mk_model_instance(name, params, **kw), material=material, adsorbate='N2', temperature=T,
                                **units(cfg), **meta)


def predictions(iso, npts=10):
    """What the model isotherm predicts on a grid inside its range (loading or pressure)."""
    m = iso.model
    if m.calculates == 'loading':
        lo, hi = 0.05, 0.85
        grid = numpy.linspace(lo, hi, npts)
        return 'loading', grid, iso.loading_at(grid)
    grid = numpy.linspace(0.3, 3.0, npts)
    return 'pressure', grid, iso.pressure_at(grid)
