"""E3 — fault / crash-point enumerator for the SQLite write path (DESIGN §3.3).

`pygaps.parsing.sqlite` calls `sqlite3.connect`; we rebind its module attribute `sqlite3` to a proxy
namespace whose connections/cursors number every execute / executescript / commit / rollback / close
(one *point* each) and, at the chosen point, raise a chosen sqlite3 exception instead of or after the
real statement, or end the process with os._exit.
"""
import os
import sqlite3 as real_sqlite3


class Plan:
    """What to do at which point.  point=None: only record."""

    def __init__(self, point=None, action=None, exc=None):
        self.point = point
        self.action = action       # 'raise-instead' | 'raise-after' | 'exit-before' | 'exit-after'
        self.exc = exc             # exception class name
        self.n = 0
        self.log = []              # (kind, statement text)
        self.fired = False
        # engine-level points: every SQL statement the SQLite engine starts (statements INSIDE an executescript and the
        # implicit BEGIN / COMMIT included), numbered through the connection's trace callback
        self.sql_n = 0
        self.sql_log = []

    SQL_ACTIONS = ('exit-at-sql', 'interrupt-at-sql')

    def sql_step(self, conn, text):
        self.sql_n += 1
        self.sql_log.append(' '.join(str(text).split())[:90])
        if self.action in self.SQL_ACTIONS and self.sql_n == self.point and not self.fired:
            self.fired = True
            if self.action == 'exit-at-sql':
                os._exit(137)
            conn.interrupt()       # the statement now starting fails with OperationalError('interrupted')

    def step(self, kind, text, do):
        self.n += 1
        k = self.n
        self.log.append((kind, text if text is None else ' '.join(str(text).split())[:90]))
        if self.point is not None and k == self.point and not self.fired and self.action not in self.SQL_ACTIONS:
            self.fired = True
            if self.action == 'exit-before':
                os._exit(137)
            if self.action == 'raise-instead':
                raise getattr(real_sqlite3, self.exc)(f'injected {self.exc} instead of point {k} ({kind})')
            r = do()
            if self.action == 'exit-after':
                os._exit(137)
            if self.action == 'raise-after':
                raise getattr(real_sqlite3, self.exc)(f'injected {self.exc} after point {k} ({kind})')
            return r
        return do()


class CursorProxy:
    def __init__(self, cur, conn, plan):
        self._c, self._conn, self._plan = cur, conn, plan

    def execute(self, sql, params=()):
        self._plan.step('execute', sql, lambda: self._c.execute(sql, params))
        return self

    def executescript(self, sql):
        self._plan.step('executescript', sql, lambda: self._c.executescript(sql))
        return self

    def executemany(self, sql, seq):
        self._plan.step('executemany', sql, lambda: self._c.executemany(sql, seq))
        return self

    def fetchone(self):
        return self._c.fetchone()

    def fetchall(self):
        return self._c.fetchall()

    def fetchmany(self, *a):
        return self._c.fetchmany(*a)

    def __iter__(self):
        return iter(self._c)

    def close(self):
        return self._c.close()

    @property
    def lastrowid(self):
        return self._c.lastrowid

    @property
    def rowcount(self):
        return self._c.rowcount

    @property
    def description(self):
        return self._c.description

    @property
    def connection(self):
        # sqlite3.Cursor.connection: code that reaches the connection through the cursor stays inside the interposer
        return self._conn


class ConnProxy:
    def __init__(self, conn, plan):
        self.__dict__['_conn'] = conn
        self.__dict__['_plan'] = plan
        conn.set_trace_callback(lambda text: plan.sql_step(conn, text))

    def cursor(self):
        return CursorProxy(self._conn.cursor(), self, self._plan)

    def execute(self, sql, params=()):
        cur = self.cursor()
        return cur.execute(sql, params)

    def commit(self):
        return self._plan.step('commit', None, self._conn.commit)

    def rollback(self):
        return self._plan.step('rollback', None, self._conn.rollback)

    def close(self):
        return self._plan.step('close', None, self._conn.close)

    def __getattr__(self, name):
        return getattr(self._conn, name)

    def __setattr__(self, name, value):
        setattr(self._conn, name, value)

    def __enter__(self):
        return self

    def __exit__(self, et, ev, tb):
        if et is None:
            self.commit()
        else:
            self.rollback()
        return False


class ProxyModule:
    """Stands in for the `sqlite3` module object inside pygaps.parsing.sqlite."""

    def __init__(self, plan):
        self._plan = plan

    def connect(self, *a, **k):
        return ConnProxy(real_sqlite3.connect(*a, **k), self._plan)

    def __getattr__(self, name):
        return getattr(real_sqlite3, name)


class injected:
    """Context manager: run library code with the interposer installed."""

    def __init__(self, plan):
        self.plan = plan

    def __enter__(self):
        import pygaps.parsing.sqlite as mod
        self.mod = mod
        self.old = mod.sqlite3
        mod.sqlite3 = ProxyModule(self.plan)
        return self.plan

    def __exit__(self, *a):
        self.mod.sqlite3 = self.old
        return False


def run_in_child(fn):
    """fork; the child runs fn() (expected to die via os._exit inside the plan); returns the child's exit code."""
    pid = os.fork()
    if pid == 0:
        code = 0
        try:
            fn()
        except BaseException:
            code = 3
        finally:
            os._exit(code)
    _, status = os.waitpid(pid, 0)
    if os.WIFEXITED(status):
        return os.WEXITSTATUS(status)
    return -os.WTERMSIG(status)


def in_fork(fn):
    """Run fn() in a forked child and return its (picklable) result.

    Every execution of an exploration starts from the SAME process state (the state at the fork): whatever the code under
    test remembers between calls (module-level memos, registries, leaked connections) cannot flow from one execution into
    the next, so the statement numbering learnt in the dry run stays valid and any divergence is a property of one execution.
    An exception in the child is re-raised here as RuntimeError with the child's traceback.
    """
    import pickle
    import traceback
    r, w = os.pipe()
    pid = os.fork()
    if pid == 0:
        os.close(r)
        try:
            try:
                payload = pickle.dumps(('ok', fn()))
            except BaseException as e:      # noqa
                payload = pickle.dumps(('exc', f'{type(e).__name__}: {e}', traceback.format_exc()))
            with os.fdopen(w, 'wb') as f:
                f.write(payload)
        finally:
            os._exit(0)
    os.close(w)
    with os.fdopen(r, 'rb') as f:
        data = f.read()
    os.waitpid(pid, 0)
    if not data:
        raise RuntimeError('forked execution died without a result')
    res = pickle.loads(data)
    if res[0] == 'exc':
        err = RuntimeError(res[1] + '\n' + res[2])
        err.child_error = res[1]
        raise err
    return res[1]
