"""Dictionary reference model of the SQLite store, universe of items, raw-table reader (C08, C09).

The model is "boring": one dict per table keyed by name / type / iso_id, with the foreign-key
and uniqueness rules of the schema, and auto-insert keyed on the *model's own* contents
(i.e. on the target file), never on in-memory registries.
"""
import copy
import json
import os
import sqlite3

ISO_TYPES = ('isotherm', 'pointisotherm', 'modelisotherm')
UNITS = dict(pressure_mode='absolute', pressure_unit='bar', loading_basis='molar', loading_unit='mmol',
             material_basis='mass', material_unit='g', temperature_unit='K')


# ---------------------------------------------------------------------------
# files

def create_template(path):
    """Schema-only database + the three isotherm types (through the library's own creator statements)."""
    from pygaps.parsing import sqlite as pgsql
    from pygaps.utilities.sqlite_db_pragmas import PRAGMAS
    from pygaps.utilities.sqlite_utilities import db_execute_general
    if os.path.exists(path):
        os.remove(path)
    for pr in PRAGMAS:
        db_execute_general(pr, path)
    for t in ISO_TYPES:
        pgsql.isotherm_type_to_db({'type': t}, db_path=path, verbose=False)


def read_raw(path):
    """Logical content of a database file through an independent connection (surrogate ids resolved)."""
    c = sqlite3.connect(path)
    try:
        cur = c.cursor()
        out = {}
        ads = dict(cur.execute('select id, name from adsorbates').fetchall())
        mats = dict(cur.execute('select id, name from materials').fetchall())
        out['ads'] = {n: [] for n in ads.values()}
        out['orphans'] = []
        for aid, t, v in cur.execute('select ads_id, type, value from adsorbate_properties order by id').fetchall():
            if aid in ads:
                out['ads'][ads[aid]].append((t, v))
            else:
                out['orphans'].append(('adsorbate_properties', aid, t, v))
        out['mats'] = {n: [] for n in mats.values()}
        for mid, t, v in cur.execute('select mat_id, type, value from material_properties order by id').fetchall():
            if mid in mats:
                out['mats'][mats[mid]].append((t, v))
            else:
                out['orphans'].append(('material_properties', mid, t, v))
        out['atypes'] = {t: (u, d) for t, u, d in cur.execute('select type, unit, description from adsorbate_properties_type')}
        out['mtypes'] = {t: (u, d) for t, u, d in cur.execute('select type, unit, description from material_properties_type')}
        has_ipt = cur.execute("select count(*) from sqlite_master where name='isotherm_properties_type'").fetchone()[0]
        out['iptypes'] = ({t: (u, d) for t, u, d in cur.execute('select type, unit, description from isotherm_properties_type')}
                          if has_ipt else {})
        out['itypes'] = sorted(t for (t,) in cur.execute('select type from isotherm_type'))
        isos = {}
        for i, ty, m, a, T in cur.execute('select id, iso_type, material, adsorbate, temperature from isotherms'):
            isos[i] = {'iso_type': ty, 'material': m, 'adsorbate': a, 'temperature': T, 'props': [], 'data': []}
        for i, t, v in cur.execute('select iso_id, type, value from isotherm_properties order by id').fetchall():
            if i in isos:
                isos[i]['props'].append((t, v))
            else:
                out['orphans'].append(('isotherm_properties', i, t, v))
        for i, t, dt, d in cur.execute('select iso_id, type, dtype, data from isotherm_data order by id').fetchall():
            if i in isos:
                isos[i]['data'].append((t, dt, d))
            else:
                out['orphans'].append(('isotherm_data', i, t))
        out['isos'] = isos
        # dangling references
        out['dangling'] = []
        for i, r in isos.items():
            if r['material'] not in out['mats']:
                out['dangling'].append(('isotherm.material', i, r['material']))
            if r['adsorbate'] not in out['ads']:
                out['dangling'].append(('isotherm.adsorbate', i, r['adsorbate']))
            if r['iso_type'] not in out['itypes']:
                out['dangling'].append(('isotherm.iso_type', i, r['iso_type']))
        for n, rows in out['ads'].items():
            for t, v in rows:
                if t not in out['atypes']:
                    out['dangling'].append(('adsorbate_property.type', n, t))
        for n, rows in out['mats'].items():
            for t, v in rows:
                if t not in out['mtypes']:
                    out['dangling'].append(('material_property.type', n, t))
        return out
    finally:
        c.close()


# ---------------------------------------------------------------------------
# expected rows for universe items

def prop_rows(d):
    """Property dictionary -> the (type, value) rows the store should hold (lists become several rows)."""
    rows = []
    for k, v in d.items():
        if isinstance(v, (list, tuple, set)):
            rows += [(k, x) for x in v]
        else:
            rows.append((k, v))
    return rows


def ads_rows(ads):
    d = ads.to_dict()
    d.pop('name')
    return prop_rows(d)


def mat_rows(mat):
    d = mat.to_dict()
    d.pop('name')
    return prop_rows(d)


def iso_record(iso):
    """What the store should hold for an isotherm (independent of the library's upload code)."""
    import pygaps
    d = iso.to_dict()
    m = d.pop('material')
    rec = {
        'iso_type': ('pointisotherm' if isinstance(iso, pygaps.PointIsotherm)
                     else 'modelisotherm' if isinstance(iso, pygaps.ModelIsotherm) else 'isotherm'),
        'material': m['name'] if isinstance(m, dict) else m,
        'adsorbate': d.pop('adsorbate'),
        'temperature': d.pop('temperature'),
    }
    rec['props'] = [(k, ('TRUE' if v else 'FALSE') if isinstance(v, bool) else v) for k, v in d.items()]
    data = []
    if isinstance(iso, pygaps.PointIsotherm):
        for col in iso.data_raw.columns:
            if col == 'branch':
                continue
            data.append((col, iso.data_raw[col].tolist()))
    elif isinstance(iso, pygaps.ModelIsotherm):
        data.append(('model', iso.model.to_dict()))
    rec['data'] = data
    return rec


def rows_equal(got, exp):
    """Multiset equality of (type, value) rows with Python value equality (5 == 5.0)."""
    got = list(got)
    for e in exp:
        for i, g in enumerate(got):
            if g[0] == e[0] and _veq(g[1], e[1]):
                del got[i]
                break
        else:
            return False
    return not got


def _veq(a, b):
    if isinstance(a, float) and isinstance(b, float):
        return a == b or abs(a - b) <= 1e-12 * max(abs(a), abs(b))
    try:
        return a == b
    except Exception:
        return False


def data_equal(got_rows, exp):
    """isotherm_data rows (type, dtype, json) against expected (type, python value)."""
    got = {t: json.loads(d) for t, dt, d in got_rows}
    if len(got) != len(got_rows) or set(got) != {t for t, _ in exp}:
        return False
    for t, v in exp:
        if isinstance(v, dict):
            if _norm(got[t]) != _norm(v):
                return False
        else:
            g = got[t]
            if len(g) != len(v) or not all(_veq(x, y) for x, y in zip(g, v)):
                return False
    return True


def _norm(x):
    return json.loads(json.dumps(x, sort_keys=True))


# ---------------------------------------------------------------------------
# the dict model

class Store:
    """One database file as dictionaries.  Items are referred to by universe keys."""

    def __init__(self):
        self.ads = {}      # name -> rows
        self.mats = {}
        self.isos = {}     # iso_id -> record
        self.atypes = {}
        self.mtypes = {}
        self.iptypes = {}

    def copy(self):
        return copy.deepcopy(self)

    def canon(self):
        def rows(r):
            return tuple(sorted((t, repr(v)) for t, v in r))
        return (
            tuple(sorted((n, rows(r)) for n, r in self.ads.items())),
            tuple(sorted((n, rows(r)) for n, r in self.mats.items())),
            tuple(sorted(self.isos)),
            tuple(sorted((t, v) for t, v in self.atypes.items())),
            tuple(sorted((t, v) for t, v in self.mtypes.items())),
            tuple(sorted((t, v) for t, v in self.iptypes.items())),
        )

    # each method returns 'ok' | 'refused' | 'either' and mutates self only when 'ok'
    def _item_to(self, table, types, name, rows, overwrite, autoinsert):
        if overwrite:
            if name not in table:
                return 'refused'
        else:
            if name in table:
                return 'refused'
        missing = [t for t, _ in rows if t not in types]
        if missing and not autoinsert:
            return 'refused'
        for t in missing:
            types.setdefault(t, (None, None))
        table[name] = list(rows)
        return 'ok'

    def adsorbate_to(self, name, rows, overwrite=False, autoinsert=True):
        return self._item_to(self.ads, self.atypes, name, rows, overwrite, autoinsert)

    def material_to(self, name, rows, overwrite=False, autoinsert=True):
        return self._item_to(self.mats, self.mtypes, name, rows, overwrite, autoinsert)

    def adsorbate_delete(self, name):
        if name not in self.ads or any(r['adsorbate'] == name for r in self.isos.values()):
            return 'refused'
        del self.ads[name]
        return 'ok'

    def material_delete(self, name):
        if name not in self.mats or any(r['material'] == name for r in self.isos.values()):
            return 'refused'
        del self.mats[name]
        return 'ok'

    def type_to(self, family, tdict, overwrite=False):
        types = getattr(self, family)
        t = tdict.get('type')
        if overwrite:
            if t not in types:
                return 'either'   # UPDATE of an absent row: the library silently does nothing; a refusal is equally acceptable
            types[t] = (tdict.get('unit'), tdict.get('description'))
            return 'ok'
        if t in types or t is None:
            return 'refused'
        types[t] = (tdict.get('unit'), tdict.get('description'))
        return 'ok'

    def type_delete(self, family, t):
        types = getattr(self, family)
        if t not in types:
            return 'refused'
        owners = {'atypes': self.ads, 'mtypes': self.mats}.get(family)
        if owners is not None and any(t == rt for rows in owners.values() for rt, _ in rows):
            return 'refused'
        del types[t]
        return 'ok'

    def isotherm_to(self, iso_id, rec, mat_rows_, ads_rows_, auto_mat=True, auto_ads=True):
        if iso_id in self.isos:
            return 'refused'
        new = self.copy()
        if rec['material'] not in new.mats:
            if not auto_mat:
                return 'refused'
            new.material_to(rec['material'], mat_rows_)
        if rec['adsorbate'] not in new.ads:
            if not auto_ads:
                return 'refused'
            new.adsorbate_to(rec['adsorbate'], ads_rows_)
        new.isos[iso_id] = rec
        self.__dict__.update(new.__dict__)
        return 'ok'

    def isotherm_delete(self, iso_id):
        if iso_id not in self.isos:
            return 'refused'
        del self.isos[iso_id]
        return 'ok'

    # comparison with a file
    def diff(self, raw):
        """List of human-readable differences between the model and the raw tables ([] = equal)."""
        out = []
        for what, mine, theirs in (('adsorbates', self.ads, raw['ads']), ('materials', self.mats, raw['mats'])):
            if set(mine) != set(theirs):
                out.append(f'{what}: file has {sorted(theirs)}, model has {sorted(mine)}')
                continue
            for n in mine:
                if not rows_equal(theirs[n], mine[n]):
                    out.append(f'{what}[{n}] properties: file {theirs[n]}, model {mine[n]}')
        for fam in ('atypes', 'mtypes', 'iptypes'):
            if getattr(self, fam) != raw[fam]:
                out.append(f'{fam}: file {raw[fam]}, model {getattr(self, fam)}')
        if set(self.isos) != set(raw['isos']):
            out.append(f"isotherms: file has {sorted(raw['isos'])}, model has {sorted(self.isos)}")
        else:
            for i, rec in self.isos.items():
                g = raw['isos'][i]
                for k in ('iso_type', 'material', 'adsorbate'):
                    if g[k] != rec[k]:
                        out.append(f'isotherm[{i}].{k}: file {g[k]!r}, model {rec[k]!r}')
                if not _veq(float(g['temperature']), float(rec['temperature'])):
                    out.append(f'isotherm[{i}].temperature: file {g["temperature"]!r}, model {rec["temperature"]!r}')
                if not rows_equal(g['props'], rec['props']):
                    out.append(f'isotherm[{i}] properties: file {g["props"]}, model {rec["props"]}')
                if not data_equal(g['data'], rec['data']):
                    out.append(f'isotherm[{i}] data rows differ: file {[(t, dt) for t, dt, _ in g["data"]]}')
        if raw['orphans']:
            out.append(f"orphan rows: {raw['orphans']}")
        if raw['dangling']:
            out.append(f"dangling references: {raw['dangling']}")
        if raw['itypes'] != sorted(ISO_TYPES):
            out.append(f"isotherm types changed: {raw['itypes']}")
        return out
