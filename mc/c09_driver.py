"""Child process for the syscall-level crash enumeration of C09: runs ONE store operation between two stderr markers."""
import logging
import os
import sys

sys.path.insert(0, os.path.dirname(os.path.dirname(os.path.abspath(__file__))))
import pygaps  # noqa: E402

pygaps.logger.setLevel(logging.CRITICAL)
from mc.checks import c08, c09  # noqa: E402

path, prefix = sys.argv[1], sys.argv[2]
label, fn, mfn = c09.find_op(prefix)
c08.base_registries()
u = c08.universe('registered')
os.write(2, b'C09-BEGIN\n')
fn(u, path)
os.write(2, b'C09-END\n')
