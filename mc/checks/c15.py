"""C15 — characterisation results do not depend on the units the isotherm is stored in (DESIGN §4 C15; engine E2).

Every characterisation entry point x every pressure representation (10) x every non-fractional loading representation (25) x
temperature unit x measured and synthetic isotherms x loading scale factors, plus a JSON round trip before the analysis.
Oracle: differential, no expected values: analysis(convert(iso)) == analysis(iso); Henry constants change by exactly the unit factors;
extensive results scale with the loading, intensive ones do not.
"""
import os

import numpy

from mc import core
from mc import modlat as ml
from mc import ref_units as ru

LEVEL = 'exploration'

DATA = '/repo/docs/examples/data'
TOL_LIN = 1e-7      # linear-algebra results (regressions, closed forms)
TOL_ROOT = 1e-6     # bracketed root refinements (HK pore sizes); distributions are finite differences of these
TOL_OPT = 5e-3      # results of SLSQP / bounded Brent searches (DFT, HK, DA exponent search, Henry fits)

P_REPS = ru.PRESSURE_REPS
L_REPS = [r for r in ru.LOADING_REPS if r[0] not in ('fraction', 'percent')]
Q_L = [('molar', 'mmol'), ('molar', 'mol'), ('molar', 'cm3(STP)'), ('mass', 'g'), ('mass', 'mg'), ('volume_gas', 'cm3'), ('volume_liquid', 'cm3'), ('volume_liquid', 'L')]
SUPERFLUOUS_UNIT = [('relative', 'kPa'), ('relative', 'Pa'), ('relative%', 'torr'), ('relative', 'bar')]
Q_P = [('absolute', 'bar'), ('absolute', 'Pa'), ('absolute', 'torr'), ('relative', None), ('relative%', None)]


def load_measured(name):
    import pygaps.parsing as pp
    return pp.isotherm_from_json(os.path.join(DATA, 'characterisation', name))


def synthetic(kind, scale):
    import pygaps
    p = numpy.concatenate([numpy.geomspace(1e-6, 0.05, 18), numpy.linspace(0.07, 0.97, 30)])
    if kind == 'reference':
        # a wider grid than any sample, so that a 1-ulp difference of a converted pressure never leaves its range
        p = numpy.concatenate([numpy.geomspace(2e-7, 0.05, 22), numpy.linspace(0.06, 0.992, 34)])
    if kind == 'type IV':
        n = 3.0 * 80 * p / ((1 - 0.8 * p) * (1 + 79 * p)) + 6.0 / (1 + numpy.exp(-(p - 0.6) * 40))
    else:
        n = 6.0 * 4000 * p / (1 + 4000 * p) + 1.5 * p
    n = n * scale
    pd = p[::-1][1:12]
    nd = numpy.interp(pd, p, n) * 1.03
    import pandas
    df = pandas.DataFrame({'pressure': list(p) + list(pd), 'loading': list(n) + list(nd), 'branch': [0] * len(p) + [1] * len(pd)})
    return pygaps.PointIsotherm(isotherm_data=df, pressure_key='pressure', loading_key='loading', material='c15-' + kind.replace(' ', ''), adsorbate='N2',
                                temperature=77.355, pressure_mode='relative', loading_basis='molar', loading_unit='mmol', material_basis='mass', material_unit='g')


def clone(iso, factor=1.0):
    import pygaps
    d = iso.data_raw.copy()
    if factor != 1.0:
        d[iso.loading_key] = d[iso.loading_key] * factor
    return pygaps.PointIsotherm(isotherm_data=d, pressure_key=iso.pressure_key, loading_key=iso.loading_key, **iso.to_dict())


# entry -> (callable(iso) -> dict of named numeric results, tolerance class, {name: 'ext'|'int'})
def entries(tier):
    import pygaps.characterisation as pgc
    E = {}

    def pick(d, *ks):
        return {k: d[k] for k in ks}

    def first(res, *ks):
        if not res:
            return {}
        return {k: res[0][k] for k in ks}

    E['area_BET'] = (lambda i: pick(pgc.area_BET(i), 'area', 'c_const', 'n_monolayer', 'p_monolayer', 'bet_slope', 'bet_intercept', 'corr_coef'), TOL_LIN,
                     dict(area='ext', n_monolayer='ext', c_const='int', p_monolayer='int', corr_coef='int', bet_slope='inv', bet_intercept='inv'))
    E['area_BET(limits)'] = (lambda i: pick(pgc.area_BET(i, p_limits=(0.045, 0.31)), 'area', 'c_const', 'n_monolayer'), TOL_LIN, dict(area='ext', n_monolayer='ext', c_const='int'))
    E['area_langmuir'] = (lambda i: pick(pgc.area_langmuir(i, p_limits=(0.01, 0.3)), 'area', 'langmuir_const', 'n_monolayer', 'corr_coef'), TOL_LIN,
                          dict(area='ext', n_monolayer='ext', langmuir_const='int', corr_coef='int'))
    E['t_plot'] = (lambda i: first(pgc.t_plot(i, t_limits=(0.35, 0.6))['results'], 'slope', 'intercept', 'area', 'adsorbed_volume', 'corr_coef'), TOL_LIN,
                   dict(slope='ext', intercept='ext', area='ext', adsorbed_volume='ext', corr_coef='int'))
    E['t_plot(Halsey,des)'] = (lambda i: first(pgc.t_plot(i, thickness_model='Halsey', branch='des', t_limits=(0.4, 0.9))['results'], 'slope', 'area'), TOL_LIN, dict(slope='ext', area='ext'))
    E['dr_plot'] = (lambda i: pick(pgc.dr_plot(i, p_limits=(1e-5, 0.1)), 'pore_volume', 'adsorption_potential', 'corr_coef'), TOL_LIN,
                    dict(pore_volume='ext', adsorption_potential='int', corr_coef='int'))
    E['da_plot(2.3)'] = (lambda i: pick(pgc.da_plot(i, exp=2.3, p_limits=(1e-5, 0.1)), 'pore_volume', 'adsorption_potential'), TOL_LIN, dict(pore_volume='ext', adsorption_potential='int'))
    E['da_plot(search)'] = (lambda i: pick(pgc.da_plot(i, p_limits=(1e-5, 0.1)), 'pore_volume', 'adsorption_potential', 'exponent'), TOL_OPT,
                            dict(pore_volume='ext', adsorption_potential='int', exponent='int'))
    for m in ('pygaps-DH', 'BJH', 'DH'):
        E[f'psd_mesoporous({m})'] = (lambda i, m=m: pick(pgc.psd_mesoporous(i, psd_model=m, branch='des'), 'pore_widths', 'pore_volumes', 'pore_distribution', 'pore_volume_cumulative'), TOL_LIN,
                                     dict(pore_widths='int', pore_volumes='ext', pore_distribution='ext', pore_volume_cumulative='ext'))
    E['psd_mesoporous(ads,slit)'] = (lambda i: pick(pgc.psd_mesoporous(i, branch='ads', pore_geometry='slit', thickness_model='Halsey'), 'pore_widths', 'pore_volumes'), TOL_LIN,
                                     dict(pore_widths='int', pore_volumes='ext'))
    for m in ('HK', 'HK-CY', 'RY'):
        E[f'psd_microporous({m})'] = (lambda i, m=m: pick(pgc.psd_microporous(i, psd_model=m, p_limits=(None, 0.1)), 'pore_widths', 'pore_distribution', 'pore_volume_cumulative'), TOL_ROOT,
                                      dict(pore_widths='int', pore_distribution='ext', pore_volume_cumulative='ext'))
    E['alpha_s'] = (lambda i: first(pgc.alpha_s(i, REF[0], t_limits=(0.4, 1.1))['results'], 'slope', 'area', 'corr_coef'), TOL_LIN, dict(slope='ext', area='ext', corr_coef='int'))
    E['initial_henry_slope'] = (lambda i: {'K': pgc.initial_henry_slope(i, max_adjrms=0.01)}, TOL_OPT, dict(K='henry'))
    E['initial_henry_virial'] = (lambda i: {'K': pgc.initial_henry_virial(i)}, TOL_OPT, dict(K='henry'))
    if tier == 'thorough':
        E['psd_microporous(RY-CY,sphere)'] = (lambda i: pick(pgc.psd_microporous(i, psd_model='RY-CY', pore_geometry='sphere', p_limits=(None, 0.1)), 'pore_widths', 'pore_volume_cumulative'), TOL_ROOT,
                                              dict(pore_widths='int', pore_volume_cumulative='ext'))
    heavy = {'psd_dft': (lambda i: pick(pgc.psd_dft(i, p_limits=(1e-6, 0.9)), 'pore_volume_cumulative', 'kernel_loading'), 0.1, dict(pore_volume_cumulative='ext', kernel_loading='ext'))}
    return E, heavy


REF = [None]


def cmp_result(a, b, tol, kinds, factor_ext=1.0, factor_henry=1.0):
    """Largest relative deviation between two result dicts, honouring extensive / intensive / Henry scaling; returns (dev, key)."""
    worst, wk = 0.0, None
    for k, x in a.items():
        if k not in b:
            return float('inf'), k
        y = b[k]
        kind = kinds.get(k, 'int')
        f = {'ext': factor_ext, 'int': 1.0, 'henry': factor_henry, 'inv': 1.0 / factor_ext if factor_ext else 1.0}[kind]
        xa, ya = numpy.asarray(x, dtype=float) * f, numpy.asarray(y, dtype=float)
        if xa.shape != ya.shape:
            return float('inf'), k
        scale_ = max(float(numpy.max(numpy.abs(xa))) if xa.size else 0.0, 1e-300)
        d = float(numpy.max(numpy.abs(xa - ya))) / scale_ if xa.size else 0.0
        if d > worst:
            worst, wk = d, k
    return worst, wk


def work(arg):
    import pygaps
    iso_name, scale, reps, tier, names = arg
    E, heavy = entries(tier)
    E.update(heavy)
    out = {'ev': 0, 'nt': 0, 'viol': [], 'worst': {}, 'noreturn': 0}
    if iso_name.endswith('.json'):
        base = load_measured(iso_name)
    else:
        base = synthetic(iso_name, scale)
    REF[0] = synthetic('reference', 1.0)
    c = ru.ads_consts(pygaps.Adsorbate.find('N2').backend_name, base.temperature)
    seen = set()
    base_res = {}
    for name in names:
        o = core.call(E[name][0], clone(base), timeout=600)
        base_res[name] = o
    for rep in reps:
        pm, pu, lb, lu, tu = rep
        conv = clone(base)
        o = core.call(conv.convert, pressure_mode=pm, pressure_unit=pu, loading_basis=lb, loading_unit=lu)
        if not o.ok:
            continue
        if tu != 'K':
            conv.convert_temperature(tu)
        via = 'convert'
        if rep[-1] == 'json':
            pass
        # Henry factor: K is loading-unit per pressure-unit of the isotherm
        with ru.library_tables():
            fl = float(ru.c_loading(1.0, base.loading_basis, base.loading_unit, lb, lu, c))
            fp = float(ru.c_pressure(1.0, base.pressure_mode, base.pressure_unit, pm, pu, c))
        for name in names:
            b0 = base_res[name]
            o = core.call(E[name][0], conv, timeout=600)
            out['ev'] += 1
            if not b0.ok:
                out['noreturn'] += 1
                continue
            cls = 'pressure' if (pm, pu) != (base.pressure_mode, base.pressure_unit) and (lb, lu) == (base.loading_basis, base.loading_unit) else \
                  ('loading' if (pm, pu) == (base.pressure_mode, base.pressure_unit) else 'both')
            if tu != 'K':
                cls += '+temperature'
            if not o.ok:
                sig = {'check': 'unit-invariance', 'entry': name.split('(')[0], 'converted': cls, 'kind': 'raises:' + o.kind}
                k = core.sig_key(sig)
                if k not in seen:
                    seen.add(k)
                    out['viol'].append(core.make_violation(sig, f'{name} on {iso_name} stored as {rep}: {o.brief()[:200]} (in the original representation it returns)', {'isotherm': iso_name, 'rep': rep}))
                continue
            out['nt'] += 1
            tol, kinds = E[name][1], E[name][2]
            dev, key = cmp_result(b0.value, o.value, tol, kinds, 1.0, fl / fp)
            tk = name.split('(')[0]
            out['worst'][tk] = max(out['worst'].get(tk, 0.0), dev if dev != float('inf') else 0.0)
            if dev > tol:
                sig = {'check': 'unit-invariance', 'entry': name.split('(')[0], 'converted': cls, 'kind': 'value'}
                k = core.sig_key(sig)
                if k not in seen:
                    seen.add(k)
                    out['viol'].append(core.make_violation(sig, f'{name} on {iso_name}: result {key} changes by {dev:.3g} (relative) when the isotherm is stored as {rep} instead of '
                                                                f'{(base.pressure_mode, base.pressure_unit, base.loading_basis, base.loading_unit)}',
                                                           {'isotherm': iso_name, 'rep': rep, 'result': key}, b0.value.get(key), o.value.get(key)))
    # loading scale factors
    for fac in (0.5, 3.0, 1e-5, 1e4):
        sc = clone(base, fac)
        for name in names:
            b0 = base_res[name]
            if not b0.ok or name.startswith(('psd_microporous(HK-CY', 'psd_microporous(RY-CY')):
                continue
            o = core.call(E[name][0], sc, timeout=600)
            out['ev'] += 1
            if not o.ok:
                continue
            out['nt'] += 1
            tol, kinds = E[name][1], E[name][2]
            dev, key = cmp_result(b0.value, o.value, tol, kinds, fac, fac)
            if dev > max(tol, 1e-6):
                sig = {'check': 'loading-scaling', 'entry': name.split('(')[0]}
                if not 0.1 <= fac <= 10:
                    sig['factor'] = 'several orders of magnitude'
                k = core.sig_key(sig)
                if k not in seen:
                    seen.add(k)
                    out['viol'].append(core.make_violation(sig, f'{name} on {iso_name}: multiplying all loadings by {fac}: result {key} deviates by {dev:.3g} from the expected scaling',
                                                           {'isotherm': iso_name, 'factor': fac, 'result': key}, b0.value.get(key), o.value.get(key)))
    # the same isotherm OBJECT analysed, converted in place, analysed again (caches built by the first analysis must not survive)
    for conv in (dict(loading_unit='mol'), dict(pressure_mode='absolute', pressure_unit='kPa'), dict(loading_basis='mass', loading_unit='mg')):
        for name in names:
            b0 = base_res[name]
            if not b0.ok or name.startswith(('initial_henry', 'psd_dft')):
                continue
            obj = clone(base)
            core.call(E[name][0], obj, timeout=600)
            if not core.call(obj.convert, **conv).ok:
                continue
            o = core.call(E[name][0], obj, timeout=600)
            out['ev'] += 1
            out['nt'] += 1
            dev = cmp_result(b0.value, o.value, E[name][1], E[name][2])[0] if o.ok else float('inf')
            if dev > E[name][1]:
                sig = {'check': 'analysis-convert-analysis', 'entry': name.split('(')[0]}
                k = core.sig_key(sig)
                if k not in seen:
                    seen.add(k)
                    out['viol'].append(core.make_violation(sig, f'{name} on {iso_name}: analysing, converting the same object ({conv}) and analysing again gives '
                                                                f'{"a result deviating by %.3g" % dev if o.ok else o.brief()[:150]}', {'isotherm': iso_name, 'conversion': conv}))
    # the same content under user-chosen column names, converted permanently, then analysed
    for conv in (dict(pressure_mode='absolute', pressure_unit='kPa'), dict(loading_basis='molar', loading_unit='mol')):
        d = base.data_raw.rename(columns={base.pressure_key: 'p_meas', base.loading_key: 'uptake'})
        named = pygaps.PointIsotherm(isotherm_data=d, pressure_key='p_meas', loading_key='uptake', **base.to_dict())
        if not core.call(named.convert, **conv).ok:
            continue
        plain = clone(base)
        plain.convert(**conv)
        for name in names:
            if name.startswith('psd_dft'):
                continue
            want = core.call(E[name][0], plain, timeout=600)
            if not want.ok:
                continue
            o = core.call(E[name][0], named, timeout=600)
            out['ev'] += 1
            out['nt'] += 1
            dev = cmp_result(want.value, o.value, 1e-9, E[name][2])[0] if o.ok else float('inf')
            if dev > 1e-9:
                sig = {'check': 'column-names', 'entry': name.split('(')[0]}
                k = core.sig_key(sig)
                if k not in seen:
                    seen.add(k)
                    out['viol'].append(core.make_violation(sig, f'{name} on {iso_name} converted with convert({conv}): an isotherm whose columns are called p_meas/uptake gives '
                                                                f'{"a result deviating by %.3g" % dev if o.ok else o.brief()[:150]} from the same content under the default column names',
                                                           {'isotherm': iso_name, 'conversion': conv}))
    # a supplementary column holding a RECORDED saturation pressure (as AIF files carry it) is data like any other: results as stored in
    # absolute pressure == results after the permanent conversion to relative pressure
    for col in ('p0', 'pressure_saturation', 'saturation_pressure'):
        stored = clone(base)
        if not core.call(stored.convert_pressure, mode_to='absolute', unit_to='kPa').ok:
            break
        d = stored.data_raw.copy()
        d[col] = 95.0 + 0.01 * numpy.arange(len(d))
        withcol = pygaps.PointIsotherm(isotherm_data=d, pressure_key=stored.pressure_key, loading_key=stored.loading_key, **stored.to_dict())
        conv = pygaps.PointIsotherm(isotherm_data=d.copy(), pressure_key=stored.pressure_key, loading_key=stored.loading_key, **stored.to_dict())
        if not core.call(conv.convert_pressure, mode_to='relative').ok:
            continue
        for name in names:
            if name.startswith(('psd_dft', 'initial_henry')):
                continue
            want = core.call(E[name][0], withcol, timeout=600)
            if not want.ok:
                continue
            o = core.call(E[name][0], conv, timeout=600)
            out['ev'] += 1
            out['nt'] += 1
            dev = cmp_result(want.value, o.value, E[name][1], E[name][2])[0] if o.ok else float('inf')
            if dev > E[name][1]:
                sig = {'check': 'recorded-saturation-pressure-column', 'entry': name.split('(')[0]}
                k = core.sig_key(sig)
                if k not in seen:
                    seen.add(k)
                    out['viol'].append(core.make_violation(sig, f'{name} on {iso_name} (absolute kPa, with a supplementary column {col!r}): after convert_pressure(mode_to="relative") the result '
                                                                f'{"deviates by %.3g" % dev if o.ok else o.brief()[:120]} from the result on the isotherm as stored', {'isotherm': iso_name, 'column': col}))
    # a working copy made from the isotherm's own table is converted: the ORIGINAL, never converted, still gives its results
    for how in ('from_isotherm(iso, isotherm_data=iso.data())', 'PointIsotherm(isotherm_data=iso.data_raw, **iso.to_dict())'):
        for conv in (dict(loading_basis='molar', loading_unit='mol'), dict(pressure_mode='absolute', pressure_unit='kPa'), dict(loading_basis='mass', loading_unit='mg')):
            orig = clone(base)
            if how.startswith('from_isotherm'):
                cp = core.call(pygaps.PointIsotherm.from_isotherm, orig, isotherm_data=orig.data(), pressure_key=orig.pressure_key, loading_key=orig.loading_key)
            else:
                cp = core.call(pygaps.PointIsotherm, isotherm_data=orig.data_raw, pressure_key=orig.pressure_key, loading_key=orig.loading_key, **orig.to_dict())
            if not cp.ok or not core.call(cp.value.convert, **conv).ok:
                continue
            for name in names:
                b0 = base_res[name]
                if not b0.ok or name.startswith('psd_dft'):
                    continue
                o = core.call(E[name][0], orig, timeout=600)
                out['ev'] += 1
                out['nt'] += 1
                dev = cmp_result(b0.value, o.value, 1e-9, E[name][2])[0] if o.ok else float('inf')
                if dev > 1e-9:
                    sig = {'check': 'working-copy-conversion-changes-original', 'entry': name.split('(')[0]}
                    k = core.sig_key(sig)
                    if k not in seen:
                        seen.add(k)
                        out['viol'].append(core.make_violation(sig, f'{name} on {iso_name}: after a working copy ({how}) was converted with convert({conv}) the original isotherm gives '
                                                                    f'{"a result deviating by %.3g" % dev if o.ok else o.brief()[:150]}', {'isotherm': iso_name, 'conversion': conv, 'copy': how}))
    # export -> import before the analysis
    import pygaps.parsing as pp
    rt = core.call(lambda: pp.isotherm_from_json(pp.isotherm_to_json(clone(base))))
    if rt.ok:
        for name in names:
            b0 = base_res[name]
            if not b0.ok:
                continue
            o = core.call(E[name][0], rt.value, timeout=600)
            out['ev'] += 1
            out['nt'] += 1
            if not o.ok or cmp_result(b0.value, o.value, 1e-12, E[name][2])[0] > 1e-12:
                out['viol'].append(core.make_violation({'check': 'json-round-trip-then-analysis', 'entry': name.split('(')[0]}, f'{name} on {iso_name}: result changes after a JSON export/import of the isotherm', {}))
    return out


def check_isosteric(ctx):
    import pygaps.characterisation as pgc
    import pygaps.parsing as pp
    ev = nt = 0
    files = ['BAX 1500 - Isosteric Heat - 298.json', 'BAX 1500 - Isosteric Heat - 323.json', 'BAX 1500 - Isosteric Heat - 348.json']
    isos = [pp.isotherm_from_json(os.path.join(DATA, 'isosteric', f)) for f in files]
    b0 = core.call(pgc.isosteric_enthalpy, [clone(i) for i in isos], loading_points=[1.0, 2.0, 3.0, 5.0])
    if not b0.ok:
        raise core.HarnessError(f'baseline isosteric enthalpy of the measured set does not return: {b0.brief()}')
    for pm, pu in P_REPS:
        for lb, lu in (Q_L if ctx.quick else L_REPS):
            for tu in ('K', '°C'):
                conv = [clone(i) for i in isos]
                ok = True
                for cc in conv:
                    o = core.call(cc.convert, pressure_mode=pm, pressure_unit=pu, loading_basis=lb, loading_unit=lu)
                    ok = ok and o.ok
                    if tu != 'K':
                        cc.convert_temperature(tu)
                if not ok or not b0.ok:
                    continue
                c = ru.ads_consts('n-Butane', conv[0].temperature)
                with ru.library_tables():
                    lp = [float(ru.c_loading(x, 'molar', 'mmol', lb, lu, c)) for x in (1.0, 2.0, 3.0, 5.0)]
                o = core.call(pgc.isosteric_enthalpy, conv, loading_points=lp)
                ev += 1
                nt += 1
                dev = core.relerr(o.value['isosteric_enthalpy'], b0.value['isosteric_enthalpy']) if o.ok else float('inf')
                ctx.track('isosteric_enthalpy', dev if dev != float('inf') else 0.0, 1e-6)
                if dev > 1e-6:
                    cls = 'relative-pressure' if pm != 'absolute' else 'absolute-pressure'
                    ctx.violate(core.make_violation({'check': 'unit-invariance', 'entry': 'isosteric_enthalpy', 'converted': cls,
                                                     'loading': 'per-volume-of-adsorbate (temperature dependent)' if lb.startswith('volume') else 'amount',
                                                     'kind': 'value' if o.ok else 'raises:' + o.kind},
                                                    f'isosteric_enthalpy on the BAX-1500 set stored as {(pm, pu, lb, lu, tu)}: {o.value["isosteric_enthalpy"] if o.ok else o.brief()} instead of {b0.value["isosteric_enthalpy"]}',
                                                    {'rep': (pm, pu, lb, lu, tu)}))
    # loading_points omitted (default grid) and sets whose members are stored in DIFFERENT representations: results are in the
    # units of the first isotherm, whatever the others are stored in
    b0d = core.call(pgc.isosteric_enthalpy, [clone(i) for i in isos])
    mixes = [dict(loading_unit='cm3(STP)'), dict(loading_unit='mol'), dict(loading_basis='mass', loading_unit='mg'), dict(pressure_unit='kPa'),
             dict(pressure_mode='relative'), dict(material_unit='kg')]
    for which in ([1], [2], [1, 2], [0]):
        for conv in mixes:
            objs = [clone(i) for i in isos]
            ok = all(core.call(objs[w].convert, **conv).ok for w in which)
            if not ok or not b0d.ok or not b0.ok:
                continue
            first_conv = conv if 0 in which else {}
            c = ru.ads_consts('n-Butane', objs[0].temperature)
            with ru.library_tables():
                fl = float(ru.c_loading(1.0, 'molar', 'mmol', first_conv.get('loading_basis', 'molar'), first_conv.get('loading_unit', 'mmol'), c))
            if 'material_unit' in first_conv:
                fl *= 1000.0
            for lp in (None, [x * fl for x in (1.0, 2.0, 3.0, 5.0)]):
                want = b0d if lp is None else b0
                o = core.call(pgc.isosteric_enthalpy, objs, loading_points=lp)
                ev += 1
                nt += 1
                if not o.ok and o.kind == 'ParameterError' and 'loading_basis' in conv and len(which) < 3:
                    continue        # members in different loading BASES are refused: a refusal is not a changed result
                bad = not o.ok or len(o.value['isosteric_enthalpy']) != len(want.value['isosteric_enthalpy']) or \
                    core.relerr(o.value['isosteric_enthalpy'], want.value['isosteric_enthalpy']) > 1e-6 or \
                    core.relerr(numpy.asarray(o.value['loading'], dtype=float) / fl, want.value['loading']) > 1e-9
                if bad:
                    ctx.violate(core.make_violation(
                        {'check': 'mixed-representation-set', 'entry': 'isosteric_enthalpy', 'grid': 'default' if lp is None else 'given', 'converted_members': str(which)},
                        f'isosteric_enthalpy (loading_points={"omitted" if lp is None else lp}) with isotherm(s) {which} of the BAX-1500 set stored after convert({conv}): '
                        f'{(list(o.value["loading"][:3]), list(o.value["isosteric_enthalpy"][:3])) if o.ok else o.brief()[:160]} instead of '
                        f'{(list(want.value["loading"][:3]), list(want.value["isosteric_enthalpy"][:3]))}', {'conversion': conv, 'members': which}))
    # the same objects analysed, converted in place (unit only / basis), analysed again
    # (a pressure UNIT changed on every member alike shifts every ln p by one constant and cannot show in the slopes: the pressure conversions are therefore also
    #  applied to single members, and to a mode whose factor depends on the temperature)
    for conv, lb, lu, which in ((dict(loading_unit='mol'), 'molar', 'mol', (0, 1, 2)), (dict(loading_basis='mass', loading_unit='mg'), 'mass', 'mg', (0, 1, 2)),
                                (dict(pressure_unit='kPa'), 'molar', 'mmol', (0, 1, 2)), (dict(pressure_unit='kPa'), 'molar', 'mmol', (1,)), (dict(pressure_unit='Pa'), 'molar', 'mmol', (0, 2)),
                                (dict(pressure_mode='relative'), 'molar', 'mmol', (0, 1, 2)), (dict(pressure_mode='relative%'), 'molar', 'mmol', (2,)),
                                (dict(pressure_unit='torr', loading_unit='mol'), 'molar', 'mol', (0, 1, 2))):
        objs = [clone(i) for i in isos]
        core.call(pgc.isosteric_enthalpy, objs, loading_points=[1.0, 2.0, 3.0, 5.0])
        if not all(core.call(objs[w_].convert, **conv).ok for w_ in which):
            continue
        c = ru.ads_consts('n-Butane', objs[0].temperature)
        with ru.library_tables():
            lp = [float(ru.c_loading(x, 'molar', 'mmol', lb, lu, c)) for x in (1.0, 2.0, 3.0, 5.0)]
        o = core.call(pgc.isosteric_enthalpy, objs, loading_points=lp)
        ev += 1
        nt += 1
        if b0.ok and (not o.ok or core.relerr(o.value['isosteric_enthalpy'], b0.value['isosteric_enthalpy']) > 1e-6):
            ctx.violate(core.make_violation({'check': 'analysis-convert-analysis', 'entry': 'isosteric_enthalpy'},
                                            f'isosteric_enthalpy, then convert({conv}) on members {list(which)} of the same isotherm objects, then isosteric_enthalpy again: '
                                            f'{o.value["isosteric_enthalpy"] if o.ok else o.brief()[:160]} instead of {b0.value["isosteric_enthalpy"]}', {'conversion': conv}))
    ctx.add('isosteric_enthalpy', ev, nt)
    ctx.require('isosteric_enthalpy_cases', nt, 30)


def check_alpha_reference(ctx):
    """alpha_s with the sample AND the reference isotherm stored in every (quotient) representation."""
    import pygaps.characterisation as pgc
    ev = nt = 0
    sample0, ref0 = synthetic('type IV', ctx.scale), synthetic('reference', 1.0)
    b0 = core.call(lambda: pgc.alpha_s(clone(sample0), clone(ref0), t_limits=(0.4, 1.1))['results'][0])
    if not b0.ok:
        raise core.HarnessError(f'alpha_s base case fails: {b0.brief()}')
    reps = [p + l for p in (Q_P if ctx.quick else P_REPS) for l in (Q_L[:5] if ctx.quick else L_REPS)]
    seen = set()
    for who in ('reference', 'sample', 'both'):
        for pm, pu, lb, lu in reps:
            s_, r_ = clone(sample0), clone(ref0)
            ok = True
            if who in ('reference', 'both'):
                ok = ok and core.call(r_.convert, pressure_mode=pm, pressure_unit=pu, loading_basis=lb, loading_unit=lu).ok
            if who in ('sample', 'both'):
                ok = ok and core.call(s_.convert, pressure_mode=pm, pressure_unit=pu, loading_basis=lb, loading_unit=lu).ok
            if not ok:
                continue
            o = core.call(lambda: pgc.alpha_s(s_, r_, t_limits=(0.4, 1.1))['results'][0])
            ev += 1
            nt += 1
            dev = max(abs(o.value[k] - b0.value[k]) / abs(b0.value[k]) for k in ('slope', 'area')) if o.ok else float('inf')
            if dev > TOL_LIN:
                pclass = 'absolute bar' if (pm, pu) == ('absolute', 'bar') else (pm if pm != 'absolute' else 'absolute other unit')
                lclass = 'molar' if lb == 'molar' else 'non-molar'
                sig = {'check': 'unit-invariance', 'entry': 'alpha_s', 'converted': who, 'pressure': pclass, 'loading': lclass}
                k = core.sig_key(sig)
                if k in seen:
                    continue
                seen.add(k)
                ctx.violate(core.make_violation(sig, f'alpha_s with the {who} stored as {(pm, pu, lb, lu)}: {({k: o.value[k] for k in ("slope", "area")} if o.ok else o.brief()[:160])} '
                                                     f'instead of {({k: b0.value[k] for k in ("slope", "area")})}', {'converted': who, 'rep': (pm, pu, lb, lu)}))
    # an isotherm used as its OWN reference (the same object in both roles), in every molar unit and on either branch, against a twin object
    for lu in ('mmol', 'mol', 'cm3(STP)', 'kmol'):
        for br in ('ads', 'des'):
            a_, t1, t2 = clone(sample0), clone(sample0), clone(sample0)
            for x_ in (a_, t1, t2):
                x_.convert_loading(unit_to=lu)
            lim = (0.4, 1.1) if br == 'ads' else None
            kwb = dict(branch=br, branch_ref=br)
            own = core.call(lambda: pgc.alpha_s(a_, a_, t_limits=lim, **kwb)['results'])
            twin = core.call(lambda: pgc.alpha_s(t1, t2, t_limits=lim, **kwb)['results'])
            ev += 1
            if not twin.ok:
                continue
            nt += 1
            same = own.ok and len(own.value) == len(twin.value) and all(
                abs(x['slope'] - y['slope']) <= 1e-9 * abs(y['slope']) and abs(x['area'] - y['area']) <= 1e-9 * abs(y['area']) for x, y in zip(own.value, twin.value))
            if not same:
                ctx.violate(core.make_violation({'check': 'self-reference', 'entry': 'alpha_s', 'branch': br, 'unit': 'mmol' if lu == 'mmol' else 'other molar unit'},
                                                f'alpha_s(iso, iso, branch={br}) with ONE object in both roles (loading in {lu}): '
                                                f'{[(x["slope"], x["area"]) for x in own.value][:2] if own.ok else own.brief()[:120]} but with an identical twin as reference '
                                                f'{[(x["slope"], x["area"]) for x in twin.value][:2]}', {'unit': lu, 'branch': br}))
    # the same reference object used, converted in place within the representations alpha_s supports, used again
    for conv in (dict(loading_unit='mol'), dict(loading_unit='cm3(STP)')):
        s_, r_ = clone(sample0), clone(ref0)
        core.call(lambda: pgc.alpha_s(s_, r_, t_limits=(0.4, 1.1)))
        r_.convert(**conv)
        o = core.call(lambda: pgc.alpha_s(s_, r_, t_limits=(0.4, 1.1))['results'][0])
        ev += 1
        nt += 1
        dev = max(abs(o.value[k] - b0.value[k]) / abs(b0.value[k]) for k in ('slope', 'area')) if o.ok else float('inf')
        if dev > TOL_LIN:
            ctx.violate(core.make_violation({'check': 'analysis-convert-analysis', 'entry': 'alpha_s'},
                                            f'alpha_s, then reference.convert({conv}), then alpha_s again with the same objects: '
                                            f'{({k: o.value[k] for k in ("slope", "area")} if o.ok else o.brief()[:160])} instead of {({k: b0.value[k] for k in ("slope", "area")})}', {'conversion': conv}))
    ctx.add('alpha_s_reference_representations', ev, nt)


def check_model_isotherms(ctx):
    """ModelIsotherms (accepted by every entry point): one physical curve held as a model in several stored representations.

    The model families used are closed under a rescaling of the axes (K -> K / unit factor, n_m -> n_m * unit factor), so the same
    curve is written down exactly in each representation, with the pressure range the model declares rescaled alike.
    """
    import pygaps
    E, _ = entries('quick')
    T = 77.355
    N2 = pygaps.Adsorbate.find('N2')
    c = ru.ads_consts(N2.backend_name, T)
    ev = nt = 0
    curves = {
        'BET curve': ('BET', {'n_m': 2.0, 'C': 80.0, 'N': 0.82}, ('C', 'N'), ('n_m',), (0.005, 0.93)),     # n = n_m C p / ((1 - N p)(1 - N p + C p))
        'Langmuir curve': ('Langmuir', {'n_m': 3.0, 'K': 45.0}, ('K',), ('n_m',), (0.002, 0.9)),
        'Toth curve': ('Toth', {'n_m': 4.0, 'K': 3000.0, 't': 0.45}, ('K',), ('n_m',), (3e-6, 0.95)),      # (no grid point on a limit used by the entries)
    }
    names = ['area_BET', 'area_BET(limits)', 'area_langmuir', 't_plot', 'dr_plot', 'da_plot(2.3)', 'psd_mesoporous(ads,slit)', 'psd_microporous(HK)', 'alpha_s']
    preps = [('relative', None), ('relative%', None), ('absolute', 'bar'), ('absolute', 'kPa'), ('absolute', 'Pa'), ('absolute', 'torr')]
    lreps = [('molar', 'mmol'), ('molar', 'mol'), ('mass', 'mg'), ('volume_gas', 'cm3')]
    REF[0] = synthetic('reference', 1.0)
    seen = set()

    def mk(model, q, paff, pcap, prange, pm, pu, lb, lu):
        with ru.library_tables():
            fp = float(ru.c_pressure(1.0, 'relative', None, pm, pu, c))      # numbers on the pressure axis are multiplied by fp
            fl = float(ru.c_loading(1.0, 'molar', 'mmol', lb, lu, c))
        qq = {k: (v / fp if k in paff else (v * fl if k in pcap else v)) for k, v in q.items()}
        m = ml.mk(model, qq, T)
        m.pressure_range = (prange[0] * fp, prange[1] * fp)
        m.loading_range = (float(m.loading(m.pressure_range[0])), float(m.loading(m.pressure_range[1])))
        return pygaps.ModelIsotherm(model=m, material='c15m', adsorbate='N2', temperature=T, pressure_mode=pm, pressure_unit=pu, loading_basis=lb, loading_unit=lu,
                                    material_basis='mass', material_unit='g', temperature_unit='K')

    for cname, (model, q, paff, pcap, prange) in curves.items():
        base = {name: core.call(E[name][0], mk(model, q, paff, pcap, prange, 'relative', None, 'molar', 'mmol'), timeout=300) for name in names}
        for (pm, pu) in preps:
            for (lb, lu) in lreps:
                if (pm, pu, lb, lu) == ('relative', None, 'molar', 'mmol'):
                    continue
                if (pm, pu) not in (('relative', None), ('absolute', 'kPa')) and (lb, lu) != ('molar', 'mmol') and (lb, lu) != ('mass', 'mg'):
                    continue
                for name in names:
                    b0 = base[name]
                    if not b0.ok:
                        continue
                    o = core.call(E[name][0], mk(model, q, paff, pcap, prange, pm, pu, lb, lu), timeout=300)
                    ev += 1
                    cls = 'pressure' if (lb, lu) == ('molar', 'mmol') else ('loading' if (pm, pu) == ('relative', None) else 'both')
                    tol, kinds = E[name][1], E[name][2]
                    dev, key = (float('inf'), 'raises') if not o.ok else cmp_result(b0.value, o.value, max(tol, 1e-6), kinds, 1.0, 1.0)
                    if o.ok:
                        nt += 1
                    if dev > max(tol, 1e-6):
                        sig = {'check': 'unit-invariance', 'entry': name.split('(')[0], 'converted': cls, 'isotherm': 'model isotherm', 'kind': 'value' if o.ok else 'raises:' + o.kind}
                        k = core.sig_key(sig)
                        if k in seen:
                            continue
                        seen.add(k)
                        ctx.violate(core.make_violation(
                            sig, f'{name} on a ModelIsotherm ({cname}: {model}{q} in relative pressure, mmol/g) written in {(pm, pu, lb, lu)}: '
                            + (f'result {key} differs by {dev:.3g} (relative)' if o.ok else o.brief()[:200]), {'curve': cname, 'rep': (pm, pu, lb, lu), 'result': key},
                            b0.value.get(key) if o.ok else None, o.value.get(key) if o.ok else None))
    ctx.add('model_isotherms', ev, nt)
    ctx.require('model-isotherm analyses', nt, 200)


def check_henry_limits(ctx):
    """initial_henry_slope with pressure / loading limits on data that are EXACTLY linear inside the limits (so that the point-dropping search,
    whose absolute tolerance is the known D31, has nothing to drop): K is the generating slope times the unit factors, in every representation."""
    import pygaps
    import pygaps.characterisation as pgc
    T = 77.355
    c = ru.ads_consts(pygaps.Adsorbate.find('N2').backend_name, T)
    ev = nt = 0
    p = numpy.concatenate([numpy.linspace(0.002, 0.02, 10), numpy.linspace(0.03, 0.6, 15)])
    for k in (40.0 * ctx.scale, 150.0):
        n = numpy.where(p <= 0.0201, k * p, k * 0.02 + (k * 0.3) * (p - 0.02))       # mmol/g vs relative pressure: linear through the origin up to 0.02
        base = pygaps.PointIsotherm(pressure=p, loading=n, material='c15h', adsorbate='N2', temperature=T, pressure_mode='relative', loading_basis='molar',
                                    loading_unit='mmol', material_basis='mass', material_unit='g', temperature_unit='K')
        for (pm, pu) in (('relative', None), ('absolute', 'bar'), ('absolute', 'kPa'), ('relative%', None)):
            # (representations in which the loadings become small numbers - mol, m3, cm3 of liquid - are the domain of the known D31: the fit inside stops at once)
            for (lb, lu) in (('molar', 'mmol'), ('molar', 'cm3(STP)'), ('mass', 'mg'), ('volume_gas', 'cm3'), ('molar', 'umol' if False else 'mmol')):
                iso = clone(base)
                iso.convert(pressure_mode=pm, pressure_unit=pu, loading_basis=lb, loading_unit=lu)
                with ru.library_tables():
                    fl = float(ru.c_loading(1.0, 'molar', 'mmol', lb, lu, c))
                    fp = float(ru.c_pressure(1.0, 'relative', None, pm, pu, c))
                want = k * fl / fp
                pr_, ld_ = iso.pressure(branch='ads'), iso.loading(branch='ads')
                for how, kw in (('p_limits', dict(p_limits=(None, float(pr_[9]) * 1.0001))), ('l_limits', dict(l_limits=(None, float(ld_[9]) * 1.0001))),
                                ('both limits', dict(p_limits=(float(pr_[0]) * 0.5, float(pr_[9]) * 1.0001), l_limits=(float(ld_[1]) * 0.999, None)))):
                    o = core.call(pgc.initial_henry_slope, iso, **kw)
                    ev += 1
                    nt += 1
                    # (2e-2: the fit inside stops on absolute tolerances - known D31 - which moves K by up to 1e-3 on these data)
                    if not o.ok or abs(float(o.value) - want) > 2e-2 * abs(want):
                        cls = 'pressure' if (lb, lu) == ('molar', 'mmol') else ('loading' if (pm, pu) == ('relative', None) else 'both')
                        ctx.violate(core.make_violation(
                            {'check': 'henry-slope-with-limits', 'limits': how, 'converted': cls, 'kind': 'value' if o.ok else 'raises:' + o.kind},
                            f'initial_henry_slope({how}) on data exactly linear (slope {k} mmol/g per unit relative pressure) inside the limits, stored as {(pm, pu, lb, lu)}: '
                            f'{o.value if o.ok else o.brief()[:160]} instead of {want:.9g}', {'rep': (pm, pu, lb, lu), 'limits': how}, want, o.value if o.ok else None))
    ctx.add('henry_slope_with_limits', ev, nt)


def check_henry_deep_vacuum(ctx):
    """High-resolution micropore measurements start at 1e-4 ... 1e-2 Pa: in MPa, bar or relative pressure their first point is a number below 1e-8
    (and still not zero). initial_henry_slope / initial_henry_virial in every pressure representation: K changes by exactly the unit factor.
    (Loadings stay in units where they are of order one: small loading numbers are the domain of the known D31.)"""
    import pygaps
    import pygaps.characterisation as pgc
    T = 77.355
    c = ru.ads_consts(pygaps.Adsorbate.find('N2').backend_name, T)
    ev = nt = 0
    worst = 0.0
    for p0 in (5e-3, 2e-4):
        p = numpy.geomspace(p0, 1e3, 40)                     # Pa
        n = 6.0 * ctx.scale * 5 * p / (1 + 5 * p)             # mmol/g
        base = pygaps.PointIsotherm(pressure=p, loading=n, material='c15v', adsorbate='N2', temperature=T, pressure_mode='absolute', pressure_unit='Pa',
                                    loading_basis='molar', loading_unit='mmol', material_basis='mass', material_unit='g', temperature_unit='K')
        for name, fn in (('initial_henry_slope', lambda i: pgc.initial_henry_slope(i)), ('initial_henry_slope(max_adjrms=0.05)', lambda i: pgc.initial_henry_slope(i, max_adjrms=0.05)),
                         ('initial_henry_virial', lambda i: pgc.initial_henry_virial(i))):
            b = core.call(fn, clone(base))
            if not b.ok:
                continue
            for (pm, pu) in P_REPS:
                for (lb, lu) in (('molar', 'mmol'), ('molar', 'cm3(STP)'), ('mass', 'mg')):
                    iso = clone(base)
                    iso.convert(pressure_mode=pm, pressure_unit=pu, loading_basis=lb, loading_unit=lu)
                    with ru.library_tables():
                        fl = float(ru.c_loading(1.0, 'molar', 'mmol', lb, lu, c))
                        fp = float(ru.c_pressure(1.0, 'absolute', 'Pa', pm, pu, c))
                    want = float(b.value) * fl / fp
                    o = core.call(fn, iso)
                    ev += 1
                    nt += 1
                    tol = 1e-5 if name.startswith('initial_henry_slope') else TOL_OPT
                    if o.ok:
                        worst = max(worst, abs(float(o.value) - want) / abs(want) / tol)
                    if not o.ok or abs(float(o.value) - want) > tol * abs(want):
                        ctx.violate(core.make_violation(
                            {'check': 'henry-deep-vacuum', 'entry': name.split('(')[0], 'kind': 'value' if o.ok else 'raises:' + o.kind},
                            f'{name} on an isotherm measured from {p0:g} Pa, stored as {(pm, pu, lb, lu)} (first point {float(iso.pressure()[0]):.3g}): '
                            f'{o.value if o.ok else o.brief()[:160]} instead of {want:.9g} = (K of the same data in Pa, mmol/g) x the unit factors',
                            {'rep': (pm, pu, lb, lu), 'first_pressure_Pa': p0}, want, o.value if o.ok else None))
    ctx.add('henry_deep_vacuum', ev, nt)
    ctx.track('henry_deep_vacuum', worst, 1.0)


def run(ctx):
    E, heavy = entries(ctx.tier)
    if ctx.quick:
        reps = [p + l + ('K',) for p in P_REPS for l in Q_L[:4]] + [p + l + ('K',) for p in Q_P[:2] for l in L_REPS] + [Q_P[1] + Q_L[3] + ('°C',), Q_P[3] + Q_L[0] + ('°C',)]
    else:
        reps = [p + l + (t,) for p in P_REPS for l in L_REPS for t in ('K', '°C')]
    # a pressure unit given together with a relative target mode is documented as having no meaning: it must have no effect
    reps += [p + l + ('K',) for p in SUPERFLUOUS_UNIT for l in (Q_L[0], Q_L[4])]
    reps = list(dict.fromkeys(reps))
    isos = ['MCM-41 N2 77.355.json', 'UiO-66(Zr) N2 77.355.json', 'type IV', 'type I']
    jobs = []
    names = list(E)
    for iso_name in isos:
        # shard by representation so that 16 workers are busy
        nsh = 8 if ctx.quick else 16
        for sidx in range(nsh):
            jobs.append((iso_name, ctx.scale, reps[sidx::nsh], ctx.tier, names))
        hreps = [p + l + ('K',) for p in Q_P for l in (Q_L[1], Q_L[3], Q_L[6])] if ctx.quick else [p + l + ('K',) for p in P_REPS for l in Q_L]
        if iso_name in ('UiO-66(Zr) N2 77.355.json', 'type I'):
            for sidx in range(4):
                jobs.append((iso_name, ctx.scale, hreps[sidx::4], ctx.tier, list(heavy)))
    res = core.pmap(work, jobs, chunk=1)
    nr = 0
    for r in res:
        ctx.add('entry_points_x_representations', r['ev'], r['nt'])
        ctx.violate(r['viol'])
        nr += r['noreturn']
        for k, v in r['worst'].items():
            if k in ('alpha_s',):
                continue
            ctx.track(k, v, {**{n.split('(')[0]: E[n][1] for n in E}, 'psd_dft': 0.1}.get(k, 1.0))
    check_isosteric(ctx)
    check_alpha_reference(ctx)
    check_model_isotherms(ctx)
    check_henry_limits(ctx)
    check_henry_deep_vacuum(ctx)
    ctx.cov['analyses_not_returning_on_the_original_representation'] = nr
    ctx.cov['domain_sizes'] = {'entry_points': len(E) + len(heavy), 'representations': len(reps), 'isotherms': len(isos)}
    ctx.cov['rule'] = ('every characterisation entry point x stored representations (thorough: 10 pressure x 25 loading x 2 temperature units; quick: 10 x 4 + 2 x 25 + Celsius samples) x '
                       '2 measured N2 isotherms + 2 synthetic ones x loading scale factors {0.5, 3} x JSON round trip; psd_dft on a unit-class quotient; isosteric enthalpy of the measured '
                       'BAX-1500 set with all isotherms converted together. Differential oracle against the analysis of the original representation.')
    ctx.require('analyses', ctx.cov['evaluations'], 3000)
    ctx.sample({'entry': 'area_BET', 'isotherm': 'MCM-41 N2 77.355.json', 'stored_as': ['absolute', 'torr', 'volume_gas', 'L', '°C'], 'oracle': 'area, C, n_m unchanged to 1e-7'})
    ctx.sample({'entry': 'initial_henry_slope', 'oracle': 'K changes by exactly (loading unit factor)/(pressure unit factor)'})
    ctx.assumptions += ['tolerances: 1e-7 for regression/closed-form results, 5e-3 for results of iterative searches (HK widths, DA exponent search, Henry fits), 0.1 for the DFT fit (SLSQP with an absolute ftol of 1e-4 is path-dependent: a 1e-16 change of the input moves the cumulative volume by up to 2 %)',
                        'material-unit conversions are not in the property (results are per unit of material)']
