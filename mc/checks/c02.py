"""C02 — permanent conversions over any history (DESIGN §4 C02; engine E1).

Explicit-state exploration of the label machine of a real PointIsotherm: a state is
(labels, data); a transition is a real convert*/convert call on a freshly rebuilt
isotherm whose interpolator caches have been filled.  Invariants after every call:
validity, consistency with the reference conversion of the ORIGINAL data, target,
refusal-changes-nothing, frame, no stale interpolation.
"""
import collections
import itertools

import numpy
import pandas

from mc import core
from mc import engine_states
from mc import ref_units as ru

LEVEL = 'model_checking'
KEYS = ['pressure_mode', 'pressure_unit', 'loading_basis', 'loading_unit', 'material_basis', 'material_unit',
        'temperature_unit']
TOL = 1e-9

P0 = [0.1, 0.2, 0.35, 0.5, 0.4, 0.25]
L0 = [1.0, 2.0, 3.0, 4.0, 3.8, 3.0]
BRANCH = [0, 0, 0, 0, 1, 1]
ENTH = [5.0, 4.0, 3.0, 2.0, 1.0, 0.0]
TXT = list('abcdef')
INDEX = [3, 4, 5, 6, 7, 8]
META = {'note': 'x', 'user': 'someone', 'n': 5, 'flag': True, 'ratio': 0.25}
FAKE = dict(M=7.1234567, rl=0.0123456, rg=1.23456e-4, dl=0.0123456 * 7.1234567, dg=1.23456e-4 * 7.1234567, ps=54321.0)
FAKE_M = dict(density=3.21987, molar_mass=77.7123)

INIT_A = ('absolute', 'bar', 'molar', 'mmol', 'mass', 'g', 'K')

VARIANTS = {
    # full information: every valid target is reachable
    'A': dict(ads='N2', T=77.355, ads_props=None, mat=dict(density=2.0, molar_mass=100.0), known_c='backend',
              inits=[INIT_A]),
    # adsorbate without backend or properties, material complete (D3 lives here)
    'B': dict(ads='c02-ads-bare', T=300.0, ads_props={}, mat=dict(density=2.0, molar_mass=100.0), known_c={},
              inits=[INIT_A, ('absolute', 'kPa', 'fraction', None, 'mass', 'g', 'K'),
                     ('absolute', 'kPa', 'percent', None, 'volume', 'cm3', '°C'),
                     ('relative', None, 'mass', 'mg', 'molar', 'mol', 'K')]),
    # partial user properties on both
    'C': dict(ads='c02-ads-partial', T=300.0, ads_props={'molar_mass': 30.0}, mat=dict(density=2.0),
              known_c={'M': 30.0}, inits=[INIT_A, ('absolute', 'torr', 'fraction', None, 'mass', 'kg', 'K')]),
    # a shipped adsorbate whose STORED molar mass (34.03) disagrees with its backend (52.02): every route must use one source
    'D': dict(ads='difluoromethane', T=250.0, ads_props=None, mat=dict(density=2.0, molar_mass=100.0), known_c='backend',
              inits=[INIT_A, ('absolute', 'kPa', 'mass', 'mg', 'mass', 'g', 'K'), ('relative', None, 'volume_gas', 'cm3', 'volume', 'cm3', 'K')]),
    # a user-defined vapour without backend whose saturation pressure is a STORED property (in Pa): relative pressure is reachable from every unit
    'F': dict(ads='c02-ads-stored-p0', T=300.0, ads_props={'molar_mass': 30.0, 'saturation_pressure': 54321.0}, mat=dict(density=2.0, molar_mass=100.0),
              known_c={'M': 30.0, 'ps': 54321.0}, inits=[INIT_A, ('absolute', 'kPa', 'molar', 'mmol', 'mass', 'g', 'K'), ('relative', None, 'mass', 'mg', 'mass', 'g', 'K'),
                                                         ('relative%', None, 'molar', 'mmol', 'mass', 'g', '°C')]),
    # super-critical adsorbate with a backend: relative pressure and condensed-phase volumes are impossible
    'E': dict(ads='N2', T=300.0, ads_props=None, mat=dict(density=2.0, molar_mass=100.0), known_c='supercritical',
              inits=[INIT_A, ('absolute', 'bar', 'percent', None, 'mass', 'g', '°C')]),
}

QUOT = dict(
    punits=['bar', 'Pa', 'torr'],
    lunits={'molar': ['mmol', 'cm3(STP)'], 'mass': ['g', 'mg'], 'volume_gas': ['cm3'], 'volume_liquid': ['cm3', 'L']},
    munits={'mass': ['g', 'kg'], 'volume': ['cm3', 'm3'], 'molar': ['mol', 'mmol']},
)
FULL = dict(
    punits=list(ru.P_UNITS),
    lunits={'molar': list(ru.MOLAR), 'mass': list(ru.MASS), 'volume_gas': list(ru.VOL), 'volume_liquid': list(ru.VOL)},
    munits={'mass': list(ru.MASS), 'volume': list(ru.VOL), 'molar': list(ru.MOLAR)},
)


def alphabet(space):
    ops = []
    for mode in [None, 'absolute', 'relative', 'relative%', 'bogus']:
        for u in [None] + space['punits'] + ['bogus']:
            ops.append(('convert_pressure', dict(mode_to=mode, unit_to=u)))
    lu = []
    for b in ('molar', 'mass', 'volume_gas', 'volume_liquid'):
        for u in space['lunits'][b]:
            if u not in lu:
                lu.append(u)
    for b in [None, 'molar', 'mass', 'volume_gas', 'volume_liquid', 'fraction', 'percent', 'bogus']:
        for u in [None] + lu + ['bogus']:
            ops.append(('convert_loading', dict(basis_to=b, unit_to=u)))
    mu = []
    for b in ('mass', 'volume', 'molar'):
        for u in space['munits'][b]:
            if u not in mu:
                mu.append(u)
    for b in [None, 'mass', 'volume', 'molar', 'bogus']:
        for u in [None] + mu + ['bogus']:
            ops.append(('convert_material', dict(basis_to=b, unit_to=u)))
    for u in [None, 'K', '°C', 'C', 'celsius', 'bogus']:
        ops.append(('convert_temperature', dict(unit_to=u)))
    # the optional reporting flag changes nothing but the log
    ops.append(('convert_pressure', dict(mode_to='relative', unit_to=None, verbose=True)))
    ops.append(('convert_loading', dict(basis_to='mass', unit_to=space['lunits']['mass'][0], verbose=True)))
    ops.append(('convert_material', dict(basis_to='volume', unit_to=space['munits']['volume'][0], verbose=True)))
    ops.append(('convert_temperature', dict(unit_to='°C', verbose=True)))
    ops.append(('convert', dict(pressure_mode='absolute', pressure_unit='Pa', loading_basis='mass', loading_unit='mg', material_basis='molar', material_unit='mmol', verbose=True)))
    ptar = [None, ('relative', None), ('absolute', 'Pa'), ('absolute', 'bogus')]
    mtar = [None, ('volume', 'cm3'), ('molar', 'mmol'), ('mass', 'bogus')]
    ltar = [None, ('mass', 'mg'), ('fraction', None), ('bogus', 'g')]
    for p, m, l in itertools.product(ptar, mtar, ltar):
        if p is None and m is None and l is None:
            continue
        kw = {}
        if p:
            kw.update(pressure_mode=p[0], pressure_unit=p[1])
        if m:
            kw.update(material_basis=m[0], material_unit=m[1])
        if l:
            kw.update(loading_basis=l[0], loading_unit=l[1])
        ops.append(('convert', kw))
    return ops


# --- per-process setup -----------------------------------------------------------

_CONST = {}


def setup_variant(vn):
    """Register the variant's adsorbate (idempotent) and return (constants, material dict, known-constant names)."""
    import pygaps
    if vn in _CONST:
        return _CONST[vn]
    v = VARIANTS[vn]
    if v['ads_props'] is not None:
        try:
            pygaps.Adsorbate.find(v['ads'])
        except Exception:
            pygaps.Adsorbate(v['ads'], store=True, **v['ads_props'])
    c = dict(FAKE)
    known = set()
    if v['known_c'] == 'backend':
        c = ru.ads_consts(pygaps.Adsorbate.find(v['ads']).backend_name, v['T'])
        known = set(c)
    elif v['known_c'] == 'supercritical':
        import CoolProp.CoolProp as CPP
        c['M'] = CPP.PropsSI('M', 'NITROGEN') * 1e3
        known = {'M'}
    else:
        c.update(v['known_c'])
        known = set(v['known_c'])
    m = dict(FAKE_M)
    m.update(v['mat'])
    _CONST[vn] = (c, m, known)
    return _CONST[vn]


def build(vn, labels, p, l):
    import pygaps
    v = VARIANTS[vn]
    df = pandas.DataFrame({'pressure': numpy.array(p, dtype=float), 'loading': numpy.array(l, dtype=float),
                           'branch': BRANCH, 'enth': ENTH, 'txt': TXT,
                           # a recorded saturation pressure (as AIF files carry it): a supplementary column like any other
                           'p0': [0.9, 0.9, 0.91, 0.91, 0.92, 0.92], 'pressure_saturation': [90000.0] * 6}, index=INDEX)
    mat = pygaps.Material('c02-mat-' + vn, **v['mat'])
    T = v['T'] if labels[6] == 'K' else v['T'] - 273.15
    return pygaps.PointIsotherm(isotherm_data=df, pressure_key='pressure', loading_key='loading', material=mat,
                                adsorbate=v['ads'], temperature=T, **dict(zip(KEYS, labels)), **META)


def getlab(iso):
    return tuple(getattr(iso, k) for k in KEYS)


def valid_labels(vn, lab):
    from pygaps.core.baseisotherm import BaseIsotherm
    o = core.call(BaseIsotherm, material='x', adsorbate=VARIANTS[vn]['ads'], temperature=1.0, **dict(zip(KEYS, lab)))
    return o.ok


_NORMAL = {}


def normal_form(vn, lab):
    """The labels an isotherm CREATED with these labels carries (the constructor's own spelling of the representation): labels left by a
    conversion must be that spelling, or two isotherms in the same representation would carry different labels (and different ids)."""
    k = (vn, lab)
    if k not in _NORMAL:
        from pygaps.core.baseisotherm import BaseIsotherm
        o = core.call(BaseIsotherm, material='x', adsorbate=VARIANTS[vn]['ads'], temperature=1.0, **dict(zip(KEYS, lab)))
        _NORMAL[k] = getlab(o.value) if o.ok else lab
    return _NORMAL[k]


def refdata(vn, init_lab, lab):
    """Original data of the variant converted directly to the labelled representation."""
    c, m, _ = setup_variant(vn)
    p0 = numpy.array(P0)
    l0 = numpy.array(L0)
    rp = ru.c_pressure(p0, init_lab[0], init_lab[1], lab[0], lab[1], c)
    rl = ru.full_loading(l0, init_lab[2], init_lab[3], init_lab[4], init_lab[5], lab[2], lab[3], lab[4], lab[5], c, m)
    return rp, rl


def argclass(v, lab):
    if v is None:
        return 'omitted'
    if v == 'bogus':
        return 'bogus'
    if v in lab:
        return 'current'
    return 'valid'


def make_sig(kind, vn, op, kw, lab):
    return {'check': kind, 'variant': vn, 'op': op,
            'args': {k: argclass(v, lab) for k, v in sorted(kw.items())},
            'loading_class': 'fractional' if lab[2] in ('fraction', 'percent') else 'physical'}


def unit_test(vn, init_lab, lab, p, l, op, kw, kind):
    v = VARIANTS[vn]
    lines = [
        "import logging, numpy, pandas, pygaps",
        "pygaps.logger.setLevel(logging.CRITICAL)",
    ]
    if v['ads_props'] is not None:
        lines.append(f"pygaps.Adsorbate({v['ads']!r}, store=True, **{v['ads_props']!r})")
    T = v['T'] if lab[6] == 'K' else v['T'] - 273.15
    lines += [
        f"df = pandas.DataFrame({{'pressure': {list(map(float, p))!r}, 'loading': {list(map(float, l))!r}, 'branch': {BRANCH!r}}})",
        f"iso = pygaps.PointIsotherm(isotherm_data=df, pressure_key='pressure', loading_key='loading', "
        f"material=pygaps.Material('m', **{v['mat']!r}), adsorbate={v['ads']!r}, temperature={T!r}, **{dict(zip(KEYS, lab))!r})",
        "before = (iso.units, iso.data_raw.copy())",
        "try:",
        f"    iso.{op}(**{kw!r}); raised = None",
        "except Exception as e:",
        "    raised = e",
        "print('raised:', repr(raised)); print('units after:', iso.units)",
        "print(iso.data_raw)",
        "from pygaps.core.baseisotherm import BaseIsotherm",
        f"# violation kind observed by the explorer: {kind}",
    ]
    if kind in ('invalid-labels', 'labels-not-a-representation'):
        lines += ["u = iso.units",
                  "assert u['pressure_mode'] != 'absolute' or u['pressure_unit'] is not None, 'pressure unit label erased'",
                  "assert u['loading_basis'] in ('fraction', 'percent') or u['loading_unit'] is not None, 'loading unit label erased'",
                  "assert u['material_unit'] is not None, 'material unit label erased'",
                  f"BaseIsotherm(material='m', adsorbate={v['ads']!r}, temperature=1, **u)"]
    elif kind == 'labels-not-normal':
        lines += [f"made = BaseIsotherm(material='m', adsorbate={v['ads']!r}, temperature=1, **iso.units)",
                  "assert made.units == iso.units, f'labels after the conversion {iso.units} differ from those of an isotherm created with them {made.units}'"]
    elif kind == 'refused-but-changed':
        lines += ["assert raised is not None",
                  "assert iso.units == before[0] and iso.data_raw.equals(before[1]), 'a refused conversion changed the isotherm'"]
    else:
        lines += [f"raise AssertionError('C02 {kind}: see the printed state; expected data are in the replay file')"]
    return "\n".join(lines) + "\n"


# --- the transition checker -----------------------------------------------------------

def expand_factory(space_name, vn):
    space = QUOT if space_name == 'quot' else FULL
    ops = alphabet(space)

    def in_space(lab):
        if lab[0] == 'absolute' and lab[1] not in space['punits']:
            return False
        if lab[2] in space['lunits'] and lab[3] not in space['lunits'][lab[2]]:
            return False
        if lab[4] in space['munits'] and lab[5] not in space['munits'][lab[4]]:
            return False
        return True

    def expand(snap):
        init_id, init_lab, lab, p, l = snap
        c, m, known = setup_variant(vn)
        out = {'succ': [], 'transitions': 0, 'viol': [], 'outcomes': collections.Counter()}
        seen_sig = set()

        def report(kind, op, kw, what, exp=None, obs=None):
            sig = make_sig(kind, vn, op, kw, lab)
            k = core.sig_key(sig)
            if k in seen_sig:
                return
            seen_sig.add(k)
            out['viol'].append(core.make_violation(
                sig, f'[{vn}] {op}({kw}) from {lab}: {what}',
                {'variant': vn, 'state_labels': lab, 'state_pressure': p, 'state_loading': l, 'op': op, 'kwargs': kw},
                exp, obs, unit_test(vn, init_lab, lab, p, l, op, kw, kind)))

        pm = (p[0] + p[1]) / 2
        lm = (l[0] + l[1]) / 2
        for op, kw in ops:
            # phase 1: the call on a freshly built isotherm (empty caches)
            iso0 = build(vn, lab, p, l)
            o0 = core.call(getattr(iso0, op), **kw)
            out['transitions'] += 1
            iso, o = iso0, o0
            if o0.ok and getlab(iso0) != lab:
                # phase 2: the same call on an isotherm whose two interpolator caches are filled (invariant 6);
                # the outcome of the conversion itself must not depend on the cache state
                iso = build(vn, lab, p, l)
                core.call(iso.loading_at, pm)
                core.call(iso.pressure_at, lm)
                o = core.call(getattr(iso, op), **kw)
                out['transitions'] += 1
                if not o.ok or getlab(iso) != getlab(iso0) or not iso.data_raw.equals(iso0.data_raw):
                    report('conversion-depends-on-cache-state', op, kw,
                           'the conversion gives a different result when the interpolator caches are filled',
                           {'labels': getlab(iso0)}, {'labels': getlab(iso), 'outcome': o.brief()})
                    continue
            nl = getlab(iso)
            np_ = iso.data_raw['pressure'].values
            nl_ = iso.data_raw['loading'].values
            okind = 'ok' if o.ok else ('refused' if core.is_pg(o.kind) else o.kind)
            out['outcomes'][(op, okind)] += 1
            # frame (invariant 5) — always
            frame_ok = (iso.data_raw['branch'].tolist() == BRANCH and iso.data_raw['txt'].tolist() == TXT
                        and iso.data_raw['enth'].tolist() == ENTH and list(iso.data_raw.index) == INDEX
                        and iso.data_raw['p0'].tolist() == [0.9, 0.9, 0.91, 0.91, 0.92, 0.92] and iso.data_raw['pressure_saturation'].tolist() == [90000.0] * 6
                        and iso.properties == META and list(iso.data_raw.columns) == ['pressure', 'loading', 'branch', 'enth', 'p0', 'pressure_saturation', 'txt'])
            if not frame_ok:
                report('frame-altered', op, kw, 'branch marks / extra columns / metadata / index changed')
            if not o.ok:
                # any exception is a refusal: the property constrains the state, not the error kind
                if o.kind == 'timeout':
                    report('timeout', op, kw, o.brief())
                if op != 'convert':
                    if nl != lab or not numpy.array_equal(np_, p) or not numpy.array_equal(nl_, l) \
                            or abs(iso.temperature - VARIANTS[vn]['T']) > 1e-9:
                        report('refused-but-changed', op, kw, f'refused ({o.kind}) but state changed: labels {nl}',
                               {'labels': lab, 'loading': l}, {'labels': nl, 'loading': nl_})
                        continue
                    # a refused call in the full-information variant must not name a complete valid target
                    if vn == 'A' and complete_valid_target(op, kw, lab):
                        report('refused-valid-target', op, kw, f'valid target refused: {o.brief()}')
                    continue
                else:
                    # differential: equal to the sequential single-quantity calls up to the first refusal
                    iso2 = build(vn, lab, p, l)
                    for sop, skw in convert_steps(kw):
                        so = core.call(getattr(iso2, sop), **skw)
                        if not so.ok:
                            break
                    if getlab(iso2) != nl or not numpy.array_equal(iso2.data_raw['pressure'].values, np_) \
                            or not numpy.array_equal(iso2.data_raw['loading'].values, nl_):
                        report('refused-convert-partial-effect', op, kw,
                               'state after refused convert() differs from the completed preceding steps',
                               {'labels': getlab(iso2)}, {'labels': nl})
                        continue
                    # fall through: the partially converted state must still be valid and consistent
            # validity (1)
            if not valid_labels(vn, nl):
                report('invalid-labels', op, kw, f'labels {nl} would be rejected by the constructor', 'valid labels', nl)
                continue
            if normal_form(vn, nl) != nl:
                report('labels-not-normal', op, kw, f'labels {nl} are not the labels of an isotherm created in that representation ({normal_form(vn, nl)})', normal_form(vn, nl), nl)
                continue
            # consistency (2)
            try:
                rp, rl = refdata(vn, init_lab, nl)
            except ru.NotARepresentation as e:
                report('labels-not-a-representation', op, kw, f'labels {nl} do not name a representation ({e})', None, nl)
                continue
            ep, el = core.relerr(np_, rp), core.relerr(nl_, rl)
            if ep > 5e-4 or el > 5e-4:
                report('data-inconsistent', op, kw,
                       f'data do not equal the original data converted to {nl} (rel dev p={ep:.3g}, n={el:.3g})',
                       {'pressure': rp, 'loading': rl}, {'pressure': np_, 'loading': nl_})
                continue
            T = VARIANTS[vn]['T']
            if abs(iso.temperature - T) > 1e-9 or abs(iso._temperature - (T if nl[6] == 'K' else T - 273.15)) > 1e-9:
                report('temperature-inconsistent', op, kw, f'temperature {iso._temperature} {nl[6]} is not {T} K')
                continue
            # target (3)
            if o.ok:
                bad = target_mismatch(op, kw, nl)
                if bad:
                    report('target-not-reached', op, kw, f'call succeeded but labels are {nl}: {bad}')
                    continue
                # no stale interpolation (6)
                if nl != lab:
                    q1 = core.call(iso.loading_at, (np_[0] + np_[1]) / 2)
                    q2 = core.call(iso.pressure_at, (nl_[0] + nl_[1]) / 2)
                    e1 = (nl_[0] + nl_[1]) / 2
                    e2 = (np_[0] + np_[1]) / 2
                    if not q1.ok or not q2.ok or core.relerr(q1.value, e1) > 1e-9 or core.relerr(q2.value, e2) > 1e-9:
                        report('stale-interpolation', op, kw,
                               'interpolation after the conversion does not use the converted data',
                               {'loading_at': e1, 'pressure_at': e2},
                               {'loading_at': q1.value if q1.ok else q1.brief(), 'pressure_at': q2.value if q2.ok else q2.brief()})
                        continue
            if in_space(nl):
                out['succ'].append(((op, kw), (init_id, init_lab, nl, np_.copy(), nl_.copy())))
        return out

    return expand


def convert_steps(kw):
    steps = []
    if kw.get('pressure_mode') or kw.get('pressure_unit'):
        steps.append(('convert_pressure', dict(mode_to=kw.get('pressure_mode'), unit_to=kw.get('pressure_unit'))))
    if kw.get('material_basis') or kw.get('material_unit'):
        steps.append(('convert_material', dict(basis_to=kw.get('material_basis'), unit_to=kw.get('material_unit'))))
    if kw.get('loading_basis') or kw.get('loading_unit'):
        steps.append(('convert_loading', dict(basis_to=kw.get('loading_basis'), unit_to=kw.get('loading_unit'))))
    return steps


def complete_valid_target(op, kw, lab):
    if op == 'convert_pressure':
        m, u = kw['mode_to'], kw['unit_to']
        return (m in ('relative', 'relative%') and u is None) or (m == 'absolute' and u in ru.P_UNITS)
    if op == 'convert_loading':
        b, u = kw['basis_to'], kw['unit_to']
        return (b in ('fraction', 'percent') and u is None) or (b in ru.LOADING_TABLE and u in ru.LOADING_TABLE[b])
    if op == 'convert_material':
        b, u = kw['basis_to'], kw['unit_to']
        return b in ru.MATERIAL_TABLE and u in ru.MATERIAL_TABLE[b]
    if op == 'convert_temperature':
        return kw['unit_to'] in ('K', '°C', 'C', 'celsius')
    return False


def target_mismatch(op, kw, nl):
    if op == 'convert':
        for sop, skw in convert_steps(kw):
            bad = target_mismatch(sop, skw, nl)
            if bad:
                return bad
        return None
    if op == 'convert_pressure':
        if kw['mode_to'] and nl[0] != kw['mode_to']:
            return f"mode {kw['mode_to']} requested"
        if kw['unit_to'] and nl[0] == 'absolute' and nl[1] != kw['unit_to']:
            return f"unit {kw['unit_to']} requested"
    if op == 'convert_loading':
        if kw['basis_to'] and nl[2] != kw['basis_to']:
            return f"basis {kw['basis_to']} requested"
        if kw['unit_to'] and nl[2] not in ('fraction', 'percent') and nl[3] != kw['unit_to']:
            return f"unit {kw['unit_to']} requested"
    if op == 'convert_material':
        if kw['basis_to'] and nl[4] != kw['basis_to']:
            return f"basis {kw['basis_to']} requested"
        if kw['unit_to'] and nl[5] != kw['unit_to']:
            return f"unit {kw['unit_to']} requested"
    if op == 'convert_temperature':
        if kw['unit_to'] and ru.norm_temp_unit(nl[6]) != ru.norm_temp_unit(kw['unit_to']):
            return f"unit {kw['unit_to']} requested"
    return None


def canon(snap):
    init_id, init_lab, lab, p, l = snap
    return (init_id, lab)


def expected_states(space):
    np_ = len(space['punits']) + 2
    nl = sum(len(v) for v in space['lunits'].values()) + 2
    nm = sum(len(v) for v in space['munits'].values())
    return np_ * nl * nm * 2


# --- histories on ONE live object (hidden state accumulated along a path) and objects sharing data -----------------------

LIVE_OPS = [
    ('convert_loading', dict(basis_to='molar', unit_to='mmol')), ('convert_loading', dict(basis_to='mass', unit_to='mg')),
    ('convert_loading', dict(basis_to='fraction')), ('convert_loading', dict(basis_to='percent')),
    ('convert_loading', dict(basis_to='volume_liquid', unit_to='cm3')), ('convert_loading', dict(unit_to='mol')),
    ('convert_material', dict(unit_to='kg')), ('convert_material', dict(unit_to='g')), ('convert_material', dict(basis_to='volume', unit_to='cm3')),
    ('convert_material', dict(basis_to='molar', unit_to='mol')), ('convert_material', dict(basis_to='mass', unit_to='g')),
    ('convert_pressure', dict(mode_to='relative')), ('convert_pressure', dict(mode_to='absolute', unit_to='kPa')),
    ('convert', dict(loading_basis='molar', loading_unit='mmol', material_basis='mass', material_unit='kg')),
]


POSITIONAL = [
    # documented order: convert(pressure_mode, pressure_unit, loading_basis, loading_unit, material_basis, material_unit)
    (('absolute', 'kPa', 'mass', 'mg'), dict(pressure_mode='absolute', pressure_unit='kPa', loading_basis='mass', loading_unit='mg')),
    (('relative', None, 'molar', 'mol', 'volume', 'cm3'), dict(pressure_mode='relative', loading_basis='molar', loading_unit='mol', material_basis='volume', material_unit='cm3')),
    ((None, None, 'fraction'), dict(loading_basis='fraction')),
    ((None, None, None, None, 'mass', 'kg'), dict(material_basis='mass', material_unit='kg')),
]
POSITIONAL_SINGLE = [('convert_pressure', ('absolute', 'torr'), dict(mode_to='absolute', unit_to='torr')), ('convert_loading', ('mass', 'g'), dict(basis_to='mass', unit_to='g')),
                     ('convert_material', ('molar', 'mmol'), dict(basis_to='molar', unit_to='mmol')), ('convert_temperature', ('°C',), dict(unit_to='°C'))]


def check_positional(ctx):
    """Arguments given by position mean what the documented signature says: the result equals the keyword call."""
    setup_variant('A')
    ev = nt = 0
    for init in (INIT_A, ('absolute', 'kPa', 'percent', None, 'volume', 'cm3', 'K')):
        for op, args, kw in [('convert', a, k) for a, k in POSITIONAL] + POSITIONAL_SINGLE:
            a_, b_ = build('A', init, P0, L0), build('A', init, P0, L0)
            oa, ob = core.call(getattr(a_, op), *args), core.call(getattr(b_, op), **kw)
            ev += 1
            nt += 1
            same = oa.ok == ob.ok and getlab(a_) == getlab(b_) and numpy.allclose(a_.data_raw['pressure'].values, b_.data_raw['pressure'].values, rtol=1e-12) \
                and numpy.allclose(a_.data_raw['loading'].values, b_.data_raw['loading'].values, rtol=1e-12)
            if not same:
                ctx.violate(core.make_violation({'check': 'positional-arguments', 'op': op},
                                                f'{op}{args} from {init} gives labels {getlab(a_)} ({oa.brief()[:60]}) but the same call by keyword {kw} gives {getlab(b_)} ({ob.brief()[:60]})',
                                                {'op': op, 'args': list(args), 'kwargs': kw}))
    ctx.add('positional_arguments', ev, nt)


def work_live(arg):
    """Every history in `hists` applied step by step to one live isotherm; after each step labels and data against the reference."""
    vn, init_lab, hists = arg
    setup_variant(vn)
    out = {'ev': 0, 'nt': 0, 'viol': []}
    seen = set()
    for h in hists:
        iso = build(vn, init_lab, P0, L0)
        done = []
        for oi in h:
            op, kw = LIVE_OPS[oi]
            lab0 = getlab(iso)
            o = core.call(getattr(iso, op), **kw)
            out['ev'] += 1
            done.append(f'{op}({kw})')
            lab = getlab(iso)
            if not o.ok:
                # a refusal is legitimate only for impossible targets; none of LIVE_OPS is impossible for variant A, except a unit
                # argument without basis while the loading is fractional
                if lab != lab0 or not numpy.allclose(iso.data_raw['loading'].values, refdata(vn, init_lab, lab0)[1], rtol=1e-9):
                    pass
                break
            out['nt'] += 1
            rp, rl = refdata(vn, init_lab, lab)
            bad = None
            if not valid_labels(vn, lab):
                bad = f'labels {lab} are not a representation'
            elif core.relerr(iso.data_raw['pressure'].values, rp) > 1e-9:
                bad = f'pressure data {iso.data_raw["pressure"].values[:3]} are not the original data in {lab[:2]} ({rp[:3]})'
            elif core.relerr(iso.data_raw['loading'].values, rl) > 1e-9:
                bad = f'loading data {iso.data_raw["loading"].values[:3]} are not the original data in {lab[2:6]} ({rl[:3]})'
            if bad:
                sig = {'check': 'live-history', 'last_op': op, 'args': sorted(kw), 'length': len(done)}
                k = core.sig_key(sig)
                if k not in seen:
                    seen.add(k)
                    out['viol'].append(core.make_violation(sig, f'[{vn}] after {done} on ONE isotherm object (from {init_lab}): {bad}',
                                                           {'variant': vn, 'initial': init_lab, 'history': done}, None, None))
                break
    return out


def check_live_histories(ctx):
    depth = 3 if ctx.quick else 4
    n = len(LIVE_OPS)
    inits = [INIT_A, ('absolute', 'kPa', 'percent', None, 'volume', 'cm3', 'K'), ('relative', None, 'mass', 'mg', 'molar', 'mol', 'K')]
    hists = [h for d in range(1, depth + 1) for h in itertools.product(range(n), repeat=d)]
    # a history whose prefix is another history is covered by the longer one (every step is checked): keep the maximal ones
    hists = [h for h in hists if len(h) == depth]
    jobs = []
    for init in (inits if not ctx.quick else inits[:2]):
        for i in range(0, len(hists), 200):
            jobs.append(('A', init, hists[i:i + 200]))
    res = core.pmap(work_live, jobs, chunk=1)
    for r in res:
        ctx.add('live_object_histories', r['ev'], r['nt'])
        ctx.violate(r['viol'])
    ctx.cov['live_histories'] = {'operations': n, 'length': depth, 'histories_per_initial_state': len(hists)}


def check_aliasing(ctx):
    """A second isotherm built on the data of the first (or both on the user's frame): converting one leaves the other, and the frame, alone."""
    import pygaps
    setup_variant('A')
    ev = nt = 0
    def frame():
        return pandas.DataFrame({'pressure': numpy.array(P0, dtype=float), 'loading': numpy.array(L0, dtype=float), 'branch': BRANCH, 'enth': ENTH})
    def mk(df):
        return pygaps.PointIsotherm(isotherm_data=df, pressure_key='pressure', loading_key='loading', material=pygaps.Material('c02-mat-A', **VARIANTS['A']['mat']),
                                    adsorbate='N2', temperature=77.355, **dict(zip(KEYS, INIT_A)))
    builders = {
        'two isotherms on one user frame (canonical column order)': lambda: (lambda f: (mk(f), mk(f), f))(frame()),
        'from_isotherm(iso, isotherm_data=iso.data())': lambda: (lambda a: (a, pygaps.PointIsotherm.from_isotherm(a, isotherm_data=a.data(), pressure_key='pressure', loading_key='loading'), None))(mk(frame())),
        'from_isotherm(iso, isotherm_data=iso.data_raw)': lambda: (lambda a: (a, pygaps.PointIsotherm.from_isotherm(a, isotherm_data=a.data_raw, pressure_key='pressure', loading_key='loading'), None))(mk(frame())),
        'PointIsotherm(isotherm_data=iso.data_raw, **iso.to_dict())': lambda: (lambda a: (a, pygaps.PointIsotherm(isotherm_data=a.data_raw, pressure_key='pressure', loading_key='loading', **a.to_dict()), None))(mk(frame())),
    }
    for bname, b in builders.items():
        for op, kw in LIVE_OPS:
            o = core.call(b)
            if not o.ok:
                raise core.HarnessError(f'cannot build aliasing case {bname}: {o.brief()}')
            first, second, fr = o.value
            keep = first.data_raw.copy(deep=True)
            keep_lab = getlab(first)
            keep_fr = fr.copy(deep=True) if fr is not None else None
            r = core.call(getattr(second, op), **kw)
            ev += 1
            if not r.ok:
                continue
            nt += 1
            if getlab(first) != keep_lab or not first.data_raw.equals(keep):
                ctx.violate(core.make_violation({'check': 'conversion-changes-another-isotherm', 'built': bname.split('(')[0], 'op': op},
                                                f'{op}({kw}) on a second isotherm ({bname}) changed the stored data of the first, never converted one: '
                                                f'loading {list(keep["loading"][:3])} -> {list(first.data_raw["loading"][:3])} with labels still {keep_lab[:6]}',
                                                {'built': bname, 'op': op, 'kw': kw}))
            if fr is not None and not fr.equals(keep_fr):
                ctx.violate(core.make_violation({'check': 'conversion-changes-user-frame', 'op': op},
                                                f'{op}({kw}) on an isotherm rewrote the DataFrame the user built it from', {'built': bname, 'op': op, 'kw': kw}))
    ctx.add('objects_sharing_data', ev, nt)


def run(ctx):
    space_name = 'quot' if ctx.quick else 'full'
    space = QUOT if ctx.quick else FULL
    total_states = total_tr = 0
    outcomes = collections.Counter()
    depth = 0
    per_variant = {}
    for vn in (['A', 'B', 'C', 'D', 'E', 'F']):
        # variants other than A always use the quotient alphabet (their reachable graphs are small)
        sn = space_name if vn == 'A' else 'quot'
        setup_variant(vn)
        inits = [(i, lab, lab, numpy.array(P0), numpy.array(L0)) for i, lab in enumerate(VARIANTS[vn]['inits'])]
        # quick: the missing-data variants are explored to depth 2 from their initial states; thorough: to fixpoint
        md = 2 if (ctx.quick and vn != 'A') else None
        res = engine_states.explore(inits, expand_factory(sn, vn), canon, max_depth=md)
        ctx.violate(res.violations)
        total_states += res.states
        total_tr += res.transitions
        depth = max(depth, res.max_depth)
        outcomes.update({f'{vn}:{op}:{k}': n for (op, k), n in res.outcomes.items()})
        per_variant[vn] = {'states': res.states, 'transitions': res.transitions, 'max_depth': res.max_depth,
                           'levels': res.level_sizes}
        if vn == 'A':
            exp = expected_states(space)
            # every representation of the (quotient) label space must have been reached and expanded
            if not res.violations:
                ctx.require('variant_A_states', res.states, exp)
            if res.states > exp:
                raise core.HarnessError(f'more states ({res.states}) than representations ({exp})')
            # sample traces: history to the deepest states
            deep = sorted(res.depth, key=lambda k: -res.depth[k])[:3]
            for k in deep:
                ctx.sample({'state': k[1], 'shortest_history': res.history(k)})
    # vacuity: every operation must have both succeeded and been refused somewhere
    for op in ('convert_pressure', 'convert_loading', 'convert_material', 'convert_temperature', 'convert'):
        for kind in ('ok', 'refused'):
            n = sum(v for k, v in outcomes.items() if k.split(':')[1] == op and k.split(':')[2] == kind)
            if n == 0 and not ctx.violations:
                raise core.HarnessError(f'vacuous: {op} never had outcome {kind}')
    ctx.cov.update(states=total_states, transitions=total_tr, traces_validated_against_impl=total_tr, max_depth=depth,
                   per_variant=per_variant, outcomes=dict(outcomes),
                   alphabet_size=len(alphabet(space)), exhaustive=True)
    ctx.cov['evaluations'] = total_tr
    ctx.cov['distinct_nontrivial'] = sum(v for k, v in outcomes.items() if k.split(':')[2] == 'ok')
    check_live_histories(ctx)
    check_aliasing(ctx)
    check_positional(ctx)
    ctx.cov['rule'] = ('BFS to fixpoint over the reachable label states of a real PointIsotherm; every alphabet operation '
                       '(convert_pressure/loading/material/temperature/convert with omitted, current, valid, bogus arguments) is '
                       'executed from every state on a rebuilt isotherm with filled interpolator caches. Non-trivial = the call '
                       'succeeded (state changed or confirmed).')
    ctx.assumptions += [
        'one data set with both branches, numeric+text extra columns, non-default index, five metadata entries (conversions are pointwise)',
        'quick tier: quotient by unit classes (3 pressure units, 7 loading units, 6 material units); thorough: all 10x27x19x2 states',
        'variants B, C, E (missing / partial / super-critical thermodynamic data) always use the quotient alphabet',
    ]
    ctx.sample({'operation': 'convert_material', 'kwargs': {'basis_to': 'molar', 'unit_to': 'mol'},
                'checked': ['labels valid', 'data = ref(original data)', 'target reached', 'frame', 'no stale interpolation']})
