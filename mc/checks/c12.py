"""C12 — model fitting is self-consistent (DESIGN §4 C12; engine E2).

Exact data: 10 well-posed models x generating parameter vectors x sampling grids -> the fitted curve reproduces the data.
Error identity: 16 models x 4 deterministic noisy data sets -> reported rmse == recomputed rmse (Virial: linearised definition).
Best-of-list: every 2- and 3-element sub-list of the guess models (+ lists with a failing candidate) x 3 data sets.
Bounds, guesses, branch isolation, from_modelisotherm + refit, unit covariance, fit sequences on one process.
"""
import itertools
import math

import numpy

from mc import core
from mc import modlat as ml
from mc import ref_units as ru

LEVEL = 'exploration'

WELL_POSED = ['Henry', 'Langmuir', 'DSLangmuir', 'BET', 'Freundlich', 'DR', 'DA', 'TemkinApprox', 'Toth', 'JensenSeaton']
T = 77.355
U = dict(pressure_mode='absolute', pressure_unit='bar', loading_basis='molar', loading_unit='mmol', material_basis='mass', material_unit='g',
         temperature_unit='K')
UREL = dict(U, pressure_mode='relative', pressure_unit=None)

GEN = {
    'Henry': [{'K': 2.5}, {'K': 0.04}],
    'Langmuir': [{'K': 8.0, 'n_m': 4.5}, {'K': 0.6, 'n_m': 1.2}, {'K': 40.0, 'n_m': 9.0}],
    'DSLangmuir': [{'n_m1': 2.0, 'K1': 30.0, 'n_m2': 3.0, 'K2': 0.8}, {'n_m1': 1.0, 'K1': 12.0, 'n_m2': 4.0, 'K2': 0.3}],
    'BET': [{'n_m': 3.0, 'C': 80.0, 'N': 0.9}, {'n_m': 1.5, 'C': 15.0, 'N': 0.7}],
    'Freundlich': [{'K': 2.0, 'm': 2.5}, {'K': 0.7, 'm': 1.4}],
    'DR': [{'n_m': 6.0, 'e': 2500.0}, {'n_m': 2.0, 'e': 1200.0}],
    'DA': [{'n_m': 6.0, 'e': 2500.0, 'm': 2.2}, {'n_m': 3.0, 'e': 1500.0, 'm': 1.5}],
    'TemkinApprox': [{'n_m': 4.0, 'K': 5.0, 'tht': 0.4}, {'n_m': 2.0, 'K': 1.5, 'tht': 0.1}],
    'Toth': [{'n_m': 5.0, 'K': 12.0, 't': 0.7}, {'n_m': 3.0, 'K': 2.0, 't': 1.3}],
    'JensenSeaton': [{'K': 10.0, 'a': 4.0, 'b': 0.1, 'c': 1.2}, {'K': 3.0, 'a': 2.0, 'b': 0.05, 'c': 0.8}],
}


def grid(name, q, n, spacing):
    hi = {'BET': 0.85 / q.get('N', 1), 'DR': 0.95, 'DA': 0.95}.get(name, 12.0 / q.get('K', q.get('K1', 1.0)))
    if name == 'JensenSeaton':
        hi = 8.0 * q['a'] / q['K']
    if name in ('Freundlich', 'Henry'):
        hi = 5.0
    lo = hi * 2e-3
    if spacing == 'log':
        return numpy.geomspace(lo, hi, n)
    return numpy.linspace(lo, hi, n)


def units_for(name):
    return UREL if name in ('DR', 'DA', 'BET') else U


def fit(name, p, n, **kw):
    import pygaps
    return pygaps.ModelIsotherm(pressure=p, loading=n, model=name, material='c12', adsorbate='N2', temperature=T, **units_for(name), **kw)


def recomputed_rmse(iso, p, n):
    m = iso.model
    p = numpy.asarray(p, dtype=float)
    n = numpy.asarray(n, dtype=float)
    if m.name == 'Virial':
        keep = (p > 0) & (n > 0)
        p, n = p[keep], n[keep]
        r = m.params['C'] * n ** 3 + m.params['B'] * n ** 2 + m.params['A'] * n - math.log(m.params['K']) - numpy.log(p / n)
        return float(numpy.sqrt(numpy.sum(r ** 2) / len(n)))
    if m.calculates == 'loading':
        r = numpy.asarray(m.loading(p), dtype=float) - n
        rng = n.max() - n.min()
    else:
        r = numpy.asarray(m.pressure(n), dtype=float) - p
        rng = p.max() - p.min()
    return float(numpy.sqrt(numpy.sum(r ** 2) / len(n)) / rng)


def noisy_sets(scale):
    sets = []
    p = numpy.geomspace(0.01, 0.9, 18)
    for k, (a, b) in enumerate(((5.0, 6.0), (3.0, 20.0), (8.0, 1.5), (2.0, 60.0))):
        base = a * b * p / (1 + b * p) * scale
        noise = 1 + 0.03 * numpy.sin(7.0 * numpy.arange(len(p)) + k)
        n = numpy.maximum.accumulate(base * noise)        # keep it increasing
        sets.append((p, n))
    return sets


def work_exact(arg):
    name, q, npts, spacing, scale = arg
    out = {'ev': 0, 'nt': 0, 'viol': [], 'noreturn': 0, 'worst': 0.0}
    qq = {k: (v * scale if k in ('K', 'K1', 'K2', 'e', 'C') else v) for k, v in q.items()}   # lattice phase acts on the affinity-type parameters
    q = qq
    p = grid(name, qq, npts, spacing)
    n = ml.ref_loading(name, qq, p, T)
    o = core.call(fit, name, p, n)
    out['ev'] += 1
    if not o.ok:
        if o.kind == 'CalculationError':
            out['noreturn'] += 1
        else:
            out['viol'].append(core.make_violation({'check': 'fit-raises', 'model': name, 'kind': o.kind}, f'fit of exact {name}{q} data ({npts} {spacing} points) {o.brief()}',
                                                   {'model': name, 'params': q}))
        return out
    iso = o.value
    pred = core.call(iso.model.loading, p)
    out['nt'] += 1
    if not pred.ok:
        out['viol'].append(core.make_violation({'check': 'fitted-model-raises', 'model': name}, f'{name}: fitted model cannot be evaluated: {pred.brief()}', {'model': name}))
        return out
    e = float(numpy.max(numpy.abs(numpy.asarray(pred.value) - n) / numpy.maximum(numpy.abs(n), 1e-300)))
    out['worst'] = e
    if e > 1e-5:
        out['viol'].append(core.make_violation(
            {'check': 'exact-data-not-reproduced', 'model': name},
            f'{name} fitted to data generated exactly from {name}{q} ({npts} {spacing} points) deviates by up to {e:.3g} (fitted {iso.model.params}, rmse {iso.model.rmse:.3g})',
            {'model': name, 'generating': q, 'points': npts, 'spacing': spacing}, q, iso.model.params))
    # reported error must be the actual one
    r = recomputed_rmse(iso, p, n)
    if abs(r - iso.model.rmse) > 1e-10 * max(r, 1e-300) + 1e-15:
        out['viol'].append(core.make_violation({'check': 'rmse-identity', 'model': name},
                                               f'{name}: reported rmse {iso.model.rmse:.12g} but the recomputed normalised rms deviation is {r:.12g}', {'model': name}, r, iso.model.rmse))
    # bounds in force
    for k, (lo, hi) in iso.model.param_bounds.items():
        if not (lo - 1e-12 <= iso.model.params[k] <= hi + 1e-12):
            out['viol'].append(core.make_violation({'check': 'parameter-outside-bounds', 'model': name}, f'{name}: fitted {k}={iso.model.params[k]} outside {lo, hi}', {'model': name}))
    # the optimiser's budget (documented pass-through): a fit that runs out of evaluations either refuses or has reproduced the data
    if spacing == 'log' or npts <= 12:
        for budget in BUDGETS:
            ob = core.call(fit, name, p, n, optimization_params={'max_nfev': budget})
            out['ev'] += 1
            if not ob.ok:
                if ob.kind != 'CalculationError':
                    out['viol'].append(core.make_violation({'check': 'fit-raises', 'model': name, 'kind': ob.kind, 'budget': 'limited'},
                                                           f'fit of exact {name}{q} data with max_nfev={budget} {ob.brief()}', {'model': name, 'params': q, 'max_nfev': budget}))
                out['budget_refused'] = out.get('budget_refused', 0) + 1
                continue
            out['nt'] += 1
            predb = core.call(ob.value.model.loading, p)
            eb = float(numpy.max(numpy.abs(numpy.asarray(predb.value) - n) / numpy.maximum(numpy.abs(n), 1e-300))) if predb.ok else float('inf')
            rb = recomputed_rmse(ob.value, p, n) if predb.ok else float('nan')
            if eb > 1e-5:
                out['viol'].append(core.make_violation(
                    {'check': 'exact-data-not-reproduced', 'model': name, 'budget': 'limited'},
                    f'{name} fitted to exact {name}{q} data with max_nfev={budget} returns normally but deviates by up to {eb:.3g} (fitted {ob.value.model.params}); '
                    f'with the default budget the data are reproduced to {e:.3g}', {'model': name, 'generating': q, 'max_nfev': budget}, q, ob.value.model.params))
            elif abs(rb - ob.value.model.rmse) > 1e-10 * max(rb, 1e-300) + 1e-15:
                out['viol'].append(core.make_violation({'check': 'rmse-identity', 'model': name, 'budget': 'limited'},
                                                       f'{name} (max_nfev={budget}): reported rmse {ob.value.model.rmse:.12g}, recomputed {rb:.12g}', {'model': name}, rb, ob.value.model.rmse))
    # verbose=True (log lines, a graph of the fit) changes nothing in the fitted model: parameters, reported error, error identity
    if npts <= 12:
        import matplotlib
        matplotlib.use('Agg')
        import matplotlib.pyplot as plt
        ov = core.call(fit, name, p, n, verbose=True)
        plt.close('all')
        out['ev'] += 1
        if ov.ok:
            out['nt'] += 1
            rv = recomputed_rmse(ov.value, p, n)
            same = all(abs(ov.value.model.params[k] - iso.model.params[k]) <= 1e-12 * max(1.0, abs(iso.model.params[k])) for k in iso.model.params)
            if not same or abs(ov.value.model.rmse - iso.model.rmse) > 1e-12 * max(iso.model.rmse, 1e-300) + 1e-15 or abs(rv - ov.value.model.rmse) > 1e-10 * max(rv, 1e-300) + 1e-15:
                out['viol'].append(core.make_violation({'check': 'verbose-changes-the-fit', 'model': name},
                                                       f'{name} fitted with verbose=True: parameters {ov.value.model.params}, reported rmse {ov.value.model.rmse:.6g} (recomputed {rv:.6g}); '
                                                       f'with verbose=False: {iso.model.params}, rmse {iso.model.rmse:.6g}', {'model': name}, iso.model.rmse, ov.value.model.rmse))
        else:
            out['viol'].append(core.make_violation({'check': 'verbose-changes-the-fit', 'model': name, 'what': 'raises'}, f'{name} fitted with verbose=True {ov.brief()[:200]}', {'model': name}))
    return out


BUDGETS = (1, 2, 3, 6, 12, 40)


def work_noisy(arg):
    name, k, scale = arg[:3]
    origin = len(arg) > 3 and arg[3]
    opt = arg[4] if len(arg) > 4 else None
    out = {'ev': 0, 'nt': 0, 'viol': [], 'noreturn': 0}
    p, n = noisy_sets(scale)[k]
    if origin:      # the measured (0, 0) starting point in the data
        p, n = numpy.concatenate([[0.0], p]), numpy.concatenate([[0.0], n])
    kw = {}
    if opt:
        kw['optimization_params'] = dict(opt)
    o = core.call(fit, name, p, n, **kw)
    if name == 'Virial' and not o.ok:
        kw['optimization_params'] = {'add_point': True}
        o = core.call(fit, name, p, n, **kw)
    out['ev'] += 1
    if not o.ok:
        out['noreturn'] += 1
        if o.kind != 'CalculationError':
            out['nonpg'] = o.brief()
        return out
    iso = o.value
    if name == 'Virial' and kw:
        return out       # with an added point the data of the fit are not the user's: identity not defined
    r = core.call(recomputed_rmse, iso, p, n)
    out['nt'] += 1
    if not r.ok:
        return out
    if abs(r.value - iso.model.rmse) > 1e-9 * max(r.value, 1e-300):
        out['viol'].append(core.make_violation({'check': 'rmse-identity', 'model': name},
                                               f'{name} on noisy data set {k}{" with the (0, 0) point" if origin else ""}: reported rmse {iso.model.rmse:.12g}, recomputed {r.value:.12g}', {'model': name, 'data_set': k, 'origin': bool(origin), 'optimization_params': opt},
                                               r.value, iso.model.rmse))
    for key, (lo, hi) in iso.model.param_bounds.items():
        if not (lo - 1e-12 <= iso.model.params[key] <= hi + 1e-12):
            out['viol'].append(core.make_violation({'check': 'parameter-outside-bounds', 'model': name}, f'{name}: fitted {key}={iso.model.params[key]} outside {lo, hi}', {'model': name}))
    return out


def work_guess(arg):
    import pygaps
    models, k, scale = arg
    out = {'ev': 0, 'nt': 0, 'viol': []}
    p, n = noisy_sets(scale)[k]
    singles = {}
    for m in models:
        o = core.call(fit, m, p, n)
        if o.ok:
            singles[m] = o.value.model.rmse
    o = core.call(pygaps.ModelIsotherm.guess, pressure=p, loading=n, models=list(models), material='c12', adsorbate='N2', temperature=T, **U)
    out['ev'] += 1
    if not singles:
        return out
    out['nt'] += 1
    best = min(singles, key=singles.get)
    if not o.ok:
        out['viol'].append(core.make_violation({'check': 'guess-raises', 'kind': o.kind}, f'guess({list(models)}) on data set {k} {o.brief()} although {sorted(singles)} fit', {'models': models}))
        return out
    got = o.value.model
    if got.name not in singles or abs(got.rmse - singles[best]) > 1e-9 * max(singles[best], 1e-300):
        out['viol'].append(core.make_violation(
            {'check': 'guess-not-best', 'failing_candidate_in_list': len(singles) < len(models)},
            f'guess({list(models)}) on data set {k} returned {got.name} (rmse {got.rmse:.6g}) but the smallest error among the converged fits is {best} ({singles[best]:.6g}); all: {singles}',
            {'models': models, 'data_set': k}, best, got.name))
    return out


def check_misc(ctx):
    import pygaps
    import pandas
    ev = nt = 0
    scale = ctx.scale
    # --- user bounds and guesses
    p = numpy.geomspace(0.01, 2.0, 25)
    n = ml.ref_loading('Langmuir', {'K': 6.0, 'n_m': 4.0}, p) * scale
    for bounds, tag in (({'K': (1.0, 20.0), 'n_m': (1.0 * scale, 10.0 * scale)}, 'around'), ({'K': (8.0, 20.0), 'n_m': (0.5 * scale, 3.0 * scale)}, 'excluding')):
        o = core.call(fit, 'Langmuir', p, n, param_bounds=bounds)
        ev += 1
        if o.ok:
            nt += 1
            for k, (lo, hi) in bounds.items():
                if not (lo - 1e-12 <= o.value.model.params[k] <= hi + 1e-12):
                    ctx.violate(core.make_violation({'check': 'user-bounds-not-respected', 'bounds': tag}, f'Langmuir with user bounds {bounds}: fitted {k}={o.value.model.params[k]}', {'bounds': bounds}))
            if tag == 'around' and core.relerr(o.value.model.loading(p), n) > 1e-6:
                ctx.violate(core.make_violation({'check': 'exact-data-not-reproduced', 'model': 'Langmuir', 'with': 'user bounds'}, f'fit with bounds around the generator does not reproduce the data', {'bounds': bounds}))
    # models with interchangeable sites / terms: bounds that DIFFER between the sites, generators in both site orders
    pw = numpy.geomspace(0.005, 20.0, 40)
    for mname, gens, bnd in (
            ('DSLangmuir', [{'n_m1': 2.0, 'K1': 0.5, 'n_m2': 6.0, 'K2': 8.0}, {'n_m1': 1.0, 'K1': 1.5, 'n_m2': 8.0, 'K2': 15.0}],
             {'n_m1': (0.0, 3.0), 'K1': (0.0, 2.0), 'n_m2': (3.0, 10.0), 'K2': (2.0, 20.0)}),
            ('DSLangmuir', [{'n_m1': 6.0, 'K1': 8.0, 'n_m2': 2.0, 'K2': 0.5}],
             {'n_m1': (3.0, 10.0), 'K1': (2.0, 20.0), 'n_m2': (0.0, 3.0), 'K2': (0.0, 2.0)}),
            ('TSLangmuir', [{'n_m1': 1.0, 'K1': 0.3, 'n_m2': 2.0, 'K2': 3.0, 'n_m3': 4.0, 'K3': 30.0}],
             {'n_m1': (0.0, 1.5), 'K1': (0.0, 1.0), 'n_m2': (1.5, 3.0), 'K2': (1.0, 10.0), 'n_m3': (3.0, 6.0), 'K3': (10.0, 100.0)})):
        for gen in gens:
            nn = ml.ref_loading(mname, gen, pw)
            ob = core.call(fit, mname, pw, nn, param_bounds=bnd)
            ev += 1
            if not ob.ok:
                continue
            nt += 1
            outside = {k: ob.value.model.params[k] for k, (lo, hi) in bnd.items() if not (lo - 1e-9 <= ob.value.model.params[k] <= hi + 1e-9)}
            if outside:
                ctx.violate(core.make_violation({'check': 'user-bounds-not-respected', 'bounds': 'different per site', 'model': mname},
                                                f'{mname} fitted to data of {gen} with bounds {bnd}: fitted parameters {outside} lie outside their bounds', {'bounds': bnd, 'generator': gen}))
            elif core.relerr(ob.value.model.loading(pw), nn) > 1e-5:
                ctx.violate(core.make_violation({'check': 'exact-data-not-reproduced', 'model': mname, 'with': 'bounds different per site'},
                                                f'{mname} with per-site bounds around the generator {gen} does not reproduce the data (fitted {ob.value.model.params})', {'bounds': bnd}))
    # the bounds are a mapping: the order in which the user writes the keys cannot matter (active bounds, every key order)
    for mname, gen, bnd in (('Langmuir', {'K': 6.0, 'n_m': 4.0}, {'K': (0.5, 100.0), 'n_m': (0.2, 3.2)}),
                            ('Toth', {'n_m': 5.0, 'K': 12.0, 't': 0.7}, {'n_m': (1.0, 4.0), 'K': (0.5, 200.0), 't': (0.3, 1.5)}),
                            ('DSLangmuir', {'n_m1': 2.0, 'K1': 20.0, 'n_m2': 3.0, 'K2': 0.8}, {'n_m1': (0.1, 1.5), 'K1': (1.0, 300.0), 'n_m2': (0.1, 9.0), 'K2': (0.01, 5.0)})):
        nn = ml.ref_loading(mname, gen, p)
        results = {}
        for order in itertools.permutations(bnd):
            ob = core.call(fit, mname, p, nn, param_bounds={kk: bnd[kk] for kk in order})
            ev += 1
            if not ob.ok:
                results[order] = None
                continue
            nt += 1
            results[order] = dict(ob.value.model.params)
            for kk, (lo, hi) in bnd.items():
                if not (lo - 1e-9 <= ob.value.model.params[kk] <= hi + 1e-9):
                    ctx.violate(core.make_violation({'check': 'user-bounds-not-respected', 'bounds': 'key order', 'model': mname},
                                                    f'{mname} with user bounds written in the order {list(order)} ({bnd}): fitted {kk}={ob.value.model.params[kk]} outside {lo, hi}',
                                                    {'bounds': bnd, 'order': list(order)}, (lo, hi), ob.value.model.params[kk]))
        conv = [r for r in results.values() if r is not None]
        if conv and (len(conv) != len(results) or any(core.relerr([r[kk] for kk in bnd], [conv[0][kk] for kk in bnd]) > 1e-6 for r in conv)):
            ctx.violate(core.make_violation({'check': 'bounds-key-order-matters', 'model': mname},
                                            f'{mname}: the fit depends on the order of the keys of param_bounds: {core.short(results, 300)}', {'bounds': bnd}))
    o = core.call(fit, 'Toth', p, ml.ref_loading('Toth', {'n_m': 5.0, 'K': 12.0, 't': 0.7}, p), param_guess={'n_m': 4.0, 'K': 9.0, 't': 1.0})
    ev += 1
    if o.ok:
        nt += 1
        if core.relerr(o.value.model.loading(p), ml.ref_loading('Toth', {'n_m': 5.0, 'K': 12.0, 't': 0.7}, p)) > 1e-6:
            ctx.violate(core.make_violation({'check': 'exact-data-not-reproduced', 'model': 'Toth', 'with': 'user guess'}, 'Toth with a user guess does not reproduce exact data', {}))
    # --- a fit sequence in one process: bounded fit, then plain fit of the same model type
    first = core.call(fit, 'Langmuir', p, n)
    core.call(fit, 'Langmuir', p, n, param_bounds={'K': (0.1, 2.0), 'n_m': (0.5 * scale, 3.0 * scale)})
    again = core.call(fit, 'Langmuir', p, n)
    ev += 1
    nt += 1
    if first.ok and (not again.ok or core.relerr(list(again.value.model.params.values()), list(first.value.model.params.values())) > 1e-9):
        ctx.violate(core.make_violation({'check': 'fit-depends-on-earlier-fit'},
                                        f'a plain Langmuir fit after a fit with user bounds gives {again.value.model.params if again.ok else again.brief()} instead of {first.value.model.params}',
                                        {}, first.value.model.params, again.value.model.params if again.ok else again.brief()))
    # --- branch isolation
    pa = numpy.array([0.05, 0.1, 0.2, 0.4, 0.7, 1.0])
    na = ml.ref_loading('Langmuir', {'K': 5.0, 'n_m': 4.0}, pa) * scale
    pd_ = numpy.array([0.8, 0.5, 0.3, 0.15])
    nd = ml.ref_loading('Langmuir', {'K': 9.0, 'n_m': 4.2}, pd_) * scale

    def mkiso(na_, nd_):
        df = pandas.DataFrame({'pressure': list(pa) + list(pd_), 'loading': list(na_) + list(nd_), 'branch': [0] * len(pa) + [1] * len(pd_)})
        return pygaps.PointIsotherm(isotherm_data=df, pressure_key='pressure', loading_key='loading', material='c12', adsorbate='N2', temperature=T, **U)

    base_iso = mkiso(na, nd)
    for br, other in (('ads', 'des'), ('des', 'ads')):
        f0 = core.call(pygaps.ModelIsotherm.from_pointisotherm, base_iso, branch=br, model='Langmuir')
        pert = mkiso(na * (1.1 if other == 'ads' else 1.0), nd * (1.1 if other == 'des' else 1.0))
        f1 = core.call(pygaps.ModelIsotherm.from_pointisotherm, pert, branch=br, model='Langmuir')
        same_pert = mkiso(na * (1.1 if br == 'ads' else 1.0), nd * (1.1 if br == 'des' else 1.0))
        f2 = core.call(pygaps.ModelIsotherm.from_pointisotherm, same_pert, branch=br, model='Langmuir')
        ev += 2
        nt += 2
        if f0.ok and f1.ok and list(f0.value.model.params.values()) != list(f1.value.model.params.values()):
            ctx.violate(core.make_violation({'check': 'branch-isolation', 'branch': br}, f'a fit of branch {br} changes when only the {other} points are perturbed: {f0.value.model.params} -> {f1.value.model.params}', {}))
        if f0.ok and f2.ok and list(f0.value.model.params.values()) == list(f2.value.model.params.values()):
            ctx.violate(core.make_violation({'check': 'branch-not-used', 'branch': br}, f'a fit of branch {br} does not change when its own points are perturbed', {}))
        want = {'ads': {'K': 5.0, 'n_m': 4.0 * scale}, 'des': {'K': 9.0, 'n_m': 4.2 * scale}}[br]
        if f0.ok and core.relerr([f0.value.model.params['K'], f0.value.model.params['n_m']], [want['K'], want['n_m']]) > 1e-5:
            ctx.violate(core.make_violation({'check': 'branch-isolation', 'branch': br, 'kind': 'wrong-branch-fitted'}, f'fit of branch {br} gives {f0.value.model.params}, generator {want}', {}))
    # supplementary columns with missing cells take no part in a fit: parameters and reported error as for the same table without them
    pn, nn_ = noisy_sets(scale)[1]
    plain = pandas.DataFrame({'pressure': pn, 'loading': nn_})
    gaps = plain.assign(enthalpy=[float('nan') if i % 3 == 0 else 30.0 - i for i in range(len(pn))], remark=[None if i % 4 == 1 else 'x' for i in range(len(pn))])
    for mname in ('Langmuir', 'Toth', 'Henry'):
        for route in ('ModelIsotherm(isotherm_data=...)', 'point isotherm, then fit', 'model list'):
            def fit_table(df):
                if route.startswith('ModelIsotherm'):
                    return pygaps.ModelIsotherm(isotherm_data=df.copy(), pressure_key='pressure', loading_key='loading', model=mname, material='c12', adsorbate='N2', temperature=T, **U)
                pi = pygaps.PointIsotherm(isotherm_data=df.copy(), pressure_key='pressure', loading_key='loading', material='c12', adsorbate='N2', temperature=T, **U)
                return pygaps.ModelIsotherm.from_pointisotherm(pi, model=mname if route.startswith('point') else [mname, 'Henry'])
            a, b = core.call(fit_table, plain), core.call(fit_table, gaps)
            ev += 1
            if not a.ok:
                continue
            nt += 1
            if not b.ok or b.value.model.name != a.value.model.name or core.relerr(list(b.value.model.params.values()), list(a.value.model.params.values())) > 1e-9 \
                    or abs(b.value.model.rmse - a.value.model.rmse) > 1e-9 * a.value.model.rmse or tuple(b.value.model.pressure_range) != tuple(a.value.model.pressure_range):
                ctx.violate(core.make_violation({'check': 'supplementary-columns-influence-fit', 'route': route.split('(')[0]},
                                                f'{mname} fitted to a table with partly empty supplementary columns ({route}): '
                                                f'{(b.value.model.params, b.value.model.rmse, b.value.model.pressure_range) if b.ok else b.brief()[:120]} but without those columns '
                                                f'{(a.value.model.params, a.value.model.rmse, a.value.model.pressure_range)}', {'model': mname, 'route': route}))
    # the same data WITHOUT branch marks (the split is guessed) in tables with other row labels; also fitted directly from the table
    for iname, idx in (('0..n-1', None), ('1..n', list(range(1, len(pa) + len(pd_) + 1))), ('cut out of a larger table', list(range(7, 7 + len(pa) + len(pd_)))),
                       ('text labels', [f'pt{i}' for i in range(len(pa) + len(pd_))])):
        df = pandas.DataFrame({'pressure': list(pa) + list(pd_), 'loading': list(na) + list(nd)}, index=idx)
        for route in ('point isotherm, then fit', 'ModelIsotherm(isotherm_data=...)'):
            for br in ('ads', 'des'):
                if route.startswith('point'):
                    o = core.call(lambda: pygaps.ModelIsotherm.from_pointisotherm(
                        pygaps.PointIsotherm(isotherm_data=df.copy(), pressure_key='pressure', loading_key='loading', material='c12', adsorbate='N2', temperature=T, **U),
                        branch=br, model='Langmuir'))
                else:
                    o = core.call(pygaps.ModelIsotherm, isotherm_data=df.copy(), pressure_key='pressure', loading_key='loading', branch=br, model='Langmuir', material='c12',
                                  adsorbate='N2', temperature=T, **U)
                ev += 1
                nt += 1
                want = {'ads': {'K': 5.0, 'n_m': 4.0 * scale}, 'des': {'K': 9.0, 'n_m': 4.2 * scale}}[br]
                if not o.ok or core.relerr([o.value.model.params['K'], o.value.model.params['n_m']], [want['K'], want['n_m']]) > 1e-5:
                    ctx.violate(core.make_violation({'check': 'branch-isolation', 'branch': br, 'kind': 'guessed split', 'index': 'default' if idx is None else 'other labels'},
                                                    f'fit of branch {br} of a table without branch marks (row labels {iname}; {route}): {o.value.model.params if o.ok else o.brief()}, '
                                                    f'generator of that branch {want}', {'row_labels': iname, 'route': route}))
    # --- from_modelisotherm and refit
    mi = fit('Toth', p, ml.ref_loading('Toth', {'n_m': 5.0 * scale, 'K': 12.0, 't': 0.7}, p), note='meta', run=3.5)
    def ref_iso(**units):
        uu = dict(units_for('Toth'), **units)
        return pygaps.PointIsotherm(pressure=[0.05, 0.2, 0.6, 1.5], loading=[1.0, 2.0, 3.0, 4.0], material='c12ref', adsorbate='N2', temperature=T, **uu)
    forms = [(dict(pressure_points=[0.05, 0.2, 0.6, 1.5]), 'pressure points'), (dict(loading_points=[0.5 * scale, 2.0 * scale, 3.5 * scale]), 'loading points'), ({}, 'default grid'),
             (dict(pressure_points=numpy.array([0.05, 0.2, 0.6, 1.5])), 'pressure points (array)'), (dict(pressure_points=(0.05, 0.2)), 'pressure points (tuple)'),
             # the pressures of a reference isotherm, which may be recorded in other units than the model
             (dict(pressure_points=ref_iso()), 'reference isotherm, same units'),
             (dict(pressure_points=ref_iso(pressure_unit='kPa')), 'reference isotherm in kPa'),
             (dict(pressure_points=ref_iso(pressure_unit='torr')), 'reference isotherm in torr'),
             (dict(pressure_points=ref_iso(pressure_mode='relative', pressure_unit=None)), 'reference isotherm in relative pressure'),
             (dict(pressure_points=ref_iso(loading_unit='mol', material_unit='kg')), 'reference isotherm, other loading units')]
    # a model isotherm which was itself fitted to points generated from a model (generate - refit - generate): its metadata carry the
    # marker the generator adds
    gen1 = core.call(pygaps.PointIsotherm.from_modelisotherm, mi)
    if gen1.ok:
        refit1 = core.call(pygaps.ModelIsotherm.from_pointisotherm, gen1.value, model='Toth')
        if refit1.ok:
            o2 = core.call(pygaps.PointIsotherm.from_modelisotherm, refit1.value)
            ev += 1
            nt += 1
            if not o2.ok or core.relerr(o2.value.loading(), refit1.value.model.loading(o2.value.pressure())) > 1e-7 or o2.value.properties.get('note') != 'meta':
                ctx.violate(core.make_violation({'check': 'from_modelisotherm-raises' if not o2.ok else 'from_modelisotherm-off-model', 'how': 'second generation'},
                                                f'model -> points -> refitted model -> points: {o2.brief()[:200] if not o2.ok else "points off the model / metadata lost"}', {}))
    for kw, tag in forms:
        o = core.call(pygaps.PointIsotherm.from_modelisotherm, mi, **kw)
        ev += 1
        nt += 1
        if not o.ok:
            ctx.violate(core.make_violation({'check': 'from_modelisotherm-raises', 'how': tag}, f'from_modelisotherm({tag}) {o.brief()}', {}))
            continue
        pi = o.value
        if core.relerr(pi.loading(), mi.model.loading(pi.pressure())) > 1e-7:
            ctx.violate(core.make_violation({'check': 'from_modelisotherm-off-model', 'how': tag}, f'points generated from the model ({tag}) do not lie on it', {}))
        if pi.units != mi.units or pi.properties.get('note') != 'meta' or pi.properties.get('run') != 3.5 or str(pi.material) != 'c12':
            ctx.violate(core.make_violation({'check': 'from_modelisotherm-metadata', 'how': tag}, f'metadata/units not carried: {pi.units} {pi.properties}', {}))
        if tag == 'default grid':
            re_ = core.call(pygaps.ModelIsotherm.from_pointisotherm, pi, model='Toth')
            if re_.ok and core.relerr(re_.value.model.loading(p), mi.model.loading(p)) > 1e-6:
                ctx.violate(core.make_violation({'check': 'refit-differs'}, f're-fitting the generated points gives another curve: {re_.value.model.params} vs {mi.model.params}', {}))
    # --- unit covariance of the fit (predictions, not parameters)
    c = ru.ads_consts(pygaps.Adsorbate.find('N2').backend_name, T)
    pp = numpy.geomspace(0.02, 0.9, 20)
    for name, q in (('Langmuir', {'K': 6.0, 'n_m': 4.0}), ('Toth', {'n_m': 5.0, 'K': 12.0, 't': 0.7}), ('DR', {'n_m': 6.0, 'e': 2500.0}), ('Freundlich', {'K': 2.0, 'm': 2.5})):
        uu = units_for(name)
        nn = ml.ref_loading(name, q, pp, T) * scale
        base = pygaps.PointIsotherm(pressure=pp, loading=nn, material=pygaps.Material('c12m', density=2.0, molar_mass=50.0), adsorbate='N2', temperature=T, **uu)
        f0 = core.call(pygaps.ModelIsotherm.from_pointisotherm, base, model=name)
        if not f0.ok:
            continue
        for conv in (dict(pressure_mode='absolute', pressure_unit='kPa'), dict(loading_unit='mol'), dict(loading_basis='mass', loading_unit='g'), dict(material_unit='kg'),
                     dict(pressure_mode='relative'), 'celsius'):
            if name == 'DR' and isinstance(conv, dict) and conv.get('pressure_mode') == 'absolute':
                continue      # the Dubinin models are defined on relative pressure
            iso2 = pygaps.PointIsotherm(pressure=pp, loading=nn, material=pygaps.Material('c12m', density=2.0, molar_mass=50.0), adsorbate='N2', temperature=T, **uu)
            if conv == 'celsius':
                iso2.convert_temperature('°C')
                back = {}
            else:
                iso2.convert(**conv)
                back = {k: v for k, v in uu.items() if k[0] in 'plm' and v}
            f1 = core.call(pygaps.ModelIsotherm.from_pointisotherm, iso2, model=name)
            ev += 1
            if not f1.ok:
                if f1.kind != 'CalculationError':
                    ctx.violate(core.make_violation({'check': 'unit-covariance', 'model': name, 'conversion': str(conv), 'kind': f1.kind},
                                                    f'{name}: fit after converting the data ({conv}) {f1.brief()}', {}))
                continue
            nt += 1
            # compare predictions at the original pressures, expressed in the original units
            got = core.call(f1.value.loading_at, pp, **back)
            want = f0.value.model.loading(pp)
            e = core.relerr(got.value, want) if got.ok else float('inf')
            if not (name == 'Freundlich' and conv == dict(loading_unit='mol')):
                ctx.track('unit_covariance_of_fit', e if e != float('inf') else 0, 1e-5)
            if e > 1e-5:
                ctx.violate(core.make_violation({'check': 'unit-covariance', 'model': name, 'conversion': str(conv)},
                                                f'{name}: fit after converting the data ({conv}) predicts {got.value[:3] if got.ok else got.brief()} where the original fit predicts {want[:3]} (rel. dev. {e:.3g})', {}))
    ctx.add('bounds_branch_generate_units', ev, nt)


def run(ctx):
    jobs = [(name, q, npts, sp, ctx.scale) for name in WELL_POSED for q in GEN[name] for npts in (8, 20, 60) for sp in ('lin', 'log')]
    res = core.pmap(work_exact, jobs, chunk=2)
    nr = 0
    for r in res:
        ctx.add('exact_data_fits', r['ev'], r['nt'])
        ctx.violate(r['viol'])
        nr += r['noreturn']
        ctx.track('exact_fit_residual', r['worst'], 1e-5)
    from pygaps.modelling import _GUESS_MODELS, _MODELS
    jobs = [(name, k, ctx.scale) for name in _MODELS for k in range(4)] + [(name, k, ctx.scale, True) for name in _MODELS for k in range(4)]
    # the documented error is the rms deviation whatever options are handed to the optimiser
    jobs += [(name, k, ctx.scale, False, opt) for name in _MODELS if name != 'Virial' for k in (0, 2)
             for opt in ({'loss': 'soft_l1'}, {'loss': 'huber', 'f_scale': 0.05}, {'loss': 'cauchy'}, {'max_nfev': 2000}, {'x_scale': 'jac'})]
    res = core.pmap(work_noisy, jobs, chunk=2)
    nonpg = []
    for r in res:
        ctx.add('error_identity', r['ev'], r['nt'])
        ctx.violate(r['viol'])
        nr += r['noreturn']
        if r.get('nonpg'):
            nonpg.append(r['nonpg'])
    subs = [c for k in (2, 3) for c in itertools.combinations(_GUESS_MODELS, k)]
    if ctx.quick:
        subs = subs[::3]
    subs += [('Virial', 'Langmuir', 'Henry'), ('Langmuir', 'Virial', 'Henry'), ('Virial', 'Henry', 'Langmuir'), ('FHVST', 'Toth', 'Langmuir')]
    jobs = [(m, k, ctx.scale) for m in subs for k in range(3)]
    res = core.pmap(work_guess, jobs, chunk=2)
    for r in res:
        ctx.add('best_of_list', r['ev'], r['nt'])
        ctx.violate(r['viol'])
    check_misc(ctx)
    ctx.cov['fits_that_did_not_return'] = nr
    ctx.cov['non_pygaps_fit_errors'] = nonpg[:5]
    ctx.cov['rule'] = ('10 well-posed models x generating parameter vectors x {8,20,60} x {linear, log} grids of exact data (independent defining equations); 16 models x 4 '
                       'deterministic noisy data sets for the error identity; all 2- and 3-element sub-lists of the guess models (quick: every third) + lists with a '
                       'failing candidate x 3 data sets for best-of-list; user bounds around/excluding the generator, user guess, bounded-then-plain fit sequence, branch '
                       'isolation both ways, from_modelisotherm (3 ways) + refit, fit after 6 unit conversions.')
    ctx.require('exact_fits', len([1 for r in res]), 10)
    ctx.sample({'model': 'Toth', 'generating': GEN['Toth'][0], 'grid': '20 log-spaced pressures', 'oracle': 'max rel residual <= 1e-5'})
    ctx.sample({'guess_list': ['Virial', 'Langmuir', 'Henry'], 'oracle': 'returned model has the smallest rmse among the candidates that converged'})
    ctx.assumptions += ['fits that raise CalculationError are counted as "did not return"', 'unit covariance judged on predictions (1e-5), not on parameters']
