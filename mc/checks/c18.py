"""C18 — kernel (DFT) fitting is non-negative and reproduces the isotherm (DESIGN §4 C18; engine E2).

Weight vectors over the 77 kernel widths (every single width, pairs from a 12-width subset, dense profiles) x pressure grids inside
the kernel range x spline orders 0-3 x limits; user kernel files (incl. two files with the same base name); out-of-range pressures
(at the ends and in the interior of the array).
"""
import itertools
import os

import numpy
import pandas
from scipy import interpolate

from mc import core

LEVEL = 'exploration'

_K = {}


def kernel_table(path=None):
    import pygaps
    from pygaps.data import KERNELS
    path = str(path or KERNELS['DFT-N2-77K-carbon-slit'])
    if path not in _K:
        df = pandas.read_csv(path, index_col=0)
        df = pandas.concat([pandas.DataFrame([[0.0] * len(df.columns)], index=[0.0], columns=df.columns), df])
        widths = numpy.array([float(c) for c in df.columns])
        splines = [interpolate.make_interp_spline(df.index.values.astype(float), df[c].values.astype(float), k=3) for c in df.columns]
        _K[path] = (df, widths, splines, float(df.index.min()), float(df.index.max()))
    return _K[path]


def kernel_matrix(pressure, path=None):
    df, widths, splines, lo, hi = kernel_table(path)
    return numpy.array([s(pressure) for s in splines])      # (n_widths, n_points)


def grids(scale, path=None):
    df, widths, splines, lo, hi = kernel_table(path)
    pos = df.index.values[df.index.values > 0]
    return {
        'log40': numpy.geomspace(pos[2] * (1 + 0.01 * scale), hi * 0.97, 40),
        'log25': numpy.geomspace(pos[8], hi * 0.9 / scale ** 0.1, 25),
        'mixed30': numpy.unique(numpy.concatenate([numpy.geomspace(pos[1] * 1.5, 1e-3, 12), numpy.linspace(2e-3, min(hi * 0.95, 0.9), 18)])),
    }


def weights_alphabet(widths, tier):
    n = len(widths)
    out = []
    singles = range(n) if tier == 'thorough' else range(0, n, 6)
    for j in singles:
        w = numpy.zeros(n)
        w[j] = 0.05
        out.append((f'single width {widths[j]}', w))
    sub = list(range(3, n, max(1, n // 12)))[:12]
    pairs = list(itertools.combinations(sub, 2))
    if tier != 'thorough':
        pairs = pairs[::9]
    for a, b in pairs:
        for wa, wb in ((1, 1), (1, 3)):
            w = numpy.zeros(n)
            w[a], w[b] = 0.02 * wa, 0.02 * wb
            out.append((f'pair {widths[a]}/{widths[b]} weights {wa}:{wb}', w))
    x = numpy.arange(n)
    out.append(('gaussian', 0.01 * numpy.exp(-((x - n / 3) / 6.0) ** 2)))
    out.append(('bimodal', 0.008 * numpy.exp(-((x - n / 5) / 3.0) ** 2) + 0.012 * numpy.exp(-((x - 2 * n / 3) / 5.0) ** 2)))
    out.append(('flat', numpy.full(n, 0.002)))
    out.append(('ramp', 0.0005 * (1 + x / n)))
    return out


def work_fit(arg):
    from pygaps.characterisation.psd_kernel import psd_dft_kernel_fit
    from pygaps.data import KERNELS
    wname, w, gname, order, scale = arg
    out = {'ev': 0, 'nt': 0, 'viol': [], 'worst_resid': 0.0}
    path = str(KERNELS['DFT-N2-77K-carbon-slit'])
    p = grids(scale)[gname]
    K = kernel_matrix(p)
    df, widths, splines, lo, hi = kernel_table()
    load = (K * (w * scale)[:, None]).sum(axis=0)
    seen = set()

    def v(check, what, exp=None, obs=None, extra=None):
        sig = {'check': check}
        if extra:
            sig.update(extra)
        k = core.sig_key(sig)
        if k in seen:
            return
        seen.add(k)
        out['viol'].append(core.make_violation(sig, f'{wname}/{gname}/order {order}: {what}', {'weights': wname, 'grid': gname, 'order': order}, exp, obs))

    pc, lc = p.copy(), load.copy()
    o = core.call(psd_dft_kernel_fit, pc, lc, path, order, timeout=900)
    out['ev'] += 1
    if not (numpy.array_equal(pc, p) and numpy.array_equal(lc, load)):
        v('inputs-modified', 'the fit changed its input arrays')
    if not o.ok:
        v('raises', o.brief(), None, o.brief(), {'kind': o.kind})
        return out
    pw, dist, cum, kload = [numpy.asarray(x, dtype=float) for x in o.value]
    out['nt'] += 1
    if (dist < -1e-12).any():
        v('negative-distribution', f'pore size distribution has negative values (min {dist.min():.3g})', '>= 0', float(dist.min()), {'order': order})
    if (numpy.diff(cum) < -1e-12).any():
        v('cumulative-decreases', 'cumulative pore volume decreases')
    dpw = numpy.ediff1d(pw, to_begin=pw[0])
    if core.relerr(cum, numpy.cumsum(dist * dpw)) > 1e-10:
        v('cumulative-not-integral', 'cumulative pore volume is not the running integral of the reported distribution')
    if len(kload) != len(p):
        v('fitted-length', f'kernel_loading has {len(kload)} points for {len(p)} pressures')
        return out
    if order == 0:
        if core.relerr(pw, widths) > 1e-12:
            v('widths', 'with spline order 0 the reported widths are not the kernel widths')
        else:
            recon = (K * (dist * dpw)[:, None]).sum(axis=0)
            e = core.relerr(recon, kload) if numpy.abs(kload).max() > 0 else 0.0
            if e > 1e-8:
                v('fitted-isotherm-vs-distribution', f'the reported fitted isotherm is not the kernel-weighted sum of the reported distribution (rel. dev. {e:.3g})', recon, kload)
    # reproduction of an exact non-negative combination of kernel isotherms
    r2 = float(((kload - load) ** 2).sum())
    bound = 1e-3 * max(1.0, float((load ** 2).sum()))
    out['worst_resid'] = r2 / max(1.0, float((load ** 2).sum()))
    if r2 > bound:
        v('input-not-reproduced', f'sum of squared residuals {r2:.3g} between the fitted and the input isotherm exceeds the optimiser bound {bound:.3g} (input norm^2 {(load ** 2).sum():.3g})',
          bound, r2)
    return out


def check_limits_and_range(ctx):
    import pygaps
    import pygaps.characterisation as pgc
    from pygaps.characterisation import psd_kernel
    from pygaps.characterisation.psd_kernel import psd_dft_kernel_fit
    from pygaps.data import KERNELS
    ev = nt = 0
    path = str(KERNELS['DFT-N2-77K-carbon-slit'])
    df, widths, splines, lo, hi = kernel_table()
    p = grids(ctx.scale)['log40']
    K = kernel_matrix(p)
    x = numpy.arange(len(widths))
    w = 0.01 * numpy.exp(-((x - 30) / 6.0) ** 2) * ctx.scale
    load = (K * w[:, None]).sum(axis=0)
    U = dict(pressure_mode='relative', loading_basis='molar', loading_unit='mmol', material_basis='mass', material_unit='g')

    def iso(ld):
        return pygaps.PointIsotherm(pressure=p, loading=ld, material='c18', adsorbate='N2', temperature=77.355, **U)

    mids = [(p[i] + p[i + 1]) / 2 for i in (4, 11, 20, 29, 35)]
    for lim in [(mids[0], mids[3]), (mids[1], mids[4]), (None, mids[2]), (mids[2], None), (0, mids[4])]:
        idx = [i for i, q in enumerate(p) if (not lim[0] or q > lim[0]) and (not lim[1] or q < lim[1])]
        base = core.call(pgc.psd_dft, iso(load), p_limits=lim, bspline_order=0, timeout=900)
        ev += 1
        if not base.ok:
            ctx.violate(core.make_violation({'check': 'limits-raises', 'kind': base.kind}, f'psd_dft(p_limits={lim}) {base.brief()}', {}))
            continue
        nt += 1
        b = base.value
        if tuple(b['limits']) != (idx[0], idx[-1]) or len(b['kernel_loading']) != len(idx):
            ctx.violate(core.make_violation({'check': 'limits-window'}, f'psd_dft(p_limits={lim}): used {b["limits"]} / {len(b["kernel_loading"])} fitted points, points strictly inside the limits: {(idx[0], idx[-1])} / {len(idx)}',
                                            {'limits': lim}, (idx[0], idx[-1]), tuple(b['limits'])))
            continue
        # points outside the limits must not influence anything
        l2 = load.copy()
        outside = [i for i in range(len(p)) if i not in idx]
        l2[outside] = l2[outside] * 1.5 + 0.3
        o = core.call(pgc.psd_dft, iso(l2), p_limits=lim, bspline_order=0, timeout=900)
        ev += 1
        nt += 1
        if not o.ok or not all(numpy.array_equal(numpy.asarray(o.value[k]), numpy.asarray(b[k])) for k in ('pore_distribution', 'pore_volume_cumulative', 'kernel_loading')):
            ctx.violate(core.make_violation({'check': 'outside-points-influence'}, f'psd_dft(p_limits={lim}): changing only points outside the limits changes the result', {'limits': lim}))
        # the first and the last point inside must count
        for which, i in (('first', idx[0]), ('last', idx[-1])):
            l3 = load.copy()
            l3[i] = l3[i] * 1.3 + 0.05
            o = core.call(pgc.psd_dft, iso(l3), p_limits=lim, bspline_order=0, timeout=900)
            ev += 1
            nt += 1
            if o.ok and numpy.array_equal(numpy.asarray(o.value['kernel_loading']), numpy.asarray(b['kernel_loading'])):
                ctx.violate(core.make_violation({'check': 'inside-point-ignored', 'which': which}, f'psd_dft(p_limits={lim}): changing the {which} point inside the limits does not change the fitted isotherm', {'limits': lim}))
    # pressures outside the kernel range: at the ends and in the interior of the array
    pos = df.index.values[df.index.values > 0]
    for name, pp in (('above at the end', numpy.append(p, hi * 1.02)), ('negative at the start', numpy.insert(p, 0, -1e-6)),
                     ('above in the interior', numpy.insert(p, 20, hi * 1.01)), ('above, then back inside', numpy.append(p[:-2], [hi * 1.0015, p[-2]]))):
        ll = numpy.interp(pp, p, load)
        o = core.call(psd_dft_kernel_fit, pp, ll, path, 0, timeout=900)
        ev += 1
        nt += 1
        if o.ok or o.kind != 'CalculationError':
            ctx.violate(core.make_violation({'check': 'out-of-range-not-refused', 'where': name}, f'a pressure outside the kernel range ({name}) {o.brief()[:120]} instead of CalculationError', {'where': name}))
    # masked arrays (points flagged by the acquisition software): the flagged points do not take part - the result is that of the remaining points - or the input is refused
    import numpy.ma as ma
    for name, bad_idx, sentinel in (('one masked point', [12], 1e4), ('three masked points', [5, 20, 33], -999.0), ('masked tail', list(range(36, len(p))), 0.0)):
        keepm = numpy.ones(len(p), dtype=bool)
        keepm[bad_idx] = False
        ld_bad = load.copy()
        ld_bad[bad_idx] = sentinel
        masked_l = ma.masked_array(ld_bad, mask=~keepm)
        masked_p = ma.masked_array(p.copy(), mask=~keepm)
        want = core.call(psd_dft_kernel_fit, p[keepm], load[keepm], path, 0, timeout=900)
        for how, pp_, ll_ in (('loading masked', p.copy(), masked_l), ('pressure and loading masked', masked_p, masked_l)):
            o = core.call(psd_dft_kernel_fit, pp_, ll_, path, 0, timeout=900)
            ev += 1
            if not o.ok:
                continue        # refusing a masked array is an open outcome
            nt += 1
            fit_ = numpy.asarray(ma.filled(o.value[3], numpy.nan), dtype=float).reshape(-1)
            at_valid = fit_[keepm] if len(fit_) == len(p) else fit_
            if len(at_valid) != int(keepm.sum()) or not numpy.isfinite(at_valid).all() or \
                    float(((at_valid - load[keepm]) ** 2).sum()) > 1e-3 * max(1.0, float((load[keepm] ** 2).sum())):
                ctx.violate(core.make_violation({'check': 'masked-points-take-part', 'how': how},
                                                f'psd_dft_kernel_fit with {name} ({how}; value under the mask {sentinel}): the fitted isotherm does not reproduce the valid points of an exact '
                                                f'combination of kernel isotherms (sum of squared residuals {float(((at_valid - load[keepm]) ** 2).sum()) if len(at_valid) == int(keepm.sum()) else "shape"})',
                                                {'masked': bad_idx, 'sentinel': sentinel}))
    # points outside the kernel range which the limits EXCLUDE do not take part: the result is that of the isotherm without them
    for name, extra_p in (('above the range', [hi * 1.0008, min(0.9999, hi * 1.002)]), ('below the range', [lo * 0.2, lo * 0.6])):
        pp = numpy.sort(numpy.concatenate([p, extra_p]))
        ll = numpy.interp(pp, p, load)
        lim = (None, mids[4]) if name.startswith('above') else (mids[0], None)
        U2 = dict(U)
        with_out = core.call(pgc.psd_dft, pygaps.PointIsotherm(pressure=pp, loading=ll, material='c18', adsorbate='N2', temperature=77.355, **U2), p_limits=lim, bspline_order=0, timeout=900)
        without = core.call(pgc.psd_dft, iso(load), p_limits=lim, bspline_order=0, timeout=900)
        ev += 1
        nt += 1
        if without.ok and (not with_out.ok or not all(numpy.array_equal(numpy.asarray(with_out.value[k]), numpy.asarray(without.value[k]))
                                                      for k in ('pore_distribution', 'pore_volume_cumulative', 'kernel_loading'))):
            ctx.violate(core.make_violation({'check': 'outside-points-influence', 'where': name + ' of the kernel'},
                                            f'psd_dft(p_limits={lim}) on an isotherm with points {name} of the kernel (excluded by the limits): '
                                            f'{with_out.brief()[:160] if not with_out.ok else "result differs from that of the isotherm without these points"}', {'limits': lim}))
    # user kernels: a column subset written by the harness; two files with the same base name in different directories
    d1, d2 = os.path.join(core.scratch(), 'k1'), os.path.join(core.scratch(), 'k2')
    os.makedirs(d1, exist_ok=True)
    os.makedirs(d2, exist_ok=True)
    raw = pandas.read_csv(path, index_col=0)
    colsA, colsB = list(raw.columns[[10, 30, 50]]), list(raw.columns[[20, 40, 60]])
    fa, fb = os.path.join(d1, 'kernel.csv'), os.path.join(d2, 'kernel.csv')
    raw[colsA].to_csv(fa)
    raw[colsB].to_csv(fb)
    for order_ in ((fa, colsA, fb, colsB), (fb, colsB, fa, colsA)):
        psd_kernel._LOADED.clear()
        for f, cols in ((order_[0], order_[1]), (order_[2], order_[3])):
            Kf = kernel_matrix(p, f)
            ld = (Kf * numpy.array([0.02, 0.01, 0.03])[:, None]).sum(axis=0)
            o = core.call(psd_dft_kernel_fit, p, ld, f, 0, timeout=900)
            ev += 1
            nt += 1
            want = [float(c) for c in cols]
            if not o.ok or list(numpy.asarray(o.value[0], dtype=float)) != want:
                ctx.violate(core.make_violation({'check': 'user-kernel-widths'}, f'fit with the user kernel {f}: widths {list(o.value[0]) if o.ok else o.brief()} instead of the file\'s {want}', {'file': f}))
            elif float(((numpy.asarray(o.value[3]) - ld) ** 2).sum()) > 2e-4 * max(1.0, float((ld ** 2).sum())):
                ctx.violate(core.make_violation({'check': 'user-kernel-fit'}, f'fit with the user kernel {f} does not reproduce an exact combination of its isotherms', {'file': f}))
    # user kernels with very few pore widths x every spline order: a result is finite, non-negative, non-decreasing, and reproduces the data
    for ncols, pick_ in ((1, [30]), (2, [20, 50]), (3, [10, 30, 50]), (4, [10, 25, 40, 60]), (5, [8, 20, 35, 50, 65])):
        fk = os.path.join(d1, f'kernel_{ncols}_widths.csv')
        cols_ = list(raw.columns[pick_])
        raw[cols_].to_csv(fk)
        Kf = kernel_matrix(p, fk)
        wk = numpy.array([0.02, 0.01, 0.03, 0.015, 0.005][:ncols])
        ld = (Kf * wk[:, None]).sum(axis=0)
        for order in (0, 1, 2, 3):
            psd_kernel._LOADED.clear()
            o = core.call(psd_dft_kernel_fit, p, ld, fk, order, timeout=900)
            ev += 1
            if not o.ok:
                if not core.is_pg(o.kind):
                    ctx.violate(core.make_violation({'check': 'few-widths-kernel', 'what': 'raises', 'kind': o.kind},
                                                    f'fit with a user kernel of {ncols} pore width(s), bspline_order={order}: {o.brief()[:200]}', {'widths': ncols, 'order': order}))
                continue
            nt += 1
            wg, dist, cumv, fitl = [numpy.asarray(a, dtype=float) for a in o.value[:4]]
            problems = []
            if not (numpy.isfinite(wg).all() and numpy.isfinite(dist).all() and numpy.isfinite(cumv).all() and numpy.isfinite(fitl).all()):
                problems.append('non-finite values')
            elif (dist < -1e-9).any():
                problems.append('negative distribution')
            elif (numpy.diff(cumv) < -1e-9).any() or (numpy.diff(wg) < 0).any():      # (one control point: the smoothed curve is that point repeated)
                problems.append('decreasing cumulative volume / widths')
            if float(((fitl - ld) ** 2).sum()) > 2e-4 * max(1.0, float((ld ** 2).sum())) or not numpy.isfinite(fitl).all():
                problems.append('the fitted isotherm does not reproduce an exact combination of the kernel isotherms')
            if problems:
                ctx.violate(core.make_violation({'check': 'few-widths-kernel', 'what': problems[0].split(' ')[0]},
                                                f'fit with a user kernel of {ncols} pore width(s), bspline_order={order}: {"; ".join(problems)} (widths {wg[:5]}, distribution {dist[:5]})',
                                                {'widths': ncols, 'order': order}))
    # the text form of a user kernel file: header labels padded with blanks (fixed-width exporters), exponent notation, CRLF line ends, a byte-order mark
    sel_t = list(raw.columns[[8, 20, 35, 50, 65]])
    Kt = None
    wt_ = numpy.array([0.02, 0.01, 0.03, 0.015, 0.025])
    for form in ('as written by pandas', 'header line padded on the right', 'labels padded on the right', 'labels padded on the left', 'labels in exponent notation', 'CRLF line ends', 'byte-order mark'):
        ft = os.path.join(d1, 'kernel_text_' + form.replace(' ', '_') + '.csv')
        sub_t = raw[sel_t]
        if form == 'labels in exponent notation':
            sub_t = sub_t.rename(columns={c_: f'{float(c_):.6e}' for c_ in sel_t})
        text = sub_t.to_csv()
        lines = text.split('\n')
        if form == 'labels padded on the right':
            lines[0] = ','.join(cell + '  ' for cell in lines[0].split(','))
        elif form == 'header line padded on the right':
            lines[0] = lines[0] + '      '
        elif form == 'labels padded on the left':
            lines[0] = ','.join(('  ' + cell) if i_ else cell for i_, cell in enumerate(lines[0].split(',')))
        text = '\n'.join(lines)
        if form == 'CRLF line ends':
            text = text.replace('\n', '\r\n')
        with open(ft, 'w', newline='', encoding='utf-8-sig' if form == 'byte-order mark' else 'utf-8') as fh:
            fh.write(text)
        if Kt is None:
            Kt = kernel_matrix(p, ft)
        ld = (Kt * wt_[:, None]).sum(axis=0)
        psd_kernel._LOADED.clear()
        o = core.call(psd_dft_kernel_fit, p, ld, ft, 0, timeout=900)
        ev += 1
        if not o.ok:
            if not core.is_pg(o.kind) or form == 'as written by pandas':
                ctx.violate(core.make_violation({'check': 'user-kernel-text-form', 'form': form, 'what': 'raises'}, f'user kernel file, {form}: {o.brief()[:200]}', {'form': form}))
            continue        # an open refusal of an unusual text form is not a wrong result
        nt += 1
        wg = list(numpy.asarray(o.value[0], dtype=float))
        want_w = [float(c_) for c_ in sel_t]
        if len(wg) != len(want_w) or max(abs(a_ - b_) for a_, b_ in zip(wg, want_w)) > 1e-6 * max(want_w) or \
                float(((numpy.asarray(o.value[3]) - ld) ** 2).sum()) > 2e-4 * max(1.0, float((ld ** 2).sum())):
            ctx.violate(core.make_violation({'check': 'user-kernel-text-form', 'form': form, 'what': 'wrong'},
                                            f'user kernel file, {form}: widths {wg} (file has {want_w}); an exact combination of its isotherms '
                                            f'{"is" if len(wg) == len(want_w) else "is not"} reproduced', {'form': form}, want_w, wg))
    # a user kernel whose widths are written in angstrom: ascending numbers, but not ascending as text ('10' < '4')
    fc = os.path.join(d1, 'kernel_angstrom.csv')
    sel = list(raw.columns[[5, 20, 40, 55, 65, 75]])
    ang = raw[sel].rename(columns={c_: f'{float(c_) * 10:g}' for c_ in sel})
    ang.to_csv(fc)
    want = [float(c_) * 10 for c_ in sel]
    if not (min(want) < 10 <= max(want)):
        raise core.HarnessError(f'angstrom kernel does not straddle 10: {want}')
    Kf = kernel_matrix(p, fc)
    ld = (Kf * numpy.array([0.02, 0.01, 0.03, 0.015, 0.005, 0.01])[:, None]).sum(axis=0)
    for order in (0, 2):
        psd_kernel._LOADED.clear()
        o = core.call(psd_dft_kernel_fit, p, ld, fc, order, timeout=900)
        ev += 1
        nt += 1
        if not o.ok:
            ctx.violate(core.make_violation({'check': 'user-kernel-widths', 'kernel': 'angstrom'}, f'fit with a user kernel in angstrom {o.brief()}', {}))
            continue
        wg = numpy.asarray(o.value[0], dtype=float)
        if order == 0 and list(wg) != want:
            ctx.violate(core.make_violation({'check': 'user-kernel-widths', 'kernel': 'angstrom'},
                                            f'fit with a user kernel whose widths are {want} (ascending): reported widths {list(wg)}', {}, want, list(wg)))
        elif (numpy.diff(wg) <= 0).any() or (numpy.asarray(o.value[1]) < -1e-9).any() or (numpy.diff(numpy.asarray(o.value[2])) < -1e-9).any():
            ctx.violate(core.make_violation({'check': 'user-kernel-order', 'kernel': 'angstrom'},
                                            f'fit with a user kernel in angstrom (order {order}): widths not ascending / negative distribution / decreasing cumulative volume: '
                                            f'{list(wg[:8])}', {}))
        elif float(((numpy.asarray(o.value[3]) - ld) ** 2).sum()) > 2e-4 * max(1.0, float((ld ** 2).sum())):
            ctx.violate(core.make_violation({'check': 'user-kernel-fit', 'kernel': 'angstrom'}, 'fit with the user kernel in angstrom does not reproduce an exact combination of its isotherms', {}))
    # a kernel file that fails to load (a broken cell in the middle of the table), then the REPAIRED file at the same path
    fe = os.path.join(d2, 'kernel_repaired.csv')
    sel2 = list(raw.columns[::4])
    broken = raw[sel2].astype(object)
    broken.iloc[5, len(sel2) // 2] = 'ERR'
    broken.to_csv(fe)
    psd_kernel._LOADED.clear()
    first = core.call(psd_dft_kernel_fit, p, load, fe, 0, timeout=900)
    raw[sel2].to_csv(fe)
    Kf = kernel_matrix(p, fe)
    wsel = 0.01 * numpy.exp(-((numpy.arange(len(sel2)) - 0.7 * len(sel2)) / 2.5) ** 2)
    ld = (Kf * wsel[:, None]).sum(axis=0)
    second = core.call(psd_dft_kernel_fit, p, ld, fe, 0, timeout=900)
    ev += 1
    nt += 1
    if first.ok:
        raise core.HarnessError('the broken kernel file loaded without error: the sequence tests nothing')
    if not second.ok or len(second.value[0]) != len(sel2) or float(((numpy.asarray(second.value[3]) - ld) ** 2).sum()) > 1e-3 * max(1.0, float((ld ** 2).sum())):
        ctx.violate(core.make_violation({'check': 'kernel-load-failure-leaves-state'},
                                        f'after a kernel file failed to load ({first.brief()[:80]}) and was repaired at the same path, the fit uses '
                                        f'{len(second.value[0]) if second.ok else second.brief()[:100]} pore widths (the file has {len(sel2)}) / does not reproduce a combination of its isotherms', {}))
    # limits that leave fewer than three points at either end of the isotherm are refused (never silently widened)
    for lim, inside in (((p[-2] * 0.999, None), 2), ((p[-1] * 1.5, None), 0), ((None, p[1] * 1.001), 2), ((None, p[0] * 0.5), 0), ((p[-1] * 0.9999, None), 1)):
        o = core.call(pgc.psd_dft, iso(load), p_limits=lim, bspline_order=0, timeout=900)
        ev += 1
        nt += 1
        if o.ok or o.kind != 'CalculationError':
            used = (o.value['limits'], len(o.value['kernel_loading'])) if o.ok else None
            ctx.violate(core.make_violation({'check': 'limits-too-few-points-not-refused', 'end': 'upper' if lim[0] else 'lower'},
                                            f'psd_dft(p_limits={lim}) leaves {inside} point(s) inside the limits but {"returned a fit on indices %s (%d points)" % used if o.ok else o.brief()[:120]} '
                                            f'instead of CalculationError', {'limits': lim}))
    # the arrays a fit returns belong to the caller: editing them in place (nm -> angstrom, normalising, ...) must not change later fits
    psd_kernel._LOADED.clear()
    ref_fit = {order: core.call(psd_dft_kernel_fit, p, load, path, order, timeout=900) for order in (0, 2)}
    for first_order in (0, 1, 2, 3):
        for field in (0, 1, 2, 3):
            psd_kernel._LOADED.clear()
            r1 = core.call(psd_dft_kernel_fit, p, load, path, first_order, timeout=900)
            if not r1.ok:
                continue
            arr = r1.value[field]
            if isinstance(arr, numpy.ndarray) and arr.flags.writeable:
                arr *= 10.0
                arr[0] = -1.0
            for order in (0, 2):
                r2 = core.call(psd_dft_kernel_fit, p, load, path, order, timeout=900)
                ev += 1
                nt += 1
                if ref_fit[order].ok and (not r2.ok or any(not numpy.array_equal(numpy.asarray(a_), numpy.asarray(b_)) for a_, b_ in zip(r2.value, ref_fit[order].value))):
                    ctx.violate(core.make_violation({'check': 'returned-array-aliases-internal-state', 'field': ['pore_widths', 'pore_distribution', 'pore_volume_cumulative', 'kernel_loading'][field]},
                                                    f'after the {["pore_widths", "pore_distribution", "pore_volume_cumulative", "kernel_loading"][field]} array returned by a fit (spline order {first_order}) '
                                                    f'was edited in place by the caller, a new fit (order {order}) reports widths {list(numpy.asarray(r2.value[0])[:3]) if r2.ok else r2.brief()[:100]} '
                                                    f'instead of {list(numpy.asarray(ref_fit[order].value[0])[:3])}', {}))
    psd_kernel._LOADED.clear()
    # exactly repeated pressure readings inside the limits are points like any other
    pr2 = numpy.sort(numpy.concatenate([p, p[[10, 22]]]))
    ld2 = numpy.interp(pr2, p, load)
    ld2[numpy.searchsorted(pr2, p[10])] *= 1.02       # the two readings at one pressure need not agree
    o = core.call(pgc.psd_dft, pygaps.PointIsotherm(pressure=pr2, loading=ld2, material='c18', adsorbate='N2', temperature=77.355, **U), p_limits=(mids[0], mids[4]), bspline_order=0, timeout=900)
    ev += 1
    nt += 1
    inside = [i for i, q_ in enumerate(pr2) if mids[0] < q_ < mids[4]]
    if not o.ok or len(o.value['kernel_loading']) != len(inside) or tuple(o.value['limits']) != (inside[0], inside[-1]):
        ctx.violate(core.make_violation({'check': 'repeated-pressures-dropped'},
                                        f'psd_dft on an isotherm with two exactly repeated pressure readings: {len(inside)} points lie inside the limits (indices {inside[0]}..{inside[-1]}) but the fit '
                                        f'{"reports %d fitted points, limits %s" % (len(o.value["kernel_loading"]), o.value["limits"]) if o.ok else o.brief()[:120]}', {}))
    # kernel_units given once must not become the defaults of later calls (and the caller's dict stays as it was)
    fd = os.path.join(d2, 'kernel_cm3stp.csv')
    (raw * 22.414).to_csv(fd)
    psd_kernel._LOADED.clear()
    first = core.call(pgc.psd_dft, iso(load), bspline_order=0, timeout=900)
    ku = {'loading_unit': 'cm3(STP)'}
    core.call(pgc.psd_dft, iso(load), kernel=fd, kernel_units=ku, bspline_order=0, timeout=900)
    again = core.call(pgc.psd_dft, iso(load), bspline_order=0, timeout=900)
    ev += 1
    nt += 1
    if ku != {'loading_unit': 'cm3(STP)'}:
        ctx.violate(core.make_violation({'check': 'kernel-units-argument-mutated'}, f'psd_dft changed the kernel_units dictionary passed to it: {ku}', {}))
    if first.ok and (not again.ok or not all(numpy.array_equal(numpy.asarray(again.value[k]), numpy.asarray(first.value[k])) for k in ('pore_distribution', 'kernel_loading', 'pore_volume_cumulative'))):
        ratio = float(numpy.max(again.value['kernel_loading']) / numpy.max(first.value['kernel_loading'])) if again.ok else None
        ctx.violate(core.make_violation({'check': 'kernel-units-leak-into-later-calls'},
                                        f'psd_dft(iso) after a call with kernel_units={{"loading_unit": "cm3(STP)"}} differs from the same call before it '
                                        f'({"fitted loading ratio %.4g" % ratio if ratio else again.brief()})', {}))
    psd_kernel._LOADED.clear()
    ctx.add('limits_range_user_kernels', ev, nt)


def run(ctx):
    df, widths, splines, lo, hi = kernel_table()
    ctx.cov['kernel'] = {'widths': len(widths), 'pressure_range': [lo, hi]}
    wa = weights_alphabet(widths, ctx.tier)
    jobs = []
    for wname, w in wa:
        for gname in ('log40', 'log25', 'mixed30'):
            if ctx.quick and gname != 'log40' and not wname.startswith(('gaussian', 'bimodal')):
                continue
            for order in (0, 1, 2, 3):
                if ctx.quick and order in (1, 3) and not wname.startswith(('gaussian', 'single width 0.4')):
                    continue
                jobs.append((wname, w, gname, order, ctx.scale))
    res = core.pmap(work_fit, jobs, chunk=1)
    for r in res:
        ctx.add('kernel_fits', r['ev'], r['nt'])
        ctx.violate(r['viol'])
        ctx.track('normalised_squared_residual', r['worst_resid'], 1e-3)
    check_limits_and_range(ctx)
    ctx.cov['domain_sizes'] = {'weight_vectors': len(wa), 'fits': len(jobs)}
    ctx.cov['rule'] = ('weight vectors over the 77 kernel widths (single widths: thorough all, quick every 6th; pairs from a 12-width subset with weights 1:1 and 1:3; 4 dense profiles) x '
                       '3 pressure grids x spline orders 0-3 (quick: thinned); limits (5 settings) with perturbations outside / first inside / last inside; 4 out-of-range patterns; '
                       '2 user kernel files with the same base name in both orders.')
    ctx.require('fits', len(jobs), 30)
    ctx.sample({'weights': 'single width 1.0 nm', 'grid': 'log40', 'order': 0, 'oracle': 'distribution >= 0; fitted isotherm = kernel-weighted sum (independent splines); residual within the SLSQP ftol bound'})
    ctx.sample({'limits': 'off-grid pair', 'oracle': 'outside points have no influence (bit-identical); first/last inside point changes the fit'})
    ctx.assumptions += ['reproduction bound: sum of squared residuals <= 1e-3 * max(1, |n|^2) (SLSQP stops on an absolute objective change of 1e-4; worst observed over all lattice phases 7.3e-5)',
                        'independent kernel interpolants: scipy make_interp_spline(k=3) built by the harness from the CSV']
