"""C09 — atomicity under statement failures and process death (DESIGN §4 C09; engine E3).

For every public write operation instance (on an empty database, one with unrelated items, one containing
the item) x every point k among the SQL statements / commit / close it issues x every fault kind:
the file afterwards equals the dictionary model BEFORE or AFTER the operation (never anything else, no
orphans), what was stored before is still retrievable, and the same call repeated succeeds (or, if the
fault struck after the commit, is refused as the duplicate it now is).  Bound 2 injects a second fault
into the retry.
"""
import collections
import os
import shutil

from mc import core
from mc import engine_faults as ef
from mc import ref_store as rs
from mc.checks import c08

LEVEL = 'fault_enumeration'

EXC = ['IntegrityError', 'InterfaceError', 'OperationalError', 'ProgrammingError']

# preparations (by c08 operation label prefix)
PREP = {
    'empty': [],
    'unrelated': ['adsorbate_to_db(a2, overwrite=False', 'material_to_db(m2, overwrite=False', 'isotherm_to_db(i3, autoinsert_material=True',
                  'adsorbate_property_type_to_db(t1)'],
    'with-a1': ['adsorbate_to_db(a1, overwrite=False, autoinsert_properties=True'],
    'with-m1': ['material_to_db(m1, overwrite=False, autoinsert_properties=True'],
    'with-i1': ['isotherm_to_db(i1, autoinsert_material=True, autoinsert_adsorbate=True'],
    'with-i2-i3': ['isotherm_to_db(i2, autoinsert_material=True', 'isotherm_to_db(i3, autoinsert_material=True'],
    'types-of-a1': ['adsorbate_to_db(a1, overwrite=False, autoinsert_properties=True', 'adsorbate_delete_db(a1 object)'],
    'with-types': ['adsorbate_property_type_to_db(t1)', 'material_property_type_to_db(t1)'],
    'with-mats-ads': ['adsorbate_to_db(a1, overwrite=False, autoinsert_properties=True', 'adsorbate_to_db(a2, overwrite=False',
                      'material_to_db(m1, overwrite=False, autoinsert_properties=True', 'material_to_db(m2, overwrite=False'],
}

# operation instances: (preparation, operation label prefix)
INSTANCES = [
    ('empty', 'adsorbate_to_db(a1, overwrite=False, autoinsert_properties=True'),
    ('unrelated', 'adsorbate_to_db(a1, overwrite=False, autoinsert_properties=True'),
    ('empty', 'adsorbate_to_db(a2, overwrite=False'),
    ('with-a1', 'adsorbate_to_db(a1b, overwrite=True'),
    ('with-a1', 'adsorbate_delete_db(a1 object)'),
    ('with-mats-ads', "adsorbate_delete_db('gasB')"),
    ('empty', 'material_to_db(m1, overwrite=False, autoinsert_properties=True'),
    ('unrelated', 'material_to_db(m1, overwrite=False, autoinsert_properties=True'),
    ('with-m1', 'material_to_db(m1b, overwrite=True'),
    ('with-m1', 'material_to_db(m1d, overwrite=True'),
    ('with-m1', 'material_to_db(m1c, overwrite=True'),
    ('with-a1', 'adsorbate_to_db(a1d, overwrite=True'),
    ('with-m1', 'material_delete_db(m1 object)'),
    ('types-of-a1', 'adsorbate_to_db(a1, overwrite=False, autoinsert_properties=False'),
    ('empty', 'adsorbate_property_type_to_db(t1)'),
    ('with-types', 'adsorbate_property_type_to_db(t1 changed, overwrite=True)'),
    ('with-types', "adsorbate_property_type_delete_db('t1')"),
    ('with-types', "material_property_type_delete_db('t1')"),
    ('empty', 'isotherm_to_db(i1, autoinsert_material=True, autoinsert_adsorbate=True'),
    ('unrelated', 'isotherm_to_db(i1, autoinsert_material=True, autoinsert_adsorbate=True'),
    ('with-mats-ads', 'isotherm_to_db(i1, autoinsert_material=False, autoinsert_adsorbate=False'),
    ('with-a1', 'isotherm_to_db(i1, autoinsert_material=True, autoinsert_adsorbate=False'),
    ('with-m1', 'isotherm_to_db(i1, autoinsert_material=False, autoinsert_adsorbate=True'),
    ('empty', 'isotherm_to_db(i2, autoinsert_material=True'),
    ('unrelated', 'isotherm_to_db(i2, autoinsert_material=True'),
    ('empty', 'isotherm_to_db(i3, autoinsert_material=True'),
    ('with-i1', 'isotherm_delete_db(i1 object)'),
    ('with-i2-i3', 'isotherm_delete_db(i2.iso_id)'),
    ('with-i2-i3', 'isotherm_delete_db(i3 object)'),
    ('with-i2-i3', 'isotherm_delete_db(retrieved[0])'),
    ('empty', 'isotherm_to_db(ibig'),
]
QUICK_MODES = ['registered']   # the retry happens in the same session: registries as the failed call left them


BIG_N = 120000


def _big():
    """A point isotherm whose upload exceeds SQLite's page cache (the statement count is that of a small one: columns are
    stored as one JSON text each), so that uncommitted pages reach the file before the commit."""
    import numpy
    import pygaps
    p = numpy.linspace(1e-3, 10.0, BIG_N)
    return pygaps.PointIsotherm(pressure=p, loading=numpy.sqrt(p) * 2.0 + 1e-7 * numpy.arange(BIG_N), material='matBig', adsorbate='gasA',
                                temperature=298.5, operator='big', **rs.UNITS)


def _extra_ops():
    from pygaps.parsing import sqlite as q
    return [(f'isotherm_to_db(ibig [{BIG_N} points], autoinsert_material=True, autoinsert_adsorbate=True)',
             lambda u, p: q.isotherm_to_db(_big(), db_path=p, autoinsert_material=True, autoinsert_adsorbate=True, verbose=False),
             lambda s, u: (lambda b: s.isotherm_to(b.iso_id, rs.iso_record(b), rs.mat_rows(b.material), rs.ads_rows(b.adsorbate), True, True))(_big()))]


def find_op(prefix):
    m = [o for o in c08.ops() + _extra_ops() if o[0].startswith(prefix)]
    if len(m) != 1:
        raise core.HarnessError(f'operation prefix {prefix!r} matches {len(m)} operations')
    return m[0]


def prepare(prep, path):
    """Build the prepared database and its model (in a forked copy of the process: see engine_faults.in_fork)."""
    try:
        return ef.in_fork(lambda: _prepare(prep, path))
    except RuntimeError as e:
        raise core.HarnessError(str(e))


def _prepare(prep, path):
    tpl = os.path.join(core.scratch(), 'c09-template.db')
    if not os.path.exists(tpl):
        rs.create_template(tpl)
    shutil.copyfile(tpl, path)
    model = rs.Store()
    for prefix in PREP[prep]:
        label, fn, mfn = find_op(prefix)
        u = c08.universe('fresh')
        exp = mfn(model, u)
        o = core.call(fn, u, path)
        if exp != 'ok' or not o.ok:
            raise core.HarnessError(f'preparation step {label} failed: {exp} / {o.brief()}')
    d = model.diff(rs.read_raw(path))
    if d:
        raise core.HarnessError(f'prepared database differs from its model: {d}')
    return model


def fresh_copy(src, dst):
    # a new inode every time: a connection leaked by a previous (faulted) execution must not touch this one
    for ext in ('', '-journal', '-wal', '-shm'):
        if os.path.exists(dst + ext):
            os.remove(dst + ext)
    shutil.copyfile(src, dst)


def work_instance(arg):
    prep, prefix, bound2, faults = arg
    label, fn, mfn = find_op(prefix)
    sdir = core.scratch()
    prepared = os.path.join(sdir, 'prepared.db')
    work = os.path.join(sdir, 'work.db')
    before = prepare(prep, prepared)
    out = {'ev': 0, 'nt': 0, 'viol': [], 'points': 0, 'label': label, 'prep': prep, 'log': None,
           'kinds': collections.Counter()}
    seen = set()

    # how the database file is ADDRESSED: the same file through a plain absolute path, through a symbolic link to its
    # directory, or as a relative pathlib.Path (the working directory is changed inside the forked execution)
    spelling = ['plain']
    link = os.path.join(sdir, 'link')
    if os.path.islink(link):
        os.remove(link)
    os.symlink(sdir, link)

    def spell(path):
        if spelling[0] == 'symlink':
            return os.path.join(link, os.path.basename(path))
        if spelling[0] == 'relative-Path':
            import pathlib
            os.chdir(os.path.dirname(path))
            return pathlib.Path(os.path.basename(path))
        return path

    def report(kind, fault, what, obs=None):
        sig = {'check': kind, 'op': label.split('(')[0], 'fault': fault[0] + (':' + fault[1] if fault[1] else '')}
        if spelling[0] != 'plain':
            sig['path'] = spelling[0]
            what = f'[database addressed as {spelling[0]}] ' + what
        k = core.sig_key(sig)
        if k in seen:
            return
        seen.add(k)
        out['viol'].append(core.make_violation(
            sig, f'{label} on {prep!r} database, fault {fault} at point {fault[2]}: {what}',
            {'preparation': PREP[prep], 'op': label, 'fault_action': fault[0], 'exception': fault[1], 'point': fault[2],
             'statements': out['log']}, None, obs))

    # dry run: learn the points
    fresh_copy(prepared, work)
    u = c08.universe('registered')
    after = before.copy()
    exp = mfn(after, u)
    if exp != 'ok':
        raise core.HarnessError(f'instance {label} on {prep} is not an accepted operation ({exp})')
    def dry():
        plan = ef.Plan()
        with ef.injected(plan):
            o = core.call(fn, u, work)
        return o.ok, o.brief(), plan.n, plan.log, plan.sql_n

    ok, brief, n_points, log, n_sql = ef.in_fork(dry)
    if not ok:
        raise core.HarnessError(f'dry run of {label} on {prep} failed: {brief}')
    d = after.diff(rs.read_raw(work))
    if d:
        # the fault-free operation itself is wrong: C08's business, but C09 cannot judge atomicity without a model
        out['viol'].append(core.make_violation({'check': 'fault-free-run-differs-from-model', 'op': label.split('(')[0]},
                                               f'{label} on {prep}: {d}', {'op': label}))
        return out
    n = n_points
    out['points'] = n
    out['log'] = log

    def classify(path):
        raw = rs.read_raw(path)
        db = before.diff(raw)
        if not db:
            return 'before', before, None
        da = after.diff(raw)
        if not da:
            return 'after', after, None
        return 'neither', None, {'vs_before': db[:4], 'vs_after': da[:4]}

    def retry_and_check(fault, state):
        """The same call, fault-free, in the same session (registries as the failed call left them)."""
        u2 = _universe_keep_registries()
        o2 = core.call(fn, u2, spell(work))
        out['ev'] += 1
        if state == 'before':
            if not o2.ok:
                report('retry-fails', fault, f'the repeated call does not succeed: {o2.brief()}', o2.brief())
                return
            d2 = after.diff(rs.read_raw(work))
            if d2:
                report('retry-wrong-state', fault, f'after the repeated call the tables are not the complete effect: {d2[:3]}', d2)
        else:
            # the fault struck after the commit: the effect is complete and the repeat is a duplicate / absent item
            a2 = after.copy()
            exp2 = mfn(a2, u2)
            kind2 = 'ok' if o2.ok else ('refused' if o2.kind == 'ParsingError' else o2.kind)
            if exp2 in ('ok', 'refused') and kind2 != exp2:
                report('retry-after-commit-wrong-outcome', fault, f'model says {exp2}, implementation {o2.brief()}')
            d2 = a2.diff(rs.read_raw(work))
            if d2:
                report('retry-after-commit-wrong-state', fault, f'{d2[:3]}', d2)

    def one(fault, second=None):
        """Run the operation with one injected fault; judge; retry (optionally with a second fault in the retry)."""
        action, exc, k = fault
        fresh_copy(prepared, work)
        uu = c08.universe('registered')
        plan1 = ef.Plan(k, action, exc)
        if action.startswith('exit'):
            def child():
                with ef.injected(plan1):
                    fn(uu, spell(work))
            code = ef.run_in_child(child)
            if code != 137:
                raise core.HarnessError(f'child for {label} fault {fault} exited with {code} instead of dying at the point')
            o1 = None
        else:
            with ef.injected(plan1):
                o1 = core.call(fn, uu, spell(work))
            if not plan1.fired:
                raise core.HarnessError(f'fault {fault} of {label} was never reached (nondeterministic statement count?)')
        out['ev'] += 1
        out['kinds'][action + (':' + exc if exc else '')] += 1
        state, model, det = classify(work)
        if state == 'neither':
            report('partial-effect', fault, f'the file holds neither the complete effect nor none of it: {det}', det)
            return
        if o1 is not None and o1.ok and state == 'before' and not (action == 'raise-instead' and plan1.log[k - 1][0] in ('close', 'rollback')):
            report('acknowledged-but-lost', fault, 'the call returned normally but its effect is not in the file')
            return
        out['nt'] += 1
        # everything stored before is retrievable and intact
        rd = c08.retrieval_diffs(work, model, _universe_keep_registries(), 'registered')
        if rd:
            report('stored-items-not-intact', fault, f'{rd[0][0]}: {rd[0][1][:300]}', rd[:3])
            return
        if second is None:
            retry_and_check(fault, state)
        elif state == 'before':
            action2, exc2, k2 = second
            u2 = _universe_keep_registries()
            plan2 = ef.Plan(k2, action2, exc2)
            with ef.injected(plan2):
                core.call(fn, u2, spell(work))
            out['ev'] += 1
            st2, m2, det2 = classify(work)
            if st2 == 'neither':
                report('partial-effect-in-retry', (fault[0] + '+' + action2, exc2, k2),
                       f'fault in the retry after fault {fault}: {det2}', det2)
                return
            retry_and_check((fault[0] + '+' + action2, exc2, k2), st2)

    def isolated(fault, second=None):
        """One execution (+ its retry) in a forked copy of this process: no state flows between executions."""
        def task():
            nv, ev0, nt0, k0, s0 = len(out['viol']), out['ev'], out['nt'], collections.Counter(out['kinds']), set(seen)
            one(fault, second)
            return out['viol'][nv:], out['ev'] - ev0, out['nt'] - nt0, out['kinds'] - k0, seen - s0
        try:
            viol, dev, dnt, dk, ds = ef.in_fork(task)
        except RuntimeError as e:
            raise core.HarnessError(f'{label} on {prep}, fault {fault}: {e}')
        for v in viol:
            k = core.sig_key(v['sig']) if 'sig' in v else None
            out['viol'].append(v)
        out['ev'] += dev
        out['nt'] += dnt
        out['kinds'].update(dk)
        seen.update(ds)

    if prefix.startswith('isotherm_to_db(ibig'):
        faults = [f for f in faults if f[0].startswith('exit')]     # size only matters for process death
        bound2 = False
    one_ = isolated
    big = prefix.startswith('isotherm_to_db(ibig')
    for k in range(1, n + 1):
        for action, exc in faults:
            if big and action == 'exit-after' and k < n:
                continue        # death after point k == death before point k+1
            one_((action, exc, k))
    # engine-level points: process death at, and an interrupted (failing) statement at, every SQL statement the SQLite engine
    # starts -- the statements inside a script and the implicit BEGIN / COMMIT are points of their own here
    if not big:
        out['sql_points'] = n_sql
        for j in range(1, n_sql + 1):
            one_(('exit-at-sql', None, j))
            if any(a.startswith('raise') for a, _ in faults):
                one_(('interrupt-at-sql', None, j))
    if not big:
        for sp in ('symlink', 'relative-Path'):
            spelling[0] = sp
            # the points are learnt again: how many statements an operation issues may depend on how the file is addressed

            def dry_sp():
                fresh_copy(prepared, work)
                plan = ef.Plan()
                with ef.injected(plan):
                    o = core.call(fn, c08.universe('registered'), spell(work))
                return o.ok, o.brief(), plan.n, after.diff(rs.read_raw(work))
            ok_sp, brief_sp, n_sp, d_sp = ef.in_fork(dry_sp)
            if not ok_sp or d_sp:
                report('fault-free-run-wrong', ('none', None, 0), f'the fault-free operation: {brief_sp}; tables vs model: {d_sp}')
                continue
            for k in range(1, n_sp + 1):
                one_(('raise-instead', 'OperationalError', k))
                one_(('exit-before', None, k))
        spelling[0] = 'plain'
    if bound2:
        # bound 2: a second fault in the retry, after a first fault at the first / middle / last statement point
        firsts = sorted({2, max(2, n // 2), max(2, n - 2)})
        for k1 in firsts:
            for k2 in range(1, n + 1):
                for action2, exc2 in [('raise-instead', 'IntegrityError'), ('raise-instead', 'OperationalError')]:
                    one_(('raise-instead', 'OperationalError', k1), (action2, exc2, k2))
    return out


def _universe_keep_registries():
    """Universe objects for a retry in the SAME session: registries keep whatever the failed call left in them."""
    import pygaps
    ads, mats = list(pygaps.ADSORBATE_LIST), list(pygaps.MATERIAL_LIST)
    u = c08.universe('registered')
    base = c08.base_registries()
    # re-add leftovers of the failed call (objects appended before the transaction was rolled back)
    for a in ads:
        if a not in base['ads'] and all(a is not x for x in pygaps.ADSORBATE_LIST):
            if a.name not in [x.name for x in pygaps.ADSORBATE_LIST]:
                pygaps.ADSORBATE_LIST.append(a)
    for m in mats:
        if m not in base['mat'] and m.name not in [x.name for x in pygaps.MATERIAL_LIST]:
            pygaps.MATERIAL_LIST.append(m)
    return u


def strace_crash(ctx, instances):
    """Thorough tier: SIGKILL at every write-class syscall of the operation (death inside commit)."""
    import shutil as sh
    import subprocess
    import sys
    if not sh.which('strace'):
        ctx.notes.append('strace not available: syscall-level crash points skipped')
        return
    driver = os.path.join(core.VERIF, 'mc', 'c09_driver.py')
    jobs = []
    for prep, prefix in instances:
        if prefix.startswith('isotherm_to_db(ibig'):
            # thousands of page writes: the complete enumeration is split over 16 shards (syscall index mod 16)
            jobs += [(prep, prefix, (i, 16)) for i in range(16)]
        else:
            jobs.append((prep, prefix, (0, 1)))
    res = core.pmap(_strace_instance, jobs, chunk=1)
    for r in res:
        ctx.add('syscall_kill', r['ev'], r['nt'], syscalls=r['syscalls'])
        ctx.violate(r['viol'])


def _strace_instance(arg):
    import subprocess
    import sys
    prep, prefix, (shard, nshards) = arg
    label, fn, mfn = find_op(prefix)
    sdir = core.scratch()
    prepared = os.path.join(sdir, 'sprepared.db')
    work = os.path.join(sdir, 'swork.db')
    before = prepare(prep, prepared)
    after = before.copy()
    mfn(after, c08.universe('registered'))
    out = {'ev': 0, 'nt': 0, 'viol': [], 'syscalls': 0}
    driver = os.path.join(core.VERIF, 'mc', 'c09_driver.py')
    # (the child imports the same pygaps tree as this process: an inherited PYTHONPATH is kept behind the harness directory)
    env = dict(os.environ, PYTHONPATH=os.pathsep.join([core.VERIF] + [x for x in os.environ.get('PYTHONPATH', '').split(os.pathsep) if x]))
    # count the write-class syscalls between the two markers
    fresh_copy(prepared, work)
    cmd = ['strace', '-f', '-o', os.path.join(sdir, 'trace.txt'), '-e', 'trace=pwrite64,write,fdatasync,fsync,unlink,ftruncate',
           sys.executable, driver, work, prefix]
    r = subprocess.run(cmd, capture_output=True, text=True, env=env)
    if r.returncode != 0:
        raise core.HarnessError(f'strace dry run failed for {label}: {r.stderr[-400:]}')
    lines = open(os.path.join(sdir, 'trace.txt')).read().splitlines()
    start = next(i for i, l in enumerate(lines) if 'C09-BEGIN' in l)
    end = next(i for i, l in enumerate(lines) if 'C09-END' in l)
    pre = {}
    for sc in ('pwrite64', 'write', 'fdatasync', 'fsync', 'unlink', 'ftruncate'):
        pre[sc] = sum(1 for l in lines[:start + 1] if f' {sc}(' in l or l.split(' ', 1)[-1].startswith(sc + '('))
    inside = [l for l in lines[start + 1:end]]
    counts = collections.Counter()
    for l in inside:
        body = l.split(' ', 1)[-1].lstrip()
        for sc in pre:
            if body.startswith(sc + '('):
                counts[sc] += 1
    out['syscalls'] = sum(counts.values()) if shard == 0 else 0
    for sc, cnt in counts.items():
        for j in range(1, cnt + 1):
            if j % nshards != shard:
                continue
            when = pre[sc] + j
            fresh_copy(prepared, work)
            cmd = ['strace', '-f', '-o', '/dev/null', '-e', f'trace={sc}', '-e', f'inject={sc}:signal=KILL:when={when}',
                   sys.executable, driver, work, prefix]
            r = subprocess.run(cmd, capture_output=True, text=True, env=env)
            out['ev'] += 1
            raw = rs.read_raw(work)   # independent connection: hot-journal recovery happens here
            db, da = before.diff(raw), after.diff(raw)
            if db and da:
                out['viol'].append(core.make_violation(
                    {'check': 'partial-effect-after-kill', 'op': label.split('(')[0], 'syscall': sc},
                    f'{label} on {prep!r}: SIGKILL at {sc} #{j} of the operation leaves neither the complete effect nor none: {db[:2]} / {da[:2]}',
                    {'op': label, 'preparation': PREP[prep], 'syscall': sc, 'index_in_operation': j}))
                continue
            out['nt'] += 1
            model = before if not db else after
            rd = c08.retrieval_diffs(work, model, c08.universe('registered'), 'registered')
            if rd:
                out['viol'].append(core.make_violation(
                    {'check': 'stored-items-not-intact-after-kill', 'op': label.split('(')[0], 'syscall': sc},
                    f'{label} on {prep!r}: after SIGKILL at {sc} #{j}: {rd[0]}', {'op': label}))
                continue
            if not db:
                o2 = core.call(fn, c08.universe('registered'), work)
                d2 = after.diff(rs.read_raw(work))
                if not o2.ok or d2:
                    out['viol'].append(core.make_violation(
                        {'check': 'retry-fails-after-kill', 'op': label.split('(')[0], 'syscall': sc},
                        f'{label} on {prep!r}: repeat after SIGKILL at {sc} #{j}: {o2.brief()} {d2[:2]}', {'op': label}))
    return out


def check_natural_failures(ctx):
    """Operations whose OWN input makes a statement fail (or the library give up) part-way, no fault injected: the call is refused and the
    file is as before - or it returns normally and the complete item is stored. Nothing in between."""
    import pandas
    import pygaps
    from pygaps.parsing import sqlite as q
    ev = nt = 0
    sdir = core.scratch()

    def point_with(extra):
        return pygaps.PointIsotherm(isotherm_data=pandas.DataFrame(dict({'pressure': [1.0, 2.0, 3.0, 4.0], 'loading': [1.0, 2.0, 3.0, 3.5]}, **extra)), pressure_key='pressure',
                                    loading_key='loading', material={'name': 'matN', 'density': 1.25}, adsorbate='gasA', temperature=300.0, note='n', **rs.UNITS)

    cases = [
        ('empty', 'material_to_db(one property None)', lambda w: q.material_to_db(pygaps.Material('matN', density=2.5, batch='B-17', comment=None), db_path=w, verbose=False)),
        ('empty', 'material_to_db(first property None)', lambda w: q.material_to_db(pygaps.Material('matN', comment=None, density=2.5), db_path=w, verbose=False)),
        ('with-m1', 'material_to_db(matA, one property None, overwrite=True)',
         lambda w: q.material_to_db(pygaps.Material('matA', density=9.0, comment=None, batch='b'), db_path=w, overwrite=True, verbose=False)),
        ('empty', 'adsorbate_to_db(one property None)', lambda w: q.adsorbate_to_db(pygaps.Adsorbate('gasN', formula='N', molar_mass=None, note='x'), db_path=w, verbose=False)),
        ('with-a1', 'adsorbate_to_db(gasA, one property None, overwrite=True)',
         lambda w: q.adsorbate_to_db(pygaps.Adsorbate('gasA', formula='A_{9}', t_critical=None, molar_mass=3.0), db_path=w, overwrite=True, verbose=False)),
        ('with-a1', 'isotherm_to_db(integer extra column, autoinsert_material=True)',
         lambda w: q.isotherm_to_db(point_with({'cycle': [1, 1, 2, 2]}), db_path=w, autoinsert_material=True, verbose=False)),
        ('with-a1', 'isotherm_to_db(boolean extra column, autoinsert_material=True)',
         lambda w: q.isotherm_to_db(point_with({'flagged': [True, False, True, False]}), db_path=w, autoinsert_material=True, verbose=False)),
        ('with-a1', 'isotherm_to_db(metadata value None, autoinsert_material=True)',
         lambda w: q.isotherm_to_db(pygaps.PointIsotherm(pressure=[1.0, 2.0], loading=[1.0, 2.0], material={'name': 'matN', 'density': 1.25}, adsorbate='gasA', temperature=300.0,
                                                         remark=None, **rs.UNITS), db_path=w, autoinsert_material=True, verbose=False)),
        ('with-a1', 'isotherm_to_db(auto-inserted material has a None property)',
         lambda w: q.isotherm_to_db(pygaps.PointIsotherm(pressure=[1.0, 2.0], loading=[1.0, 2.0], material={'name': 'matN', 'density': 1.25, 'comment': None}, adsorbate='gasA',
                                                         temperature=300.0, **rs.UNITS), db_path=w, autoinsert_material=True, verbose=False)),
    ]
    # multi-valued (list) properties are stored as several rows: a failure AFTER them must still undo everything
    cases += [
        ('empty', 'material_to_db(list property, then a property None)',
         lambda w: q.material_to_db(pygaps.Material('matN', density=2.5, tags=['a', 'b', 'c'], comment=None), db_path=w, verbose=False)),
        ('with-m1', 'material_to_db(matA, list property, then a property None, overwrite=True)',
         lambda w: q.material_to_db(pygaps.Material('matA', density=9.0, tags=['x', 'y'], comment=None), db_path=w, overwrite=True, verbose=False)),
        ('with-a1', 'isotherm_to_db(auto-inserted material has a list property, then a None property)',
         lambda w: q.isotherm_to_db(pygaps.PointIsotherm(pressure=[1.0, 2.0], loading=[1.0, 2.0], material={'name': 'matN', 'density': 1.25, 'tags': ['a', 'b'], 'comment': None},
                                                         adsorbate='gasA', temperature=300.0, **rs.UNITS), db_path=w, autoinsert_material=True, verbose=False)),
        ('empty', 'adsorbate_to_db(alias list, tag list, then a property None)',
         lambda w: q.adsorbate_to_db(pygaps.Adsorbate('gasN', alias=['n1', 'n2'], tags=['t1', 't2'], molar_mass=None), db_path=w, verbose=False)),
        ('with-a1', 'isotherm_to_db(auto-inserted material has a list property; the isotherm then fails on a None metadata value)',
         lambda w: q.isotherm_to_db(pygaps.PointIsotherm(pressure=[1.0, 2.0], loading=[1.0, 2.0], material={'name': 'matN', 'density': 1.25, 'tags': ['a', 'b']},
                                                         adsorbate='gasA', temperature=300.0, remark=None, **rs.UNITS), db_path=w, autoinsert_material=True, verbose=False)),
    ]
    for prep, label, fn in cases:
        def task():
            prepared = os.path.join(sdir, 'nat-prepared.db')
            work = os.path.join(sdir, 'nat-work.db')
            before = _prepare(prep, prepared)
            fresh_copy(prepared, work)
            c08.universe('registered')
            o = core.call(fn, work)
            raw = rs.read_raw(work)
            unchanged = not before.diff(raw)
            orphans = raw.get('orphans')
            o2 = core.call(fn, work)           # the same call again in the same session: same outcome class
            return o.ok, o.brief()[:200], unchanged, orphans, before.diff(raw)[:3], o2.ok
        try:
            ok, brief, unchanged, orphans, diff, ok2 = ef.in_fork(task)
        except RuntimeError as e:
            raise core.HarnessError(f'{label}: {e}')
        ev += 1
        nt += 1
        if not ok and not unchanged:
            ctx.violate(core.make_violation({'check': 'refused-call-left-rows-behind', 'op': label.split('(')[0]},
                                            f'{label} on {prep!r} database: the call was refused ({brief}) but the file changed: {diff}', {'op': label, 'preparation': prep}))
        elif ok and (orphans or unchanged):
            ctx.violate(core.make_violation({'check': 'accepted-call-incomplete', 'op': label.split('(')[0]},
                                            f'{label} on {prep!r} database: the call returned normally but {"nothing was stored" if unchanged else "orphan rows exist: %s" % orphans}', {'op': label}))
        elif ok:
            # an accepted call must have stored the COMPLETE item: no property silently left out
            ctx.violate(core.make_violation({'check': 'input-with-unstorable-part-accepted', 'op': label.split('(')[0]},
                                            f'{label} on {prep!r} database: the input contains a value the schema cannot hold, yet the call returned normally; the file now differs from before by {diff}',
                                            {'op': label})) if 'None' in label else None
    ctx.add('natural_failures', ev, nt)


def run(ctx):
    c08.base_registries()
    check_natural_failures(ctx)
    faults = [('raise-instead', e) for e in EXC] + [('raise-after', e) for e in EXC] + [('exit-before', None), ('exit-after', None)]
    instances = INSTANCES
    bound2 = True
    if ctx.quick:
        # quick: every instance x every point x the property's fault kinds; raise-after only for two classes; bound 2 on isotherm uploads
        faults = [('raise-instead', e) for e in EXC[:3]] + [('raise-after', 'IntegrityError'), ('raise-after', 'OperationalError'),
                                                               ('exit-before', None), ('exit-after', None)]
    jobs = [(prep, prefix, (not ctx.quick) or prefix.startswith('isotherm_to_db(i1, autoinsert_material=True, autoinsert_adsorbate=True'),
             faults) for prep, prefix in instances]
    res = core.pmap(work_instance, jobs, chunk=1)
    pts = {}
    kinds = collections.Counter()
    for r in res:
        ctx.add('statement_faults', r['ev'], r['nt'])
        ctx.violate(r['viol'])
        pts[f"{r['label']} @ {r['prep']}"] = r['points']
        kinds.update(r['kinds'])
    ctx.cov['points_per_instance'] = pts
    ctx.cov['engine_level_sql_points'] = sum(r.get('sql_points', 0) for r in res)
    ctx.cov['fault_kind_counts'] = dict(kinds)
    ctx.cov['instances'] = len(instances)
    if not ctx.violations:
        ctx.require('instances', len(res), 25)
        ctx.require('total_points', sum(pts.values()), 300)
    if not ctx.quick:
        strace_crash(ctx, instances)
    ctx.cov['rule'] = ('every write-operation instance x every point k (each execute/commit/rollback/close the operation issues, learnt by a '
                       'fault-free dry run) x every fault kind (sqlite3 exception raised instead of / after the statement; os._exit before / '
                       'after it in a forked child; and, at every SQL statement the engine itself starts (inside scripts, implicit BEGIN/COMMIT), process death '
                       'and an interrupted statement); bound 2 = second fault in the retry; thorough adds SIGKILL at every write-class syscall '
                       '(strace inject). Non-trivial = the run reached the fault and the file was classified before/after.')
    r0 = res[0]
    ctx.sample({'instance': f"{r0['label']} on {r0['prep']}", 'points': r0['log']})
    ctx.sample({'fault': ['raise-instead', 'OperationalError', 5], 'judged': 'tables == model-before or model-after; retrievals intact; retry succeeds'})
    ctx.assumptions += [
        'process death = process exit / SIGKILL at statement or syscall boundaries; OS crash (torn or reordered writes) is outside the property',
        'the retry runs in the same session (in-memory registries as the failed call left them)',
        'universe and dictionary model shared with C08',
    ]
