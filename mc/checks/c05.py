"""C05 — isotherm identity is content, and only content (DESIGN §4 C05; engines E2 + E1 clause).

Insensitivity: the same content built by every construction route of a finite route alphabet (literal
types, containers, row labellings, column order, branch column dtypes, metadata order, from_isotherm,
JSON round trip, child processes under other PYTHONHASHSEEDs) must give one identifier, `==` and list
membership.  Sensitivity: every single edit of a finite content-edit alphabet must change it; the
sub-threshold data edit must not.  History: the identifier after any public mutation / read equals the
identifier of an isotherm rebuilt from the resulting content.
"""
import itertools
import json
import os
import subprocess
import sys

import numpy
import pandas

from mc import core

LEVEL = 'exploration'

U = dict(pressure_mode='absolute', pressure_unit='bar', loading_basis='molar', loading_unit='mmol', material_basis='mass',
         material_unit='g', temperature_unit='K')
META = {'note': 'hello', 'user': 'someone', 'run': 7, 'ratio': 0.25, 'ok': True}
P = [1.0, 2.0, 3.0, 4.0, 3.0, 2.0]
L = [0.5, 1.25, 1.75, 2.0, 1.875, 1.5]
BR = [0, 0, 0, 0, 1, 1]
EX1 = [5.0, 4.0, 3.0, 2.0, 1.0, 0.5]
EX2 = list('abcdef')

CHILD = r'''
import logging, json, sys, numpy, pandas, pygaps
pygaps.logger.setLevel(logging.CRITICAL)
sys.path.insert(0, %(verif)r)
from mc.checks import c05
print(json.dumps(c05.reference_ids()))
'''


def kw():
    d = dict(material='c05-mat', adsorbate='N2', temperature=77.355)
    d.update(U)
    d.update(META)
    return d


def point_df(p=P, l=L, br=BR, e1=EX1, e2=EX2, index=None):
    return pandas.DataFrame({'pressure': p, 'loading': l, 'branch': br, 'enth': e1, 'txt': e2}, index=index)


def mk_point(**over):
    import pygaps
    df = over.pop('df', None)
    if df is None:
        df = point_df()
    k = kw()
    k.update(over)
    return pygaps.PointIsotherm(isotherm_data=df, pressure_key='pressure', loading_key='loading', **k)


def mk_base(**over):
    from pygaps.core.baseisotherm import BaseIsotherm
    k = kw()
    k.update(over)
    return BaseIsotherm(**k)


def mk_model(name='Langmuir', params=None, prange=(0.5, 4.0), lrange=(0.25, 2.0), rmse=0.0125, **over):
    import pygaps
    from pygaps.modelling import get_isotherm_model
    m = get_isotherm_model(name)
    m.params = dict(params or {'K': 0.75, 'n_m': 2.5})
    m.pressure_range = tuple(prange)
    m.loading_range = tuple(lrange)
    m.rmse = rmse
    k = kw()
    k.update(over)
    return pygaps.ModelIsotherm(model=m, **k)


def fitted_routes():
    """A model isotherm FITTED to the same data given with different literal types / containers."""
    import pygaps
    pi, li = [1, 2, 3, 4, 5], [2, 4, 6, 8, 10]
    pf, lf = [float(x) for x in pi], [float(x) for x in li]
    k = kw()
    r = {}
    r['list[float]'] = lambda: pygaps.ModelIsotherm(pressure=pf, loading=lf, model='Henry', **k)
    r['list[int]'] = lambda: pygaps.ModelIsotherm(pressure=pi, loading=li, model='Henry', **k)
    r['ndarray[int]'] = lambda: pygaps.ModelIsotherm(pressure=numpy.array(pi), loading=numpy.array(li), model='Henry', **k)
    r['DataFrame[int, index 3..]'] = lambda: pygaps.ModelIsotherm(isotherm_data=pandas.DataFrame({'p': pi, 'n': li}, index=range(3, 8)),
                                                                  pressure_key='p', loading_key='n', model='Henry', **k)
    r['from_pointisotherm'] = lambda: pygaps.ModelIsotherm.from_pointisotherm(pygaps.PointIsotherm(pressure=pi, loading=li, **k), model='Henry')
    return r


def reference_ids():
    return {'base': mk_base().iso_id, 'point': mk_point().iso_id, 'model': mk_model().iso_id,
            'simple': simple_routes()['list[float]']().iso_id}


# ---------------------------------------------------------------------------
# routes

def simple_routes():
    """pressure/loading only (integer-valued pressures so that int and float literals denote the same content)."""
    import pygaps
    k = kw()
    pi, li = [1, 2, 3, 4, 3, 2], [1, 3, 5, 6, 5, 4]
    pf, lf = [float(x) for x in pi], [float(x) for x in li]
    r = {}
    r['list[float]'] = lambda: pygaps.PointIsotherm(pressure=pf, loading=lf, **k)
    r['list[int]'] = lambda: pygaps.PointIsotherm(pressure=pi, loading=li, **k)
    r['list[int]/list[float]'] = lambda: pygaps.PointIsotherm(pressure=pi, loading=lf, **k)
    r['tuple'] = lambda: pygaps.PointIsotherm(pressure=tuple(pf), loading=tuple(lf), **k)
    r['ndarray[float]'] = lambda: pygaps.PointIsotherm(pressure=numpy.array(pf), loading=numpy.array(lf), **k)
    r['ndarray[int]'] = lambda: pygaps.PointIsotherm(pressure=numpy.array(pi), loading=numpy.array(li), **k)
    r['ndarray[float32]'] = lambda: pygaps.PointIsotherm(pressure=numpy.array(pf, dtype='float32'), loading=numpy.array(lf, dtype='float32'), **k)
    r['Series(index 10..)'] = lambda: pygaps.PointIsotherm(pressure=pandas.Series(pf, index=range(10, 16)).values, loading=pandas.Series(lf).values, **k)
    for iname, idx in (('Range(0)', None), ('Range(5)', list(range(5, 11))), ('strings', list('uvwxyz')), ('reversed', [5, 4, 3, 2, 1, 0])):
        for dname, pp, ll in (('float', pf, lf), ('int', pi, li)):
            r[f'DataFrame[{iname},{dname}]'] = (lambda idx=idx, pp=pp, ll=ll: pygaps.PointIsotherm(
                isotherm_data=pandas.DataFrame({'pressure': pp, 'loading': ll}, index=idx), pressure_key='pressure', loading_key='loading', **k))
    r['DataFrame[other column names]'] = lambda: pygaps.PointIsotherm(isotherm_data=pandas.DataFrame({'pp': pf, 'nn': lf}), pressure_key='pp',
                                                                       loading_key='nn', **k)
    r["branch='guess' explicit"] = lambda: pygaps.PointIsotherm(pressure=pf, loading=lf, branch='guess', **k)
    r['branch list of bool'] = lambda: pygaps.PointIsotherm(pressure=pf, loading=lf, branch=[False, False, False, False, True, True], **k)
    r['branch list of int'] = lambda: pygaps.PointIsotherm(pressure=pf, loading=lf, branch=[0, 0, 0, 0, 1, 1], **k)
    return r


def decimal_routes():
    """Values that are not exactly representable in binary, given in containers of different precision: float32 noise on
    these magnitudes is < 1e-9, far below the 8-decimal resolution of the identity."""
    import decimal
    import pygaps
    k = kw()
    pf = [0.001, 0.002, 0.01, 0.02, 0.01, 0.002]
    lf = [0.003, 0.007, 0.011, 0.013, 0.012, 0.009]
    ef = [0.0001, 0.0003, 0.0007, 0.0009, 0.0011, 0.0013]
    r = {}
    r['list[float]'] = lambda: pygaps.PointIsotherm(pressure=pf, loading=lf, **k)
    r['ndarray[float64]'] = lambda: pygaps.PointIsotherm(pressure=numpy.array(pf), loading=numpy.array(lf), **k)
    r['ndarray[float32]'] = lambda: pygaps.PointIsotherm(pressure=numpy.array(pf, dtype='float32'), loading=numpy.array(lf, dtype='float32'), **k)
    r['ndarray[float32]/list'] = lambda: pygaps.PointIsotherm(pressure=numpy.array(pf, dtype='float32'), loading=lf, **k)
    r['ndarray[longdouble]'] = lambda: pygaps.PointIsotherm(pressure=numpy.array(pf, dtype='longdouble'), loading=numpy.array(lf, dtype='longdouble'), **k)
    r['values + 3e-10'] = lambda: pygaps.PointIsotherm(pressure=[x + 3e-10 for x in pf], loading=[x - 3e-10 for x in lf], **k)
    r['DataFrame[float32]'] = lambda: pygaps.PointIsotherm(isotherm_data=pandas.DataFrame({'pressure': pf, 'loading': lf}).astype('float32'),
                                                          pressure_key='pressure', loading_key='loading', **k)
    r['DataFrame[object]'] = lambda: pygaps.PointIsotherm(isotherm_data=pandas.DataFrame({'pressure': pf, 'loading': lf}).astype(object),
                                                         pressure_key='pressure', loading_key='loading', **k)
    return r


def decimal_extra_routes():
    """The same, for an extra data column."""
    import pygaps
    k = kw()
    pf = [0.001, 0.002, 0.01, 0.02, 0.01, 0.002]
    lf = [0.003, 0.007, 0.011, 0.013, 0.012, 0.009]
    ef = [0.0001, 0.0003, 0.0007, 0.0009, 0.0011, 0.0013]
    r = {}
    for name, dt in (('float64', 'float64'), ('float32', 'float32'), ('object', object)):
        r[f'extra column {name}'] = (lambda dt=dt: pygaps.PointIsotherm(
            isotherm_data=pandas.DataFrame({'pressure': pf, 'loading': lf, 'enth': pandas.Series(ef).astype(dt)}),
            pressure_key='pressure', loading_key='loading', **k))
    return r


def point_routes():
    import pygaps
    r = {}
    r['reference'] = lambda: mk_point()
    r['index Range(5)'] = lambda: mk_point(df=point_df(index=list(range(5, 11))))
    r['index strings'] = lambda: mk_point(df=point_df(index=list('uvwxyz')))
    for name, conv in (('bool', lambda b: [bool(x) for x in b]), ('int8', lambda b: numpy.array(b, dtype='int8')),
                       ('int64', lambda b: numpy.array(b, dtype='int64')), ('float', lambda b: [float(x) for x in b]),
                       ('object', lambda b: numpy.array(b, dtype=object))):
        r[f'branch column {name}'] = (lambda conv=conv: mk_point(df=point_df(br=conv(BR))))
    r['extra columns permuted'] = lambda: mk_point(df=point_df()[['txt', 'loading', 'enth', 'branch', 'pressure']])
    r['metadata order permuted'] = lambda: __import__('pygaps').PointIsotherm(
        isotherm_data=point_df(), pressure_key='pressure', loading_key='loading',
        **dict(reversed(list(kw().items()))))
    r['from_isotherm'] = lambda: pygaps.PointIsotherm.from_isotherm(mk_base(), isotherm_data=point_df(), pressure_key='pressure', loading_key='loading')
    r['from_json(to_json)'] = lambda: pygaps.parsing.isotherm_from_json(mk_point().to_json())
    r['material as dict/object'] = lambda: mk_point(material=pygaps.Material('c05-mat'))
    r['adsorbate alias'] = lambda: mk_point(adsorbate='nitrogen')
    r['temperature as str'] = lambda: mk_point(temperature='77.355')
    r['shorthands m/a/t'] = lambda: pygaps.PointIsotherm(isotherm_data=point_df(), pressure_key='pressure', loading_key='loading',
                                                         m='c05-mat', a='N2', t=77.355, **U, **META)
    return r


def base_routes():
    import pygaps
    from pygaps.core.baseisotherm import BaseIsotherm
    r = {}
    r['reference'] = lambda: mk_base()
    r['metadata order permuted'] = lambda: BaseIsotherm(**dict(reversed(list(kw().items()))))
    r['from_json(to_json)'] = lambda: pygaps.parsing.isotherm_from_json(mk_base().to_json())
    r['to_dict round trip'] = lambda: BaseIsotherm(**mk_base().to_dict())
    r['adsorbate alias'] = lambda: mk_base(adsorbate='NITROGEN')
    return r


def model_int_routes():
    """Integer-valued model content written as int or float literals / numpy integers."""
    r = {}
    r['float literals'] = lambda: mk_model(params={'K': 2.0, 'n_m': 3.0}, prange=(1.0, 4.0), lrange=(1.0, 2.0), rmse=0.0)
    r['int parameters'] = lambda: mk_model(params={'K': 2, 'n_m': 3}, prange=(1.0, 4.0), lrange=(1.0, 2.0), rmse=0.0)
    r['numpy int parameters'] = lambda: mk_model(params={'K': numpy.int64(2), 'n_m': numpy.int32(3)}, prange=(1.0, 4.0), lrange=(1.0, 2.0), rmse=0.0)
    r['int ranges'] = lambda: mk_model(params={'K': 2.0, 'n_m': 3.0}, prange=(1, 4), lrange=(1, 2), rmse=0.0)
    r['int rmse'] = lambda: mk_model(params={'K': 2.0, 'n_m': 3.0}, prange=(1.0, 4.0), lrange=(1.0, 2.0), rmse=0)
    r['numpy float ranges'] = lambda: mk_model(params={'K': 2.0, 'n_m': 3.0}, prange=numpy.array([1.0, 4.0]), lrange=(numpy.float64(1.0), numpy.float32(2.0)), rmse=0.0)
    return r


def zero_routes():
    """Zeros in the data: +0.0, -0.0 and values that round to zero at 8 decimals from either side are one and the same content."""
    import pygaps
    k = kw()
    r = {}
    def mkz(z1, z2):
        return lambda: pygaps.PointIsotherm(pressure=[z1, 1.0, 2.0, 3.0], loading=[z2, 0.5, 1.0, 1.25], **k)
    r['+0.0'] = mkz(0.0, 0.0)
    r['-0.0'] = mkz(-0.0, -0.0)
    r['int 0'] = mkz(0, 0)
    r['+1e-10'] = mkz(1e-10, 2e-10)
    r['-1e-10 (loading)'] = mkz(0.0, -1e-10)
    r['mixed signs'] = mkz(-0.0, 3e-9)
    return r


def early_name_routes():
    """Supplementary columns whose names sort before 'branch' ('alpha', 'Zeta'): marks given, guessed, or parsed from an export."""
    import pygaps
    k = kw()
    base = {'pressure': [1.0, 2.0, 3.0, 2.0], 'loading': [1.0, 2.0, 3.0, 2.5], 'alpha': [5.0, 4.0, 3.0, 2.0], 'Zeta': [1.0, 1.5, 2.0, 2.5]}
    def mk(cols, **extra):
        return lambda: pygaps.PointIsotherm(isotherm_data=pandas.DataFrame({c: extra.get(c, base.get(c)) for c in cols}), pressure_key='pressure', loading_key='loading', **k)
    r = {}
    r['marks guessed'] = mk(['pressure', 'loading', 'alpha', 'Zeta'])
    r['marks given, last column'] = mk(['pressure', 'loading', 'alpha', 'Zeta', 'branch'], branch=[0, 0, 0, 1])
    r['marks given, first column'] = mk(['branch', 'Zeta', 'alpha', 'loading', 'pressure'], branch=[0, 0, 0, 1])
    r['from_json(to_json)'] = lambda: pygaps.parsing.isotherm_from_json(r['marks guessed']().to_json())
    r['from_csv(to_csv)'] = lambda: pygaps.parsing.isotherm_from_csv(r['marks guessed']().to_csv())
    return r


def container_routes():
    """Metadata holding a sequence / a NaN: what the identifier calls equal, == calls equal (for every class)."""
    import pygaps
    r = {}
    r['list'] = lambda: mk_base(tags=['a', 'b'], blank=float('nan'))
    r['tuple'] = lambda: mk_base(tags=('a', 'b'), blank=float('nan'))
    r['numpy nan'] = lambda: mk_base(tags=['a', 'b'], blank=numpy.nan)
    r['from_json(to_json)'] = lambda: pygaps.parsing.isotherm_from_json(mk_base(tags=('a', 'b'), blank=float('nan')).to_json())
    r['point, list'] = lambda: mk_point(tags=['a', 'b'], blank=float('nan'))
    r['point, tuple'] = lambda: mk_point(tags=('a', 'b'), blank=float('nan'))
    r['model, list'] = lambda: mk_model(tags=['a', 'b'], blank=float('nan'))
    r['model, tuple'] = lambda: mk_model(tags=('a', 'b'), blank=float('nan'))
    return r


def zero_model_routes():
    """A model holding exact zeros (a parameter, the fit error): built by assignment, through the constructor arguments, or parsed from an export."""
    import pygaps
    from pygaps.modelling import get_isotherm_model
    pz = {'n_m': 4.0, 'K': 5.0, 'tht': 0.0}
    def via_ctor():
        m = get_isotherm_model('TemkinApprox', parameters=dict(pz), pressure_range=(0.5, 4.0), loading_range=(0.25, 2.0), rmse=0.0)
        return pygaps.ModelIsotherm(model=m, **kw())
    r = {}
    r['assigned'] = lambda: mk_model('TemkinApprox', dict(pz), rmse=0.0)
    r['constructor arguments'] = via_ctor
    r['from_json(to_json)'] = lambda: pygaps.parsing.isotherm_from_json(mk_model('TemkinApprox', dict(pz), rmse=0.0).to_json())
    r['from_csv(to_csv)'] = lambda: pygaps.parsing.isotherm_from_csv(mk_model('TemkinApprox', dict(pz), rmse=0.0).to_csv())
    r['int zero'] = lambda: mk_model('TemkinApprox', {'n_m': 4.0, 'K': 5.0, 'tht': 0}, rmse=0)
    return r


def model_routes():
    import pygaps
    r = {}
    r['reference'] = lambda: mk_model()
    r['params order permuted'] = lambda: mk_model(params={'n_m': 2.5, 'K': 0.75})
    r['numpy scalars'] = lambda: mk_model(params={'K': numpy.float64(0.75), 'n_m': numpy.float64(2.5)})
    r['ranges as lists'] = lambda: mk_model(prange=[0.5, 4.0], lrange=[0.25, 2.0])
    r['from_json(to_json)'] = lambda: pygaps.parsing.isotherm_from_json(mk_model().to_json())
    r['metadata order permuted'] = lambda: mk_model(**dict(reversed(list(META.items()))))
    return r


# ---------------------------------------------------------------------------
# edits

def point_edits():
    e = {}
    for key, val in META.items():
        e[f'metadata {key} changed'] = lambda key=key, val=val: mk_point(**{key: (not val) if isinstance(val, bool) else (val + 1 if isinstance(val, (int, float)) else val + 'x')})
        e[f'metadata {key} removed'] = lambda key=key: _without(key)
    e['metadata added'] = lambda: mk_point(extra='new')
    neigh = dict(pressure_unit='kPa', loading_unit='mol', material_unit='kg', loading_basis='mass|g', material_basis='volume|cm3',
                 pressure_mode='relative', temperature_unit='°C')
    for key, val in neigh.items():
        over = {key: val}
        if '|' in val:
            b, u = val.split('|')
            over = {key: b, key.replace('basis', 'unit'): u}
        e[f'unit label {key}'] = lambda over=over: mk_point(**over)
    e['material'] = lambda: mk_point(material='c05-other')
    e['material property'] = lambda: mk_point(material={'name': 'c05-mat', 'density': 2.0})
    e['adsorbate'] = lambda: mk_point(adsorbate='Ar')
    e['temperature +0.01'] = lambda: mk_point(temperature=77.365)
    for col, vals in (('pressure', P), ('loading', L), ('enth', EX1)):
        for i in range(len(vals)):
            v2 = list(vals)
            v2[i] = vals[i] + 1e-6
            e[f'{col}[{i}] + 1e-6'] = (lambda col=col, v2=v2: mk_point(df=point_df(**{{'pressure': 'p', 'loading': 'l', 'enth': 'e1'}[col]: v2})))
    for i in range(len(BR)):
        b2 = list(BR)
        b2[i] = 1 - b2[i]
        e[f'branch[{i}] flipped'] = lambda b2=b2: mk_point(df=point_df(br=b2))
    t2 = list(EX2)
    t2[2] = 'C'
    e['text column cell'] = lambda: mk_point(df=point_df(e2=t2))
    e['row removed'] = lambda: mk_point(df=point_df().iloc[:-1])
    e['rows reordered'] = lambda: mk_point(df=point_df().iloc[[1, 0, 2, 3, 4, 5]].reset_index(drop=True))
    e['extra column removed'] = lambda: mk_point(df=point_df().drop(columns=['enth']))
    return e


def pair_edits():
    """Pairs of isotherms with minimally different content: (name, maker A, maker B) - their identifiers must differ."""
    pairs = []
    for cls, mk in (('base', mk_base), ('point', mk_point), ('model', mk_model)):
        pairs.append((f'[{cls}] metadata under a key starting with an underscore (as the AIF parser produces): value changed',
                      lambda mk=mk: mk(_exptl_method='volumetric'), lambda mk=mk: mk(_exptl_method='gravimetric')))
        pairs.append((f'[{cls}] metadata under a key starting with an underscore: present / absent', lambda mk=mk: mk(_audit_note='x'), lambda mk=mk: mk()))
        pairs.append((f'[{cls}] metadata key data_hash: value changed', lambda mk=mk: mk(data_hash='x'), lambda mk=mk: mk(data_hash='y')))
    for cls, mk in (('base', mk_base), ('point', mk_point), ('model', mk_model)):
        # integers beyond the range in which a float can tell neighbours apart (nanosecond time stamps, 64-bit keys)
        pairs.append((f'[{cls}] integer metadata 2**53 vs 2**53 + 1', lambda mk=mk: mk(key64=2 ** 53), lambda mk=mk: mk(key64=2 ** 53 + 1)))
        pairs.append((f'[{cls}] integer metadata: nanosecond time stamps one apart', lambda mk=mk: mk(t_ns=1696334400123456789), lambda mk=mk: mk(t_ns=1696334400123456790)))
        pairs.append((f'[{cls}] integer metadata inside a list', lambda mk=mk: mk(keys=[1, 2 ** 60]), lambda mk=mk: mk(keys=[1, 2 ** 60 + 1])))
        pairs.append((f'[{cls}] metadata 5 vs 5.5', lambda mk=mk: mk(level=5), lambda mk=mk: mk(level=5.5)))
    # a model parameter / fit error of exactly zero is a value: it differs from "unknown" (NaN)
    pairs.append(('[model] parameter exactly 0 vs NaN', lambda: mk_model('TemkinApprox', {'n_m': 4.0, 'K': 5.0, 'tht': 0.0}), lambda: mk_model('TemkinApprox', {'n_m': 4.0, 'K': 5.0, 'tht': float('nan')})))
    pairs.append(('[model] fit error exactly 0 vs NaN', lambda: mk_model(rmse=0.0), lambda: mk_model(rmse=float('nan'))))
    pairs.append(('[model] parameter 0 vs 1e-300', lambda: mk_model('Quadratic', {'n_m': 2.5, 'Ka': 3.0, 'Kb': 0.0}), lambda: mk_model('Quadratic', {'n_m': 2.5, 'Ka': 3.0, 'Kb': 1e-30})))
    pairs.append(('[point] pressure and loading columns exchanged as a whole', lambda: mk_point(), lambda: mk_point(df=point_df(p=L, l=P))))
    p2, l2 = list(P), list(L)
    p2[1], l2[1] = L[1], P[1]
    pairs.append(('[point] pressure and loading of ONE point exchanged', lambda: mk_point(), lambda: mk_point(df=point_df(p=p2, l=l2))))
    two = lambda a, b: mk_point(df=point_df().drop(columns=['txt']).assign(enth=a, heat=b))     # noqa: E731
    pairs.append(('[point] contents of two supplementary columns exchanged', lambda: two(EX1, [9.0, 8.0, 7.0, 6.0, 5.0, 4.5]), lambda: two([9.0, 8.0, 7.0, 6.0, 5.0, 4.5], EX1)))
    # supplementary columns of object dtype that MIX kinds (remarks next to numbers, numbers held as text, placeholders): one cell changed
    mixed = {'text with one numeric-looking entry': ['ok', '2', 'leak', 'ok', 'ok', 'end'], 'numbers with text entries': [1.5, 'leak', 2.5, 3.5, 'n/a', 5.5],
             'numeric-looking texts with a placeholder': ['1.5', '-', '2.5', '3.5', '4.5', '5.5'], 'numbers with a blank': [1.5, '', 2.5, 3.5, 4.5, 5.5],
             'booleans and texts': [True, 'x', False, True, 'y', False]}
    for cname, colv in mixed.items():
        for i, cell in enumerate(colv):
            if not isinstance(cell, str):
                continue
            for repl in ('other', '', None, '-', '7'):
                if repl == cell or (cell == '' and repl is None):      # (a blank and a missing entry both say "no value": not a change of content)
                    continue
                c2 = list(colv)
                c2[i] = repl
                pairs.append((f'[point] supplementary column ({cname}) {colv}: entry {i} {cell!r} -> {repl!r}',
                              lambda colv=colv: mk_point(df=point_df(e2=colv)), lambda c2=c2: mk_point(df=point_df(e2=c2))))
    e3 = list(EX1)
    e3[0], e3[1] = EX1[1], EX1[0]
    pairs.append(('[point] two cells of one supplementary column exchanged between rows', lambda: mk_point(), lambda: mk_point(df=point_df(e1=e3))))
    return pairs


def _without(key):
    import pygaps
    k = kw()
    k.pop(key)
    return pygaps.PointIsotherm(isotherm_data=point_df(), pressure_key='pressure', loading_key='loading', **k)


def model_edits():
    e = {}
    e['param K x(1+1e-6)'] = lambda: mk_model(params={'K': 0.75 * (1 + 1e-6), 'n_m': 2.5})
    e['param n_m x(1+1e-6)'] = lambda: mk_model(params={'K': 0.75, 'n_m': 2.5 * (1 + 1e-6)})
    e['pressure_range lower'] = lambda: mk_model(prange=(0.5001, 4.0))
    e['loading_range upper'] = lambda: mk_model(lrange=(0.25, 2.0001))
    e['model name'] = lambda: mk_model(name='Freundlich', params={'K': 0.75, 'm': 2.5})
    e['metadata changed'] = lambda: mk_model(note='other')
    e['temperature'] = lambda: mk_model(temperature=77.365)
    e['unit label'] = lambda: mk_model(pressure_unit='kPa')
    return e


def small_model_edits():
    """A model whose parameters are small in absolute value (Henry constant with pressure in Pa)."""
    ref = lambda: mk_model(name='Henry', params={'K': 2e-9}, prange=(1e3, 1e5), lrange=(2e-6, 2e-4), pressure_unit='Pa')
    e = {'param K x(1+1e-6)': lambda: mk_model(name='Henry', params={'K': 2e-9 * (1 + 1e-6)}, prange=(1e3, 1e5), lrange=(2e-6, 2e-4), pressure_unit='Pa'),
         'param K x2': lambda: mk_model(name='Henry', params={'K': 4e-9}, prange=(1e3, 1e5), lrange=(2e-6, 2e-4), pressure_unit='Pa')}
    return ref, e


def run(ctx):
    import pygaps
    ev = nt = 0
    # ---- insensitivity
    groups = [('simple', simple_routes(), 'list[float]'), ('decimal', decimal_routes(), 'list[float]'),
              ('decimal extra column', decimal_extra_routes(), 'extra column float64'), ('zeros', zero_routes(), '+0.0'),
              ('model with integer-valued content', model_int_routes(), 'float literals'), ('container metadata', container_routes(), 'list'), ('model with exact zeros', zero_model_routes(), 'assigned'),
              ('early-named extra columns', early_name_routes(), 'marks guessed'),
              ('point', point_routes(), 'reference'), ('base', base_routes(), 'reference'),
              ('model', model_routes(), 'reference'), ('fitted model', fitted_routes(), 'list[float]')]
    ids_ref = {}
    for gname, routes, refname in groups:
        ref = routes[refname]()
        ids_ref[gname] = ref.iso_id
        pool = [ref]
        for rname, mk in routes.items():
            o = core.call(mk)
            ev += 1
            if not o.ok:
                ctx.violate(core.make_violation({'check': 'route-fails', 'template': gname, 'route': rname},
                                                f'[{gname}] construction route {rname!r} {o.brief()}', {'route': rname}, 'an isotherm', o.brief()))
                continue
            iso = o.value
            oid = core.call(lambda: iso.iso_id)
            if rname != refname:
                nt += 1
            if not oid.ok:
                ctx.violate(core.make_violation({'check': 'id-raises', 'template': gname, 'route': rname},
                                                f'[{gname}] iso_id of an isotherm built by route {rname!r} {oid.brief()}', {'route': rname}, ref.iso_id, oid.brief()))
                continue
            if gname == 'container metadata':
                # three classes in one group: each route is compared with the 'list' route of its own class
                cls = rname.split(',')[0] if ',' in rname else 'base'
                ref = routes[{'base': 'list', 'point': 'point, list', 'model': 'model, list'}[cls]]()
                pool = [ref]
            same = oid.value == ref.iso_id
            eq = core.call(lambda: iso == ref)
            member = core.call(lambda: iso in pool)
            if not same or not (eq.ok and eq.value) or not (member.ok and member.value):
                ctx.violate(core.make_violation(
                    {'check': 'same-content-different-id', 'template': gname, 'route': rname},
                    f'[{gname}] same content built by route {rname!r} has identifier {oid.value} != {ref.iso_id} (==: {eq.value if eq.ok else eq.brief()})',
                    {'route': rname, 'reference_route': refname}, ref.iso_id, oid.value))
    # ---- other processes / hash seeds
    code = CHILD % {'verif': core.VERIF}
    here = reference_ids()
    # fixed seeds (so that a dependence on hash randomisation shows on EVERY run, not by chance) + one random
    seeds = [str(i) for i in range(8)] + ['12345', 'random']
    procs = [(seed, subprocess.Popen([sys.executable, '-c', code], stdout=subprocess.PIPE, stderr=subprocess.PIPE, text=True,
                                     env=dict(os.environ, PYTHONHASHSEED=seed), cwd='/')) for seed in seeds]
    for seed, pr in procs:
        so, se = pr.communicate()
        ev += 1
        nt += 1
        try:
            there = json.loads(so.strip().splitlines()[-1])
        except Exception:
            raise core.HarnessError(f'child process failed: {se[-400:]}')
        if there != here:
            ctx.violate(core.make_violation({'check': 'id-differs-across-processes', 'hashseed': 'fixed' if seed != 'random' else 'random'},
                                            f'identifiers differ in a child process with PYTHONHASHSEED={seed}: {there} vs {here}', {'seed': seed}, here, there))
    # ---- sensitivity
    ref_p = mk_point()
    for name, mk in point_edits().items():
        o = core.call(lambda: mk().iso_id)
        ev += 1
        nt += 1
        if o.ok and o.value == ref_p.iso_id:
            ctx.violate(core.make_violation({'check': 'edit-does-not-change-id', 'template': 'point', 'edit': name.split('[')[0].split(' ')[0]},
                                            f'[point] content edit {name!r} leaves the identifier unchanged', {'edit': name}, 'a different id', o.value))
        if o.ok and core.call(lambda: mk() == ref_p).value:
            ctx.violate(core.make_violation({'check': 'edit-still-equal', 'template': 'point', 'edit': name.split('[')[0].split(' ')[0]},
                                            f'[point] after edit {name!r} the isotherm still compares equal', {'edit': name}))
    for name, mk_a, mk_b in pair_edits():
        oa, ob = core.call(lambda: mk_a().iso_id), core.call(lambda: mk_b().iso_id)
        ev += 1
        nt += 1
        if oa.ok and ob.ok and oa.value == ob.value:
            ctx.violate(core.make_violation({'check': 'edit-does-not-change-id', 'template': 'pair', 'edit': name.split('] ')[1].split(':')[0]},
                                            f'{name}: both isotherms have the identifier {oa.value}', {'edit': name}, 'different identifiers', oa.value))
        elif oa.ok and ob.ok and core.call(lambda: mk_a() == mk_b()).value:
            ctx.violate(core.make_violation({'check': 'edit-still-equal', 'template': 'pair', 'edit': name.split('] ')[1].split(':')[0]},
                                            f'{name}: the two isotherms compare equal', {'edit': name}))
    ref_m = mk_model()
    for name, mk in model_edits().items():
        o = core.call(lambda: mk().iso_id)
        ev += 1
        nt += 1
        if o.ok and o.value == ref_m.iso_id:
            ctx.violate(core.make_violation({'check': 'edit-does-not-change-id', 'template': 'model', 'edit': name},
                                            f'[model] content edit {name!r} leaves the identifier unchanged', {'edit': name}, 'a different id', o.value))
    ref_s, edits_s = small_model_edits()
    for name, mk in edits_s.items():
        o = core.call(lambda: mk().iso_id)
        ev += 1
        nt += 1
        if o.ok and o.value == ref_s().iso_id:
            ctx.violate(core.make_violation({'check': 'edit-does-not-change-id', 'template': 'model(small parameters)', 'edit': name},
                                            f'[model, K=2e-9] content edit {name!r} leaves the identifier unchanged', {'edit': name}))
    ref_b = mk_base()
    for name, over in (('metadata', dict(note='x')), ('unit', dict(loading_unit='mol')), ('temperature', dict(temperature=77.365)),
                       ('adsorbate', dict(adsorbate='Ar')), ('material', dict(material='zz'))):
        o = core.call(lambda: mk_base(**over).iso_id)
        ev += 1
        nt += 1
        if o.ok and o.value == ref_b.iso_id:
            ctx.violate(core.make_violation({'check': 'edit-does-not-change-id', 'template': 'base', 'edit': name},
                                            f'[base] content edit {name!r} leaves the identifier unchanged', {'edit': name}))
    # below the 8-decimal threshold: must NOT change
    for col, vals in (('pressure', P), ('loading', L)):
        for i in range(len(vals)):
            v2 = list(vals)
            v2[i] = vals[i] + 1e-10
            arg = {'pressure': 'p', 'loading': 'l'}[col]
            o = core.call(lambda: mk_point(df=point_df(**{arg: v2})).iso_id)
            ev += 1
            nt += 1
            if not o.ok or o.value != ref_p.iso_id:
                ctx.violate(core.make_violation({'check': 'sub-threshold-edit-changes-id', 'column': col},
                                                f'{col}[{i}] + 1e-10 (below the 8-decimal precision) changes the identifier', {'col': col, 'i': i}, ref_p.iso_id, o.value if o.ok else o.brief()))
    # ---- identity tracks content through any history of public calls (depth 1 and 2)
    def rebuilt(iso):
        d = iso.to_dict()
        return pygaps.PointIsotherm(isotherm_data=iso.data_raw.copy(), pressure_key=iso.pressure_key, loading_key=iso.loading_key, **d)

    ops = {
        'iso_id': lambda i: i.iso_id,
        'repr': lambda i: repr(i),
        'str': lambda i: str(i),
        'temperature': lambda i: i.temperature,
        'to_dict': lambda i: i.to_dict(),
        'loading(unit mol)': lambda i: i.loading(loading_unit='mol'),
        'pressure(relative)': lambda i: i.pressure(pressure_mode='relative'),
        '== other': lambda i: i == mk_base(),
        'loading_at': lambda i: i.loading_at(1.5),
        'pressure_at(cubic)': lambda i: i.pressure_at(1.0, interpolation_type='cubic'),
        'spreading_pressure_at': lambda i: i.spreading_pressure_at(2.5),
        'to_json': lambda i: i.to_json(),
        'to_csv': lambda i: i.to_csv(),
        'convert_pressure(kPa)': lambda i: i.convert_pressure(unit_to='kPa'),
        'convert_pressure(relative)': lambda i: i.convert_pressure(mode_to='relative'),
        'convert_loading(mol)': lambda i: i.convert_loading(unit_to='mol'),
        'convert_loading(mass g)': lambda i: i.convert_loading(basis_to='mass', unit_to='g'),
        'convert_material(kg)': lambda i: i.convert_material(unit_to='kg'),
        'convert_temperature(°C)': lambda i: i.convert_temperature('°C'),
        'convert_temperature(K)': lambda i: i.convert_temperature('K'),
        'properties edited in place': lambda i: i.properties.__setitem__('note', 'edited'),
        'data cell edited in place': lambda i: i.data_raw.__setitem__('loading', i.data_raw['loading'] * 1.5),
        'data_raw replaced': lambda i: setattr(i, 'data_raw', i.data_raw.assign(loading=i.data_raw['loading'] + 0.25)),
    }
    READS = {'iso_id', 'repr', 'str', 'temperature', 'to_dict', 'loading(unit mol)', 'pressure(relative)', '== other', 'loading_at',
             'pressure_at(cubic)', 'spreading_pressure_at', 'to_json', 'to_csv'}
    templates = {'kelvin': {}, 'celsius': dict(temperature=-195.795, temperature_unit='°C')}
    fresh = {t: (mk_point(**o).iso_id, mk_point(**o).to_dict()) for t, o in templates.items()}
    for tname, h in [(t, h) for t in templates for h in list(itertools.product(ops, repeat=1)) + list(itertools.product(ops, repeat=2))]:
        iso = mk_point(**templates[tname])
        bad = False
        for op in h:
            if not core.call(ops[op], iso).ok:
                bad = True
                break
        ev += 1
        if bad:
            continue
        nt += 1
        if all(op in READS for op in h):
            got = core.call(lambda: (iso.iso_id, iso.to_dict()))
            if not got.ok or got.value != fresh[tname]:
                what = 'identifier' if (not got.ok or got.value[0] != fresh[tname][0]) else 'to_dict()'
                ctx.violate(core.make_violation(
                    {'check': 'read-changes-identity', 'last_op': h[-1].split('(')[0], 'template': tname},
                    f'[{tname} isotherm] after the read-only calls {list(h)} the {what} differs from that of a fresh isotherm: '
                    f'{got.value if got.ok else got.brief()} vs {fresh[tname]}', {'history': list(h), 'template': tname}, fresh[tname],
                    got.value if got.ok else got.brief()))
                continue
        got = core.call(lambda: iso.iso_id)
        want = core.call(lambda: rebuilt(iso).iso_id)
        if want.ok and (not got.ok or got.value != want.value):
            ctx.violate(core.make_violation(
                {'check': 'id-does-not-track-content', 'template': tname, 'last_op': h[-1].split('(')[0], 'first_op': h[0].split('(')[0] if len(h) > 1 else None},
                f'[{tname} isotherm] after {list(h)} the identifier is {got.value if got.ok else got.brief()} but an isotherm rebuilt from the same content has {want.value}',
                {'history': list(h)}, want.value, got.value if got.ok else got.brief(),
                unit_test=("import logging, pandas, pygaps\npygaps.logger.setLevel(logging.CRITICAL)\n"
                           f"import sys; sys.path.insert(0, {core.VERIF!r})\nfrom mc.checks import c05\n"
                           "iso = c05.mk_point()\n" + ''.join(f"_ = {o!r}\n" for o in []) +
                           f"# history: {list(h)!r} (see mc/checks/c05.py ops)\n"
                           "raise AssertionError('replay through ./vcheck C05')\n")))
    # ---- user subclasses that add nothing to the content (a convenience method): same identity rules as the plain classes
    def subclasses():
        import pygaps as pg
        from pygaps.core.baseisotherm import BaseIsotherm as BI

        class LabPoint(pg.PointIsotherm):
            def label(self):
                return f'{self.material} / {self.adsorbate}'

        class LabModel(pg.ModelIsotherm):
            def label(self):
                return f'{self.material} / {self.adsorbate}'

        class LabBase(BI):
            pass
        return LabPoint, LabModel, LabBase
    LabPoint, LabModel, LabBase = subclasses()
    plain_p, plain_m, plain_b = mk_point(), mk_model(), mk_base()
    sub_p = LabPoint(isotherm_data=point_df(), pressure_key='pressure', loading_key='loading', **kw())
    sub_m = LabModel(model=plain_m.model, **kw())
    sub_b = LabBase(**kw())
    for tname, plain, sub in (('point', plain_p, sub_p), ('model', plain_m, sub_m), ('base', plain_b, sub_b)):
        ev += 1
        nt += 1
        if sub.iso_id != plain.iso_id or not (sub == plain):
            ctx.violate(core.make_violation({'check': 'subclass-identity', 'template': tname, 'what': 'differs from the plain class'},
                                            f'an instance of a user subclass of the {tname} isotherm class with the same content has identifier {sub.iso_id}, the plain class {plain.iso_id}', {}))
    df2 = point_df()
    df2.loc[2, 'loading'] = df2.loc[2, 'loading'] + 1e-3
    sub_p2 = LabPoint(isotherm_data=df2, pressure_key='pressure', loading_key='loading', **kw())
    m2 = mk_model(params={'K': 0.75, 'n_m': 2.6}).model
    sub_m2 = LabModel(model=m2, **kw())
    for tname, a, b, what in (('point', sub_p, sub_p2, 'a data value'), ('model', sub_m, sub_m2, 'a model parameter')):
        ev += 1
        nt += 1
        if a.iso_id == b.iso_id or a == b:
            ctx.violate(core.make_violation({'check': 'subclass-identity', 'template': tname, 'what': 'content not counted'},
                                            f'two instances of a user subclass of the {tname} isotherm class that differ in {what} have the same identifier / compare equal', {}))
    ctx.add('routes_edits_histories', ev, nt)
    ctx.cov['rule'] = ('route alphabet (49 routes over 4 templates) x identifier/==/membership; 4 child processes with other hash seeds; content-edit '
                       'alphabet (every metadata key, unit label, material, adsorbate, temperature, every data cell + 1e-6, every branch mark, '
                       'model parameters incl. small-magnitude ones, ranges, name) must change the id, every data cell + 1e-10 must not; all '
                       'histories of length 1 and 2 over 17 public reads/mutations: id == id of an isotherm rebuilt from the resulting content. '
                       'Non-trivial = a route other than the reference / an edit / a completed history.')
    ctx.sample({'routes': list(point_routes())[:6]})
    ctx.sample({'edit': 'loading[3] + 1e-6', 'expected': 'identifier changes'})
    ctx.sample({'history': ['iso_id', 'convert_loading(mol)'], 'expected': 'id equals that of an isotherm rebuilt from the converted content'})
    ctx.cov['reference_ids'] = here
    ctx.assumptions += ['equality of identifiers judged on md5 strings; no hand-written expected hashes',
                        'content = metadata, unit labels, material (with properties), adsorbate, temperature, data incl. branch marks at 8 decimals, model name/parameters/ranges']
