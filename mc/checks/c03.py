"""C03 — data accessors in requested units agree with permanent conversion (DESIGN §4 C03; engine E2).

Enumerated: every stored representation S x every requested representation R (pressure 10x10;
loading x material: quick the unit-class quotient (10x6)^2, thorough (27x19)^2), both classes,
branches, limits, query points at knots / midpoints / quarter points, foreign inputs; the branch
guess rule over all pressure sequences of length 1-5 over {1,2,3} x containers x row labellings;
the interpolation clauses.
Oracle: a copy of the isotherm permanently converted to R and read natively (point isotherms);
bare model o reference conversion (model isotherms).
"""
import itertools

import numpy
import pandas

from mc import core
from mc import ref_units as ru

LEVEL = 'exploration'
TOL = 1e-9

P_ADS = [0.1, 0.2, 0.35, 0.5]
P_DES = [0.4, 0.25]
L_ADS = [1.0, 2.0, 3.0, 4.0]
L_DES = [3.8, 3.0]
BR = [0, 0, 0, 0, 1, 1]
INDEX = [7, 8, 9, 10, 11, 12]
T = 77.355
MAT = dict(density=2.0, molar_mass=100.0)
BASE = ('absolute', 'bar', 'molar', 'mmol', 'mass', 'g')
UKEYS = ['pressure_mode', 'pressure_unit', 'loading_basis', 'loading_unit', 'material_basis', 'material_unit']

Q_LREPS = [('molar', 'mmol'), ('molar', 'cm3(STP)'), ('mass', 'g'), ('mass', 'mg'), ('volume_gas', 'cm3'),
           ('volume_liquid', 'cm3'), ('volume_liquid', 'L'), ('fraction', None), ('percent', None), ('molar', 'mol')]
Q_MREPS = [('mass', 'g'), ('mass', 'kg'), ('volume', 'cm3'), ('volume', 'm3'), ('molar', 'mol'), ('molar', 'mmol')]
Q_PREPS = [('absolute', 'bar'), ('absolute', 'Pa'), ('absolute', 'torr'), ('relative', None), ('relative%', None)]


def consts():
    import pygaps
    return ru.ads_consts(pygaps.Adsorbate.find('N2').backend_name, T)


def base_arrays(scale):
    p = numpy.array(P_ADS + P_DES) * 1.0
    l = numpy.array(L_ADS + L_DES) * scale
    return p, l


def data_in(rep, scale):
    """Base data expressed in representation rep = (pm, pu, lb, lu, mb, mu)."""
    c = consts()
    p, l = base_arrays(scale)
    rp = ru.c_pressure(p, BASE[0], BASE[1], rep[0], rep[1], c)
    rl = ru.full_loading(l, BASE[2], BASE[3], BASE[4], BASE[5], rep[2], rep[3], rep[4], rep[5], c, MAT)
    return rp, rl


def mk_point(rep, scale):
    import pygaps
    rp, rl = data_in(rep, scale)
    df = pandas.DataFrame({'pressure': rp, 'loading': rl, 'branch': BR}, index=INDEX)
    return pygaps.PointIsotherm(isotherm_data=df, pressure_key='pressure', loading_key='loading',
                                material=pygaps.Material('c03-mat', **MAT), adsorbate='N2', temperature=T,
                                temperature_unit='K', **dict(zip(UKEYS, rep)))


def permanent(rep_s, rep_r, scale):
    """Copy stored in S, permanently converted to R; None if the conversion is refused or C02-inconsistent."""
    iso = mk_point(rep_s, scale)
    o = core.call(iso.convert, pressure_mode=rep_r[0], pressure_unit=rep_r[1], loading_basis=rep_r[2], loading_unit=rep_r[3],
                  material_basis=rep_r[4], material_unit=rep_r[5])
    if not o.ok:
        return None
    rp, rl = data_in(rep_r, scale)
    if core.relerr(iso.data_raw['pressure'].values, rp) > 5e-4 or core.relerr(iso.data_raw['loading'].values, rl) > 5e-4:
        return None     # permanent conversion itself is off: C02's verdict, not C03's
    return iso


def sel(arr, branch):
    arr = numpy.asarray(arr)
    if branch == 'ads':
        return arr[:4]
    if branch == 'des':
        return arr[4:]
    return arr


def _v(check, what, case, exp, obs, extra=None, ut=None):
    sig = {'check': check}
    if extra:
        sig.update(extra)
    return core.make_violation(sig, what, case, exp, obs, ut)


def sclass(rep_s, rep_r):
    """Signature class of an (S, R) pair: which corner of the representation space it lies in."""
    fs = rep_s[2] in ('fraction', 'percent')
    fr = rep_r[2] in ('fraction', 'percent')
    mat = 'material-changes' if (rep_s[4], rep_s[5]) != (rep_r[4], rep_r[5]) else 'material-same'
    return {'stored_loading': 'fractional' if fs else 'physical', 'requested_loading': 'fractional' if fr else 'physical',
            'material': mat}


def req_kwargs(rep_s, rep_r):
    """Keyword arguments a user passes to request representation R (only what differs is *required*, we pass all of R)."""
    kw = {}
    kw['pressure_mode'] = rep_r[0]
    if rep_r[1]:
        kw['pressure_unit'] = rep_r[1]
    kw['loading_basis'] = rep_r[2]
    if rep_r[3]:
        kw['loading_unit'] = rep_r[3]
    kw['material_basis'] = rep_r[4]
    kw['material_unit'] = rep_r[5]
    return kw


def ut_point(rep_s, rep_r, scale, call_src, expect_src):
    return (
        "import logging, numpy, pandas, pygaps\npygaps.logger.setLevel(logging.CRITICAL)\n"
        f"UK = {UKEYS!r}\n"
        f"def mk(rep, p, l):\n"
        f"    df = pandas.DataFrame({{'pressure': p, 'loading': l, 'branch': {BR!r}}})\n"
        f"    return pygaps.PointIsotherm(isotherm_data=df, pressure_key='pressure', loading_key='loading', "
        f"material=pygaps.Material('m', **{MAT!r}), adsorbate='N2', temperature={T!r}, temperature_unit='K', **dict(zip(UK, rep)))\n"
        f"S = {tuple(rep_s)!r}; R = {tuple(rep_r)!r}\n"
        f"p, l = {list(map(float, data_in(rep_s, scale)[0]))!r}, {list(map(float, data_in(rep_s, scale)[1]))!r}\n"
        "iso = mk(S, p, l)\nperm = mk(S, p, l)\n"
        "perm.convert(pressure_mode=R[0], pressure_unit=R[1], loading_basis=R[2], loading_unit=R[3], material_basis=R[4], material_unit=R[5])\n"
        "kw = dict(zip(UK, R)); kw = {k: v for k, v in kw.items() if v}\n"
        f"got = {call_src}\nexp = {expect_src}\n"
        "print('accessor:', got); print('permanent conversion:', exp)\n"
        "assert numpy.allclose(got, exp, rtol=1e-8, atol=0), 'C03: accessor disagrees with permanent conversion'\n"
    )


# --- work: loading representations -------------------------------------------------

def work_loading(arg):
    srep_l, rreps, scale, prep = arg
    rep_s = prep + srep_l
    out = {'ev': 0, 'nt': 0, 'viol': [], 'worst': 0.0, 'skipped': 0}
    iso = mk_point(rep_s, scale)
    sp, sl = iso.data_raw['pressure'].values.copy(), iso.data_raw['loading'].values.copy()
    for rrep_l in rreps:
        rep_r = prep + rrep_l
        perm = permanent(rep_s, rep_r, scale)
        if perm is None:
            out['skipped'] += 1
            continue
        el = perm.data_raw['loading'].values
        nontriv = rrep_l != srep_l
        lkw = {k: v for k, v in zip(UKEYS[2:], rrep_l) if v}
        case = {'stored': rep_s, 'requested': rep_r}
        cls = sclass(rep_s, rep_r)

        def cmp(check, got, exp, what, call_src, exp_src):
            out['ev'] += 1
            if nontriv:
                out['nt'] += 1
            if not got.ok:
                out['viol'].append(_v('accessor-vs-permanent', f'{what} stored {rep_s} requested {rep_r}: {got.brief()}', dict(case, accessor=check), exp, got.brief(),
                                      dict(cls, object='point'), ut_point(rep_s, rep_r, scale, call_src, exp_src)))
                return
            e = core.relerr(got.value, exp)
            out['worst'] = max(out['worst'], e if numpy.isfinite(e) else 0.0)
            if e > TOL:
                out['viol'].append(_v('accessor-vs-permanent', f'{what} stored {rep_s} requested {rep_r}: rel. dev. {e:.3g} from permanent conversion',
                                      dict(case, accessor=check), exp, got.value, dict(cls, object='point'), ut_point(rep_s, rep_r, scale, call_src, exp_src)))

        # whole column / branches
        for br in (None, 'ads', 'des'):
            cmp('loading()', core.call(iso.loading, branch=br, **lkw), sel(el, br), f'loading(branch={br})',
                f"iso.loading(branch={br!r}, **{{k: v for k, v in kw.items() if k[0] in 'lm'}})", f"perm.loading(branch={br!r})")
        # limits strictly between data values, on the requested representation
        s = numpy.sort(numpy.unique(el))
        lo, hi = (s[0] + s[1]) / 2, (s[-1] + s[-2]) / 2
        for lim in ((lo, hi), (None, hi), (lo, None)):
            m = numpy.ones(len(el), dtype=bool)
            if lim[0] is not None:
                m &= el >= lim[0]
            if lim[1] is not None:
                m &= el <= lim[1]
            cmp('loading(limits)', core.call(iso.loading, limits=lim, **lkw), el[m], f'loading(limits={lim})',
                f"iso.loading(limits={lim!r}, **{{k: v for k, v in kw.items() if k[0] in 'lm'}})", f"perm.loading(limits={lim!r})")
        # interpolation: output in R
        pq = numpy.array([sp[0], (sp[0] + sp[1]) / 2, sp[1], sp[1] + (sp[2] - sp[1]) / 4, sp[3]])
        exp = core.call(perm.loading_at, pq)
        if exp.ok:
            cmp('loading_at(out)', core.call(iso.loading_at, pq, **lkw), exp.value, 'loading_at(native p) in requested units',
                f"iso.loading_at({list(map(float, pq))!r}, **{{k: v for k, v in kw.items() if k[0] in 'lm'}})",
                f"perm.loading_at({list(map(float, pq))!r})")
            cmp('loading_at(out,scalar)', core.call(iso.loading_at, float(pq[1]), **lkw), exp.value[1], 'loading_at(scalar) in requested units',
                f"iso.loading_at({float(pq[1])!r}, **{{k: v for k, v in kw.items() if k[0] in 'lm'}})", f"perm.loading_at({float(pq[1])!r})")
        # des branch
        pqd = numpy.array([sp[5], (sp[4] + sp[5]) / 2])
        expd = core.call(perm.loading_at, pqd, branch='des')
        if expd.ok:
            cmp('loading_at(out,des)', core.call(iso.loading_at, pqd, branch='des', **lkw), expd.value, 'loading_at(branch=des)',
                f"iso.loading_at({list(map(float, pqd))!r}, branch='des', **{{k: v for k, v in kw.items() if k[0] in 'lm'}})",
                f"perm.loading_at({list(map(float, pqd))!r}, branch='des')")
        # foreign input: loading given in R, pressure out natively
        elq = numpy.array([el[1], (el[0] + el[1]) / 2, el[2], el[2] + (el[3] - el[2]) / 4])
        expp = core.call(perm.pressure_at, elq)
        ikw = dict(lkw)
        if rrep_l[0] in ('fraction', 'percent'):
            # the signature demands a loading unit even for a unit-less basis; its value is irrelevant
            ikw['loading_unit'] = 'mmol'
        if expp.ok:
            cmp('pressure_at(in)', core.call(iso.pressure_at, elq, **ikw), expp.value, 'pressure_at(loading given in requested units)',
                f"iso.pressure_at({list(map(float, elq))!r}, **{{k: v for k, v in kw.items() if k[0] in 'lm'}})",
                f"perm.pressure_at({list(map(float, elq))!r})")
    return out


# --- work: pressure representations -------------------------------------------------

def work_pressure(arg):
    srep_p, rreps, scale, lrep = arg
    rep_s = srep_p + lrep
    out = {'ev': 0, 'nt': 0, 'viol': [], 'worst': 0.0, 'skipped': 0}
    iso = mk_point(rep_s, scale)
    sp, sl = iso.data_raw['pressure'].values.copy(), iso.data_raw['loading'].values.copy()
    for rrep_p in rreps:
        rep_r = rrep_p + lrep
        perm = permanent(rep_s, rep_r, scale)
        if perm is None:
            out['skipped'] += 1
            continue
        ep = perm.data_raw['pressure'].values
        nontriv = rrep_p != srep_p
        pkw = {k: v for k, v in zip(UKEYS[:2], rrep_p) if v}
        case = {'stored': rep_s, 'requested': rep_r}
        cls = {'stored_mode': srep_p[0], 'requested_mode': rrep_p[0]}

        def cmp(check, got, exp, what, call_src, exp_src):
            out['ev'] += 1
            if nontriv:
                out['nt'] += 1
            if not got.ok:
                out['viol'].append(_v('accessor-vs-permanent', f'{what} stored {rep_s} requested {rep_r}: {got.brief()}', dict(case, accessor=check), exp, got.brief(),
                                      dict(cls, object='point'), ut_point(rep_s, rep_r, scale, call_src, exp_src)))
                return
            e = core.relerr(got.value, exp)
            out['worst'] = max(out['worst'], e if numpy.isfinite(e) else 0.0)
            if e > TOL:
                out['viol'].append(_v('accessor-vs-permanent', f'{what} stored {rep_s} requested {rep_r}: rel. dev. {e:.3g} from permanent conversion',
                                      dict(case, accessor=check), exp, got.value, dict(cls, object='point'), ut_point(rep_s, rep_r, scale, call_src, exp_src)))

        for br in (None, 'ads', 'des'):
            cmp('pressure()', core.call(iso.pressure, branch=br, **pkw), sel(ep, br), f'pressure(branch={br})',
                f"iso.pressure(branch={br!r}, **{{k: v for k, v in kw.items() if k[0] == 'p'}})", f"perm.pressure(branch={br!r})")
        s = numpy.sort(numpy.unique(ep))
        lo, hi = (s[0] + s[1]) / 2, (s[-1] + s[-2]) / 2
        for lim in ((lo, hi), (None, hi), (lo, None)):
            m = numpy.ones(len(ep), dtype=bool)
            if lim[0] is not None:
                m &= ep >= lim[0]
            if lim[1] is not None:
                m &= ep <= lim[1]
            for br in (None, 'des'):
                mm = m.copy()
                if br == 'des':
                    mm[:4] = False
                cmp('pressure(limits)', core.call(iso.pressure, branch=br, limits=lim, **pkw), ep[mm], f'pressure(branch={br}, limits={lim})',
                    f"iso.pressure(branch={br!r}, limits={lim!r}, **{{k: v for k, v in kw.items() if k[0] == 'p'}})",
                    f"perm.pressure(branch={br!r}, limits={lim!r})")
        # interpolation: pressure out in R
        lq = numpy.array([sl[0], (sl[0] + sl[1]) / 2, sl[2], sl[2] + (sl[3] - sl[2]) / 4])
        exp = core.call(perm.pressure_at, lq)
        if exp.ok:
            cmp('pressure_at(out)', core.call(iso.pressure_at, lq, **pkw), exp.value, 'pressure_at(native n) in requested units',
                f"iso.pressure_at({list(map(float, lq))!r}, **{{k: v for k, v in kw.items() if k[0] == 'p'}})", f"perm.pressure_at({list(map(float, lq))!r})")
        # foreign input: pressure given in R
        epq = numpy.array([ep[1], (ep[0] + ep[1]) / 2, ep[2], ep[2] + (ep[3] - ep[2]) / 4])
        expl = core.call(perm.loading_at, epq)
        if expl.ok:
            cmp('loading_at(in)', core.call(iso.loading_at, epq, **pkw), expl.value, 'loading_at(pressure given in requested units)',
                f"iso.loading_at({list(map(float, epq))!r}, **{{k: v for k, v in kw.items() if k[0] == 'p'}})", f"perm.loading_at({list(map(float, epq))!r})")
            cmp('loading_at(in,list)', core.call(iso.loading_at, [float(x) for x in epq], **pkw), expl.value, 'loading_at(list input)',
                f"iso.loading_at({list(map(float, epq))!r}, **{{k: v for k, v in kw.items() if k[0] == 'p'}})", f"perm.loading_at({list(map(float, epq))!r})")
        epd = numpy.array([ep[5] + (ep[4] - ep[5]) / 4, (ep[4] + ep[5]) / 2])
        expd = core.call(perm.loading_at, epd, branch='des')
        if expd.ok:
            cmp('loading_at(in,des)', core.call(iso.loading_at, epd, branch='des', **pkw), expd.value, 'loading_at(branch=des, foreign pressure)',
                f"iso.loading_at({list(map(float, epd))!r}, branch='des', **{{k: v for k, v in kw.items() if k[0] == 'p'}})",
                f"perm.loading_at({list(map(float, epd))!r}, branch='des')")
        # ordered accessor
        from pygaps.utilities.pygaps_utilities import get_iso_loading_and_pressure_ordered
        for br in ('ads', 'des'):
            o = core.call(get_iso_loading_and_pressure_ordered, iso, br, {k: v for k, v in zip(UKEYS[2:], lrep) if v}, pkw)
            out['ev'] += 1
            if o.ok:
                gp, gl = o.value
                order = numpy.argsort(sel(ep, br), kind='stable') if br == 'des' else numpy.arange(len(sel(ep, br)))
                xp = sel(ep, br)
                if br == 'des':
                    xp = xp[::-1]
                if core.relerr(gp, xp) > TOL:
                    out['viol'].append(_v('ordered-accessor', f'get_iso_loading_and_pressure_ordered({br}) stored {rep_s} requested {rep_r}',
                                          case, xp, gp, cls))
    return out


# --- model isotherms --------------------------------------------------------------------

def work_model(arg):
    with ru.library_tables():
        return _work_model(arg)


def _work_model(arg):
    import pygaps
    from pygaps.modelling import get_isotherm_model
    srep, rreps, mname = arg
    out = {'ev': 0, 'nt': 0, 'viol': [], 'worst': 0.0, 'skipped': 0}
    c = consts()
    model = get_isotherm_model(mname)
    if mname == 'Langmuir':
        model.params = {'K': 2.5, 'n_m': 5.0}
        pq = numpy.array([0.05, 0.3, 1.1])
        nq = numpy.array([0.4, 2.2, 4.1])
    else:
        model.params = {'K': 10.0, 'A': 0.05, 'B': 0.01, 'C': 0.001}
        pq = None
        nq = numpy.array([0.4, 2.2, 4.1])
    model.pressure_range = (0.01, 2.0)
    model.loading_range = (0.1, 4.5)
    iso = pygaps.ModelIsotherm(model=model, material=pygaps.Material('c03-mat', **MAT), adsorbate='N2', temperature=T,
                               temperature_unit='K', **dict(zip(UKEYS, srep)))
    for rrep in rreps:
        kw = {k: v for k, v in zip(UKEYS, rrep) if v}
        pkw = {k: v for k, v in kw.items() if k[0] == 'p'}
        lkw = {k: v for k, v in kw.items() if k[0] in 'lm'}
        case = {'model': mname, 'stored': srep, 'requested': rrep}
        cls = sclass(srep, rrep)
        nontriv = rrep != srep

        def cmp(check, got, exp, what):
            out['ev'] += 1
            if nontriv:
                out['nt'] += 1
            if not got.ok:
                out['viol'].append(_v('accessor-vs-permanent', f'ModelIsotherm[{mname}] {what} stored {srep} requested {rrep}: {got.brief()}',
                                      dict(case, accessor=check), exp, got.brief(), dict(cls, object='model')))
                return
            e = core.relerr(got.value, exp)
            out['worst'] = max(out['worst'], e if numpy.isfinite(e) else 0.0)
            if e > 1e-8:
                out['viol'].append(_v('accessor-vs-permanent', f'ModelIsotherm[{mname}] {what} stored {srep} requested {rrep}: rel. dev. {e:.3g} from model o reference conversion',
                                      dict(case, accessor=check), exp, got.value, dict(cls, object='model')))

        if model.calculates == 'loading':
            # pressure given in R -> loading out in R
            p_in = ru.c_pressure(pq, srep[0], srep[1], rrep[0], rrep[1], c)
            n_nat = model.loading(pq)
            n_out = ru.full_loading(n_nat, srep[2], srep[3], srep[4], srep[5], rrep[2], rrep[3], rrep[4], rrep[5], c, MAT)
            cmp('model.loading_at', core.call(iso.loading_at, p_in, **kw), n_out, 'loading_at(foreign p) in requested units')
            cmp('model.loading_at(scalar)', core.call(iso.loading_at, float(p_in[1]), **kw), n_out[1], 'loading_at(scalar)')
            n_in = ru.full_loading(nq, srep[2], srep[3], srep[4], srep[5], rrep[2], rrep[3], rrep[4], rrep[5], c, MAT)
            p_out = ru.c_pressure(model.pressure(nq), srep[0], srep[1], rrep[0], rrep[1], c)
            kwi = dict(kw, loading_unit='mmol') if rrep[2] in ('fraction', 'percent') else kw
            cmp('model.pressure_at', core.call(iso.pressure_at, n_in, **kwi), p_out, 'pressure_at(foreign n) in requested units')
            # whole curves
            pts = numpy.linspace(model.pressure_range[0], model.pressure_range[1], 7)
            cmp('model.pressure()', core.call(iso.pressure, 7, **pkw), ru.c_pressure(pts, srep[0], srep[1], rrep[0], rrep[1], c), 'pressure(points=7)')
            cmp('model.loading()', core.call(iso.loading, 7, **lkw),
                ru.full_loading(model.loading(pts), srep[2], srep[3], srep[4], srep[5], rrep[2], rrep[3], rrep[4], rrep[5], c, MAT),
                'loading(points=7)')
        else:
            if rrep[2] not in ('fraction', 'percent'):
                n_in = ru.full_loading(nq, srep[2], srep[3], srep[4], srep[5], rrep[2], rrep[3], rrep[4], rrep[5], c, MAT)
                p_out = ru.c_pressure(model.pressure(nq), srep[0], srep[1], rrep[0], rrep[1], c)
                cmp('model.pressure_at', core.call(iso.pressure_at, n_in, **kw), p_out, 'pressure_at(foreign n) in requested units')
            pts = numpy.linspace(model.loading_range[0], model.loading_range[1], 7)
            cmp('model.loading()', core.call(iso.loading, 7, **lkw),
                ru.full_loading(pts, srep[2], srep[3], srep[4], srep[5], rrep[2], rrep[3], rrep[4], rrep[5], c, MAT), 'loading(points=7)')
            cmp('model.pressure()', core.call(iso.pressure, 7, **pkw),
                ru.c_pressure(model.pressure(pts), srep[0], srep[1], rrep[0], rrep[1], c), 'pressure(points=7)')
    return out


# --- branch guess rule ------------------------------------------------------------------------

def check_branch_rule(ctx):
    import pygaps
    labellings = {
        'Range(0)': lambda n: list(range(n)),
        'Range(1)': lambda n: list(range(1, n + 1)),
        'Range(3)': lambda n: list(range(3, n + 3)),
        'reversed': lambda n: list(range(n, 0, -1)),
        'strings': lambda n: [f'r{i}' for i in range(n)],
    }
    ev = nt = 0
    for n in range(1, 6):
        for seq in itertools.product([1, 2, 3], repeat=n):
            results = {}
            for dt in (int, float):
                vals = [dt(x) for x in seq]
                load = [float(i + 1) for i in range(n)]
                routes = {
                    'list': lambda: pygaps.PointIsotherm(pressure=vals, loading=load, material='m', adsorbate='N2', temperature=77.0,
                                                         **dict(zip(UKEYS, BASE)), temperature_unit='K'),
                    'ndarray': lambda: pygaps.PointIsotherm(pressure=numpy.array(vals), loading=numpy.array(load), material='m',
                                                            adsorbate='N2', temperature=77.0, **dict(zip(UKEYS, BASE)), temperature_unit='K'),
                    'Series': lambda: pygaps.PointIsotherm(pressure=pandas.Series(vals), loading=pandas.Series(load), material='m',
                                                           adsorbate='N2', temperature=77.0, **dict(zip(UKEYS, BASE)), temperature_unit='K'),
                }
                for lname, lab in labellings.items():
                    routes[f'DataFrame[{lname}]'] = (lambda lab=lab: pygaps.PointIsotherm(
                        isotherm_data=pandas.DataFrame({'pressure': vals, 'loading': load}, index=lab(n)), pressure_key='pressure',
                        loading_key='loading', material='m', adsorbate='N2', temperature=77.0, **dict(zip(UKEYS, BASE)), temperature_unit='K'))
                for rname, mk in routes.items():
                    o = core.call(mk)
                    ev += 1
                    results[(rname, dt.__name__)] = tuple(int(b) for b in o.value.data_raw['branch']) if o.ok else o.brief()
            distinct = set(results.values())
            if len(distinct) > 1:
                nt += 1
                ref = results[('list', 'int')]
                bad = {f'{k[0]}/{k[1]}': v for k, v in results.items() if v != ref}
                kinds = sorted({k.split('[')[1].rstrip(']').split('/')[0] if '[' in k else k.split('/')[0] for k in bad})
                ctx.violate(_v('branch-rule-depends-on-labels-or-types',
                               f'pressures {seq}: the branch split is {ref} from plain lists but differs for {sorted(bad)[:4]}',
                               {'pressures': seq}, ref, bad, {'differs_for': kinds},
                               ut=("import logging, pandas, pygaps\npygaps.logger.setLevel(logging.CRITICAL)\n"
                                   f"p = {list(seq)!r}; l = {[float(i + 1) for i in range(n)]!r}\n"
                                   "kw = dict(material='m', adsorbate='N2', temperature=77.0)\n"
                                   "a = pygaps.PointIsotherm(pressure=p, loading=l, **kw).data_raw['branch'].tolist()\n"
                                   "for idx in ([i + 1 for i in range(len(p))], [i + 3 for i in range(len(p))], ['r%d' % i for i in range(len(p))]):\n"
                                   "    b = pygaps.PointIsotherm(isotherm_data=pandas.DataFrame({'pressure': p, 'loading': l}, index=idx), pressure_key='pressure', loading_key='loading', **kw).data_raw['branch'].tolist()\n"
                                   "    print(idx, a, b)\n    assert a == b, 'branch split depends on the row labels'\n")))
                continue
            got = next(iter(distinct))
            if not isinstance(got, tuple):
                ctx.violate(_v('branch-rule-raises', f'pressures {seq}: construction {got}', {'pressures': seq}, None, got))
                continue
            nt += 1
            strictly_inc = all(a < b for a, b in zip(seq, seq[1:]))
            m = seq.index(max(seq))
            single_interior_max = 0 < m < n - 1 and seq.count(max(seq)) == 1 and all(a < b for a, b in zip(seq[:m + 1], seq[1:m + 1])) \
                and all(a > b for a, b in zip(seq[m:], seq[m + 1:]))
            if strictly_inc and any(got):
                ctx.violate(_v('branch-rule-increasing', f'strictly increasing pressures {seq} are not all adsorption: {got}',
                               {'pressures': seq}, (0,) * n, got))
            if single_interior_max:
                exp = tuple([0] * (m + 1) + [1] * (n - m - 1))
                if got != exp:
                    ctx.violate(_v('branch-rule-maximum', f'pressures {seq} with one interior maximum: split {got}, expected {exp}',
                                   {'pressures': seq}, exp, got))
    ctx.add('branch_rule', ev, nt)


def check_model_branch_rule(ctx):
    """A model fitted to one branch of hysteresis data sees the rows of that branch only, whatever the route by which the (unmarked) data arrive."""
    import pygaps
    ev = nt = 0
    kw = dict(material='m', adsorbate='N2', temperature=77.0, temperature_unit='K', **dict(zip(UKEYS, BASE)))
    pa = numpy.linspace(0.05, 2.0, 12)
    pd_ = pa[::-1][1:]
    gens = {'ads': (2.0, 4.0), 'des': (5.0, 4.4)}
    na = gens['ads'][1] * gens['ads'][0] * pa / (1 + gens['ads'][0] * pa)
    nd = gens['des'][1] * gens['des'][0] * pd_ / (1 + gens['des'][0] * pd_)
    pr, ld = numpy.concatenate([pa, pd_]), numpy.concatenate([na, nd])
    marks = [False] * len(pa) + [True] * len(pd_)
    for labels in (None, list(range(5, 5 + len(pr))), [f'r{i}' for i in range(len(pr))]):
        frame = pandas.DataFrame({'pressure': pr, 'loading': ld}, index=labels)
        marked = frame.assign(branch=marks)
        for br in ('ads', 'des'):
            routes = {
                'unmarked frame': lambda: pygaps.ModelIsotherm(isotherm_data=frame.copy(), pressure_key='pressure', loading_key='loading', model='Langmuir', branch=br, **kw),
                # (plain pressure / loading arrays carry no branch information: they are fitted as given, by design)
                'frame with marks': lambda: pygaps.ModelIsotherm(isotherm_data=marked.copy(), pressure_key='pressure', loading_key='loading', model='Langmuir', branch=br, **kw),
                'from a point isotherm': lambda: pygaps.ModelIsotherm.from_pointisotherm(
                    pygaps.PointIsotherm(isotherm_data=frame.copy(), pressure_key='pressure', loading_key='loading', **kw), model='Langmuir', branch=br),
                'guess over two models': lambda: pygaps.ModelIsotherm.guess(isotherm_data=frame.copy(), pressure_key='pressure', loading_key='loading', models=['Langmuir', 'Henry'], branch=br, **kw),
            }
            K, nm = gens[br]
            for rname, mk in routes.items():
                o = core.call(mk)
                ev += 1
                nt += 1
                good = o.ok and o.value.model.name == 'Langmuir' and abs(o.value.model.params['K'] - K) < 1e-4 * K and abs(o.value.model.params['n_m'] - nm) < 1e-4 * nm
                if not good:
                    ctx.violate(_v('model-branch-rule', f'Langmuir fitted to branch {br!r} of hysteresis data (adsorption generated with K, n_m = {gens["ads"]}, desorption with {gens["des"]}) '
                                   f'given as {rname} (row labels {"default" if labels is None else labels[:2]}): {o.value.model.params if o.ok else o.brief()[:160]}',
                                   {'route': rname, 'branch': br}, {'K': K, 'n_m': nm}, o.value.model.params if o.ok else o.brief(), {'route': rname}))
    ctx.add('model_branch_rule', ev, nt)


# --- limits: zero is a number, not "no limit" --------------------------------------------------------

def check_limits_zero(ctx):
    """Data with negative and zero values (excess uptake, a drifting baseline): every limit pair over {None, negative, 0, 0.0, positive}."""
    import pygaps
    ev = nt = 0
    pr = [0.0, 0.1, 0.2, 0.4, 0.8, 0.5, 0.2]
    ld = [-0.3, -0.1, 0.0, 0.4, 1.0, 0.8, -0.05]
    en = [-2.0, -1.0, 0.0, 1.0, 2.0, 1.0, 0.0]
    df = pandas.DataFrame({'pressure': pr, 'loading': ld, 'branch': [0, 0, 0, 0, 0, 1, 1], 'enth': en})
    def mk():
        return pygaps.PointIsotherm(isotherm_data=df.copy(), pressure_key='pressure', loading_key='loading', material=pygaps.Material('c03-mat', **MAT), adsorbate='N2',
                                    temperature=T, temperature_unit='K', **dict(zip(UKEYS, BASE)))
    ends = [None, -0.2, 0, 0.0, 0.45]
    for lo, hi in itertools.product(ends, ends):
        if lo is not None and hi is not None and lo > hi:
            continue
        for acc, col, kws in (('loading', ld, [({}, 1.0), (dict(loading_unit='mol'), 1e-3)]), ('pressure', pr, [({}, 1.0), (dict(pressure_unit='kPa'), 100.0)]),
                              ('other_data', en, [({}, 1.0)])):
            for kw, fac in kws:
                for br, rows in ((None, range(7)), ('ads', range(5)), ('des', range(5, 7))):
                    iso = mk()
                    args = ('enth',) if acc == 'other_data' else ()
                    o = core.call(getattr(iso, acc), *args, branch=br, limits=(lo, hi), **kw)
                    vals = [col[i] * fac for i in rows]
                    want = [v for v in vals if (lo is None or v >= lo) and (hi is None or v <= hi)]
                    ev += 1
                    nt += 1
                    got = list(numpy.asarray(o.value, dtype=float)) if o.ok else None
                    if got is None or len(got) != len(want) or core.relerr(got, want) > 1e-12:
                        ctx.violate(_v('limits-with-zero', f'{acc}(branch={br}, limits=({lo!r}, {hi!r}), {kw}) = {got if o.ok else o.brief()[:100]} but the values between the limits are {want}',
                                       {'accessor': acc, 'limits': [lo, hi]}, want, got, {'accessor': acc, 'zero_end': 'lower' if lo == 0 and lo is not None else ('upper' if hi == 0 and hi is not None else 'none')}))
    ctx.add('limits_with_zero', ev, nt)


# --- interpolation clauses -------------------------------------------------------------------------

def _interp_clauses(ctx, mk, sigx):
    ev = nt = 0
    tag = '' if sigx.get('magnitude') == 'ordinary' else f" [stored numbers: {sigx['magnitude']}]"

    def _vv(check, what, case, exp, obs, extra):
        ex = dict(extra)
        if sigx.get('magnitude') != 'ordinary':
            ex['magnitude'] = 'scaled'
        return _v(check, what + tag, case, exp, obs, ex)
    iso0 = mk()
    p, l = iso0.data_raw['pressure'].values, iso0.data_raw['loading'].values
    for br, sl_ in (('ads', slice(0, 4)), ('des', slice(4, 6))):
        pb, lb = p[sl_], l[sl_]
        order = numpy.argsort(pb)
        pb, lb = pb[order], lb[order]
        iso = mk()
        # knots
        for x, y in zip(pb, lb):
            o = core.call(iso.loading_at, float(x), branch=br)
            o2 = core.call(iso.pressure_at, float(y), branch=br)
            ev += 2; nt += 2
            if not o.ok or abs(float(o.value) - y) > 1e-12 * abs(y):
                ctx.violate(_vv('interp-knot', f'loading_at({x}, branch={br}) = {o.value if o.ok else o.brief()} but the measured point is {y}', {'p': x, 'branch': br}, y, o.value if o.ok else o.brief(), {'fn': 'loading_at'}))
            if not o2.ok or abs(float(o2.value) - x) > 1e-12 * abs(x):
                ctx.violate(_vv('interp-knot', f'pressure_at({y}, branch={br}) is not the measured pressure {x}', {'n': y, 'branch': br}, x, o2.value if o2.ok else o2.brief(), {'fn': 'pressure_at'}))
        # chords
        for i in range(len(pb) - 1):
            for f in (0.5, 0.25, 0.9):
                x = pb[i] + f * (pb[i + 1] - pb[i])
                y = lb[i] + f * (lb[i + 1] - lb[i])
                o = core.call(iso.loading_at, x, branch=br)
                o2 = core.call(iso.pressure_at, y, branch=br)
                ev += 2; nt += 2
                if not o.ok or core.relerr(o.value, y) > 1e-12:
                    ctx.violate(_vv('interp-chord', f'loading_at({x}, branch={br}) is not on the straight line between neighbours', {'p': x}, y, o.value if o.ok else o.brief(), {'fn': 'loading_at'}))
                if not o2.ok or core.relerr(o2.value, x) > 1e-12:
                    ctx.violate(_vv('interp-chord', f'pressure_at({y}, branch={br}) is not on the straight line between neighbours', {'n': y}, x, o2.value if o2.ok else o2.brief(), {'fn': 'pressure_at'}))
        # outside
        for x in (pb[0] * 0.5, pb[0] * 0.98, pb[-1] * 1.02, pb[-1] * 1.5):
            fresh = mk()
            o = core.call(fresh.loading_at, x, branch=br)
            ev += 1; nt += 1
            if o.ok:
                ctx.violate(_vv('interp-outside-not-refused', f'loading_at({x}, branch={br}) outside the measured range returned {o.value}', {'p': x}, 'refused', o.value, {'fn': 'loading_at'}))
            for fill in (0.0, 7.5):
                fresh = mk()
                o = core.call(fresh.loading_at, x, branch=br, interp_fill=fill)
                ev += 1; nt += 1
                if not o.ok or float(o.value) != fill:
                    ctx.violate(_vv('interp-fill', f'loading_at({x}, branch={br}, interp_fill={fill}) = {o.value if o.ok else o.brief()}', {'p': x}, fill, o.value if o.ok else o.brief(), {'fn': 'loading_at'}))
        for y in (lb.min() * 0.5, lb.min() * 0.98, lb.max() * 1.02, lb.max() * 1.5):
            fresh = mk()
            o = core.call(fresh.pressure_at, y, branch=br)
            ev += 1; nt += 1
            if o.ok:
                ctx.violate(_vv('interp-outside-not-refused', f'pressure_at({y}, branch={br}) outside the measured range returned {o.value}', {'n': y}, 'refused', o.value, {'fn': 'pressure_at'}))
    return ev, nt


def check_interpolation(ctx):
    ev = nt = 0
    import pygaps
    base_iso = mk_point(BASE, ctx.scale)

    def mk_scaled(mp, ml):
        """The same curve with the stored NUMBERS scaled (magnitudes as they occur in MPa, or kmol per mg: 1e-9 ... 1e6)."""
        d = base_iso.data_raw.copy()
        d['pressure'] = d['pressure'] * mp
        d['loading'] = d['loading'] * ml
        return pygaps.PointIsotherm(isotherm_data=d, pressure_key='pressure', loading_key='loading', **base_iso.to_dict())

    def mk_gaps():
        """Missing values in a SUPPLEMENTARY column (first and last row of a branch among them): pressure and loading are complete."""
        d = base_iso.data_raw.copy()
        d['extra'] = [float('nan'), 1.0, float('nan'), float('nan'), 2.0, float('nan')][:len(d)]
        d['remark'] = [None, 'a', 'b', None, None, 'c'][:len(d)]
        return pygaps.PointIsotherm(isotherm_data=d, pressure_key='pressure', loading_key='loading', **base_iso.to_dict())

    def mk_reordered():
        """Rows of each branch stored against the conventional direction (adsorption from high to low pressure, desorption upwards)."""
        d = base_iso.data_raw.copy()
        a, b = d[d['branch'] == 0].iloc[::-1], d[d['branch'] == 1].iloc[::-1]
        return pygaps.PointIsotherm(isotherm_data=pandas.concat([a, b]).reset_index(drop=True), pressure_key='pressure', loading_key='loading', **base_iso.to_dict())

    for mkx, tagx in ((mk_gaps, 'missing values in supplementary columns'), (mk_reordered, 'branches stored in reverse row order')):
        e2, n2 = _interp_clauses(ctx, mkx, {'magnitude': tagx})
        ev += e2
        nt += n2
    for mp, ml in ((1.0, 1.0), (1e-9, 1.0), (1.0, 1e-9), (1e-9, 1e-9), (1e6, 1e6), (3e-7, 2e-8)):
        e2, n2 = _interp_clauses(ctx, lambda: mk_scaled(mp, ml), {'magnitude': 'ordinary' if (mp, ml) == (1.0, 1.0) else f'p x {mp:g}, n x {ml:g}'})
        ev += e2
        nt += n2
    # the same clauses on ONE object over every ordered pair of interpolation settings (the cached interpolator must not leak)
    settings = [(k, f) for k in ('linear', 'cubic') for f in (None, 0.0, 'extrapolate')]
    p, l = base_iso.data_raw['pressure'].values, base_iso.data_raw['loading'].values
    pa, la = p[:4], l[:4]
    inside_p, out_p = (pa[1] + pa[2]) / 2, pa[3] * 1.5
    inside_l, out_l = (la[1] + la[2]) / 2, la[3] * 1.5
    for fn, x_in, x_out in (('loading_at', inside_p, out_p), ('pressure_at', inside_l, out_l)):
        for a, b in itertools.product(settings, settings):
            if a == b:
                continue
            iso = mk_point(BASE, ctx.scale)
            core.call(getattr(iso, fn), x_in, interpolation_type=a[0], interp_fill=a[1])
            for x in (x_in, x_out):
                fresh = mk_point(BASE, ctx.scale)
                want = core.call(getattr(fresh, fn), x, interpolation_type=b[0], interp_fill=b[1])
                got = core.call(getattr(iso, fn), x, interpolation_type=b[0], interp_fill=b[1])
                ev += 1; nt += 1
                same = (want.ok == got.ok) and (not want.ok or core.close(got.value, want.value, rel=1e-12))
                if not same:
                    ctx.violate(_v('interp-settings-leak', f'{fn}({x}) with (kind, fill)={b} after a call with {a}: {got.brief()} but a fresh isotherm: {want.brief()}',
                                   {'fn': fn, 'first': a, 'second': b, 'x': x}, want.brief(), got.brief(), {'fn': fn},
                                   ut=("import logging, pygaps\npygaps.logger.setLevel(logging.CRITICAL)\n"
                                       f"mk = lambda: pygaps.PointIsotherm(pressure={list(map(float, pa))!r}, loading={list(map(float, la))!r}, material='m', adsorbate='N2', temperature=77.355)\n"
                                       "def out(f):\n    try:\n        return float(f())\n    except Exception as e:\n        return type(e).__name__\n"
                                       f"iso = mk(); iso.{fn}({float(x_in)!r}, interpolation_type={a[0]!r}, interp_fill={a[1]!r})\n"
                                       f"got = out(lambda: iso.{fn}({float(x)!r}, interpolation_type={b[0]!r}, interp_fill={b[1]!r}))\n"
                                       f"fresh = mk(); want = out(lambda: fresh.{fn}({float(x)!r}, interpolation_type={b[0]!r}, interp_fill={b[1]!r}))\n"
                                       "print(got, want); assert got == want, 'interpolation settings of an earlier call leak into a later one'\n")))
    ctx.add('interpolation', ev, nt)


def run(ctx):
    scale = ctx.scale
    if ctx.quick:
        lreps = [l + m for l in Q_LREPS for m in Q_MREPS]
    else:
        lreps = [l + m for l in ru.LOADING_REPS for m in ru.MATERIAL_REPS]
    preps = ru.PRESSURE_REPS
    # loading loop at two pressure representations (quick: one)
    jobs = []
    for prep in ([('absolute', 'bar')] if ctx.quick else [('absolute', 'bar'), ('relative', None)]):
        for s in lreps:
            jobs.append((s, lreps, scale, prep))
    res = core.pmap(work_loading, jobs, chunk=1 if not ctx.quick else 2)
    for r in res:
        ctx.add('point_loading_reps', r['ev'], r['nt'], skipped_pairs=r['skipped'])
        ctx.violate(r['viol'])
        ctx.track('accessor_vs_permanent', r['worst'], TOL)
    # pressure loop at several loading representations
    jobs = []
    lfix = [('molar', 'mmol', 'mass', 'g'), ('fraction', None, 'mass', 'g'), ('volume_liquid', 'cm3', 'volume', 'cm3')]
    for lrep in lfix:
        for s in preps:
            jobs.append((s, preps, scale, lrep))
    res = core.pmap(work_pressure, jobs, chunk=1)
    for r in res:
        ctx.add('point_pressure_reps', r['ev'], r['nt'], skipped_pairs=r['skipped'])
        ctx.violate(r['viol'])
        ctx.track('accessor_vs_permanent', r['worst'], TOL)
    # cross: pressure and loading arguments together on the quotient
    # (the loading loop already passes loading+material; here both families at once)
    # model isotherms
    mq = [p + l + m for p in Q_PREPS for l in Q_LREPS[:8] for m in Q_MREPS[:4:1]]
    if ctx.quick:
        mq = [p + l + m for p in Q_PREPS[:4] for l in [Q_LREPS[0], Q_LREPS[2], Q_LREPS[5], Q_LREPS[7], Q_LREPS[8]] for m in [Q_MREPS[0], Q_MREPS[2], Q_MREPS[5]]]
    jobs = [(s, mq, 'Langmuir') for s in mq] + [(s, mq, 'Virial') for s in mq[::3]]
    res = core.pmap(work_model, jobs, chunk=2)
    for r in res:
        ctx.add('model_isotherm_reps', r['ev'], r['nt'])
        ctx.violate(r['viol'])
        ctx.track('model_vs_reference', r['worst'], 1e-8)
    check_branch_rule(ctx)
    check_model_branch_rule(ctx)
    check_interpolation(ctx)
    check_limits_zero(ctx)
    ctx.cov['domain_sizes'] = {'loading_x_material_reps': len(lreps), 'pressure_reps': len(preps), 'model_reps': len(mq)}
    ctx.cov['rule'] = ('every ordered pair (stored S, requested R) of loading x material representations (quick: unit-class quotient 60x60; thorough '
                       '513x513) and of the 10 pressure representations; for each pair the accessors pressure()/loading() (3 branches, 3 limit '
                       'shapes), loading_at/pressure_at (knots, midpoints, quarter points; scalar, list, array; both branches; foreign inputs) are '
                       'compared with a copy permanently converted to R; model isotherms (Langmuir, Virial) against bare model o reference '
                       'conversion; branch rule over all 363 pressure sequences x 16 construction routes. Non-trivial = S != R.')
    ctx.assumptions += ['the permanent conversion used as oracle is itself checked against the SI reference by C02 (pairs where it deviates are skipped and counted)',
                        'pressure_at takes a fraction/percent loading only together with a (meaningless) loading_unit: the harness passes one',
                        'one data set with strictly monotonic branches; N2 at 77.355 K']
    ctx.sample({'stored': list(BASE), 'requested': ['absolute', 'bar', 'fraction', None, 'volume', 'cm3'],
                'accessor': "loading_at([0.1, 0.15, ...], loading_basis='fraction', material_basis='volume', material_unit='cm3')"})
    ctx.sample({'branch_rule': {'pressures': [1, 3, 2], 'expected': [0, 0, 1], 'routes': 16}})
    ctx.sample({'model': 'Langmuir', 'stored': list(mq[3]), 'requested': list(mq[10])})
