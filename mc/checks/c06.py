"""C06 — JSON export and import are exact inverses (DESIGN §4 C06; engine E2).

Full product of: class {metadata-only, point, model} x 12 unit configurations x data shapes (n in {1,2,4,7} x 5 branch
patterns x 4 extra-column sets) x a metadata alphabet x target {string, file}; all 16 models with in-bound parameters
(DR/DA both fitted and built from an instance).
Oracle: from(to(x)) == x; to_dict() equal incl. Python types; every data column and branch mark; model
name/parameters/ranges/rmse and every prediction on a grid; to(from(to(x))) byte-identical to to(x).
"""
import json
import os

import numpy

from mc import core
from mc import isogen as g

LEVEL = 'exploration'

META_ALPHABET = [
    ('plain', 'hello world'), ('unicode', 'Ünï-cødé µm ✓'), ('text_none', 'None'), ('text_true', 'true'), ('text_int', '5'),
    ('text_sci', '1e3'), ('empty', ''), ('int', 5), ('negint', -3), ('float', 5.5), ('bool', True), ('boolf', False), ('null', None),
    ('list', [1, 2, 'x']), ('nested', {'a': {'b': 1}, 'c': [1.5]}), ('key with blank', 'v'), ('ключ', 'значение'), ('big', 12345678901234),
    ('smallfloat', 1.25e-12),
    # keys that look like names other tools / older versions of the format use for built-in fields: plain metadata all the same
    ('material_name', 'Basolite C300'), ('t_iso', 303.15), ('adsorbent_basis', 'mass'), ('adsorbent_unit', 'kg'), ('sample_name', 'batch 7'), ('t_exp', 25),
    ('date', '2020-01-31'), ('DOI', '10.1000/xyz'), ('hashkey', 'abc123'), ('units', 'SI'), ('data', 'raw'),
    ('isotherm', 'first'), ('version', 2), ('comment', 'a, b; c'),
]


def typed_equal(a, b):
    if type(a) is not type(b):
        # bool/int and int/float confusion are type changes; numpy scalars are not Python types
        return False
    if isinstance(a, dict):
        return set(a) == set(b) and all(typed_equal(a[k], b[k]) for k in a)
    if isinstance(a, (list, tuple)):
        return len(a) == len(b) and all(typed_equal(x, y) for x, y in zip(a, b))
    if isinstance(a, float):
        return a == b or (a != a and b != b)
    return a == b


def dict_diff(a, b):
    return {k: (a.get(k, '<absent>'), b.get(k, '<absent>')) for k in sorted(set(a) | set(b), key=str)
            if not (k in a and k in b and typed_equal(a[k], b[k]))}


def roundtrip(iso, target, tag):
    from pygaps.parsing import isotherm_from_json, isotherm_to_json
    keys = {}
    if getattr(iso, 'pressure_key', 'pressure') != 'pressure' or getattr(iso, 'loading_key', 'loading') != 'loading':
        # the JSON document does not name the pressure/loading columns: the importer takes them as arguments
        keys = dict(pressure_key=iso.pressure_key, loading_key=iso.loading_key)
    if target == 'string':
        txt = isotherm_to_json(iso)
        back = isotherm_from_json(txt, **keys)
        txt2 = isotherm_to_json(back)
    else:
        path = os.path.join(core.scratch(), f'c06-{os.getpid()}.json')
        isotherm_to_json(iso, path)
        txt = open(path, encoding='utf-8').read()
        back = isotherm_from_json(path, **keys)
        isotherm_to_json(back, path)
        txt2 = open(path, encoding='utf-8').read()
    return txt, back, txt2


def judge(iso, kind, case, target, sigx):
    """Round trip one isotherm; return list of violations."""
    import pygaps
    out = []

    def v(check, what, exp=None, obs=None, extra=None):
        sig = {'check': check, 'class': kind}
        sig.update(sigx)
        if extra:
            sig.update(extra)
        out.append(core.make_violation(sig, f'[{kind}, {target}] {what} — case {case}', dict(case, target=target), exp, obs))

    o = core.call(roundtrip, iso, target, kind)
    if not o.ok:
        v('round-trip-raises', o.brief(), 'an equal isotherm', o.brief(), {'kind': o.kind})
        return out
    txt, back, txt2 = o.value
    # (an instance of a user subclass comes back as the library class it derives from)
    lib_class = next(c_ for c_ in type(iso).__mro__ if c_.__module__.startswith('pygaps.'))
    if type(back) is not lib_class:
        v('class-changed', f'{type(iso).__name__} came back as {type(back).__name__}')
        return out
    d1, d2 = iso.to_dict(), back.to_dict()
    dd = dict_diff(d1, d2)
    if dd:
        v('to_dict-differs', f'to_dict() differs after the round trip: {core.short(dd, 300)}', None, dd, {'keys': sorted(map(str, dd))[:3]})
    if isinstance(iso, pygaps.PointIsotherm):
        a, b = iso.data_raw, back.data_raw
        if list(a.columns) != list(b.columns) or len(a) != len(b):
            v('data-shape', f'columns/rows changed: {list(a.columns)}x{len(a)} -> {list(b.columns)}x{len(b)}')
        else:
            for col in a.columns:
                x, y = a[col].tolist(), b[col].tolist()
                if col == 'branch':
                    if [int(t) for t in x] != [int(t) for t in y]:
                        v('branch-marks', f'branch marks changed {x} -> {y}', x, y, {})
                elif x != y and not (len(x) == len(y) and all((p == q) or (p != p and q != q) for p, q in zip(x, y))):
                    v('data-column', f'column {col!r} changed: {x} -> {y}', x, y, {'column': col if col in ('pressure', 'loading') else 'extra'})
    if isinstance(iso, pygaps.ModelIsotherm):
        if getattr(iso, 'branch', None) != getattr(back, 'branch', None):
            v('model-branch', f'the branch the model describes changed: {getattr(iso, "branch", None)!r} -> {getattr(back, "branch", None)!r}',
              getattr(iso, 'branch', None), getattr(back, 'branch', None))
        m1, m2 = iso.model.to_dict(), back.model.to_dict()
        for k in ('name', 'rmse', 'parameters', 'pressure_range', 'loading_range'):
            x, y = m1[k], m2[k]
            if isinstance(x, tuple):
                x, y = list(x), list(y)
            if isinstance(x, dict):
                same = list(x) == list(y) and all(float(x[q]) == float(y[q]) for q in x)
            elif isinstance(x, list):
                same = len(x) == len(y) and all(float(p) == float(q) for p, q in zip(x, y))
            elif isinstance(x, str):
                same = x == y
            else:
                same = (float(x) == float(y)) if not isinstance(y, str) else False
            if not same:
                v('model-field', f'model {k} changed: {x!r} -> {y!r}', x, y, {'field': k})
        p1 = core.call(g.predictions, iso)
        p2 = core.call(g.predictions, back)
        if p1.ok:
            if not p2.ok or core.relerr(p1.value[2], p2.value[2]) > 1e-12:
                v('model-predictions', f'the re-imported model predicts differently: {p1.value[2][:3]} -> {p2.value[2][:3] if p2.ok else p2.brief()}',
                  p1.value[2], p2.value[2] if p2.ok else p2.brief(), {})
    idsame = core.call(lambda: (iso.iso_id == back.iso_id, iso == back))
    if not out and (not idsame.ok or idsame.value != (True, True)):
        v('not-equal', f'content is field-by-field equal but identifier/== differ: {idsame.value if idsame.ok else idsame.brief()}')
    if txt2 != txt and not out:
        v('re-export-differs', 'exporting the re-imported isotherm gives a different document')
    return out


def work(arg):
    kind, cfg, spec, scale = arg
    res = {'ev': 0, 'nt': 0, 'viol': []}
    meta_small = {'note': 'x', 'val': 1.5}
    if kind == 'point':
        for target in ('string', 'file'):
            iso = g.mk_point(cfg, spec, meta_small, scale)
            case = {'units': cfg, 'shape': spec}
            n, pat, ex = spec
            sigx = {'pattern': pat} if pat.startswith('user') else {}
            res['viol'] += judge(iso, 'point', case, target, sigx)
            res['ev'] += 1
            res['nt'] += 1
    elif kind == 'converted':
        # non-initial states: the same labels REACHED by permanent conversions from the default representation
        for target in ('string', 'file'):
            mk = core.call(g.mk_point_converted, cfg, spec, meta_small, scale)
            res['ev'] += 1
            if not mk.ok:
                raise core.HarnessError(f'cannot build a converted isotherm for {cfg}: {mk.brief()}')
            res['viol'] += judge(mk.value, 'point', {'units': cfg, 'shape': spec, 'reached_by': 'conversion from default units'}, target,
                                 {'reached_by': 'conversion'})
            res['nt'] += 1
    elif kind == 'registry-conflict':
        # the isotherm carries its OWN material description; a material of the same name, with another value of the same property,
        # is registered in the session when the document is read back
        import pygaps
        base_list = list(pygaps.MATERIAL_LIST)
        try:
            for target in ('string', 'file'):
                pygaps.MATERIAL_LIST[:] = base_list
                own = pygaps.Material('gen-mat-conflict', density=1.2, batch='own sample')
                if spec == 'base':
                    iso = g.mk_base(cfg, meta_small, material=own)
                elif spec == 'point':
                    iso = g.mk_point(cfg, (4, 'guessable', 'numeric'), meta_small, scale, material=own)
                else:
                    iso = g.mk_model(cfg, 'Langmuir', meta_small, material=own)
                pygaps.MATERIAL_LIST.append(pygaps.Material('gen-mat-conflict', density=1.0))
                res['viol'] += judge(iso, spec, {'units': cfg, 'material': own.to_dict(), 'registered under the same name': {'density': 1.0}}, target, {'material': 'registry-conflict'})
                res['ev'] += 1
                res['nt'] += 1
        finally:
            pygaps.MATERIAL_LIST[:] = base_list
    elif kind == 'subclass':
        # an instance of a user subclass that adds nothing to the content: the document is that of the plain class
        import pygaps

        class LabPoint(pygaps.PointIsotherm):
            def label(self):
                return str(self.material)

        class LabModel(pygaps.ModelIsotherm):
            def label(self):
                return str(self.material)
        for target in ('string', 'file'):
            if spec == 'point':
                plain = g.mk_point(cfg, (4, 'guessable', 'numeric'), meta_small, scale)
                iso = LabPoint(isotherm_data=plain.data_raw.copy(), pressure_key=plain.pressure_key, loading_key=plain.loading_key, **plain.to_dict())
            elif spec == 'model':
                plain = g.mk_model(cfg, 'Langmuir', meta_small)
                iso = LabModel(model=plain.model, **plain.to_dict())
            else:
                plain = g.mk_model(cfg, 'Toth', meta_small)
                iso = LabModel.from_pointisotherm(g.mk_point(cfg, (7, 'guessable', 'numeric'), meta_small, scale), model='Henry')
            res['viol'] += judge(iso, 'point' if spec == 'point' else 'model', {'units': cfg, 'class': type(iso).__name__ + ' (user subclass)'}, target, {'class': 'user subclass'})
            res['ev'] += 1
            res['nt'] += 1
    elif kind == 'gapped-index':
        # a frame cut out of a larger table: row labels with gaps, not starting at 0
        import pygaps
        for target in ('string', 'file'):
            df = g.point_frame(*spec, scale)
            df.index = [3, 4, 6, 7, 11, 12, 20][:len(df)]
            iso = pygaps.PointIsotherm(isotherm_data=df, pressure_key='pressure', loading_key='loading', material='gen-mat', adsorbate='N2',
                                       temperature=77.355 if cfg[6] == 'K' else -195.795, **g.units(cfg), **meta_small)
            res['viol'] += judge(iso, 'point', {'units': cfg, 'shape': spec, 'row labels': list(df.index)}, target, {'index': 'gapped'})
            res['ev'] += 1
            res['nt'] += 1
    elif kind == 'custom-keys':
        import pygaps
        for target in ('string', 'file'):
            df = g.point_frame(*spec, scale).rename(columns={'pressure': 'p/p0 [-]', 'loading': 'uptake'})
            iso = pygaps.PointIsotherm(isotherm_data=df, pressure_key='p/p0 [-]', loading_key='uptake', material='gen-mat', adsorbate='N2',
                                       temperature=77.355, **g.units(cfg), **meta_small)
            res['viol'] += judge(iso, 'point', {'units': cfg, 'shape': spec, 'column names': ['p/p0 [-]', 'uptake']}, target, {'keys': 'custom'})
            res['ev'] += 1
            res['nt'] += 1
    elif kind == 'meta':
        cls, (key, val) = spec
        for target in ('string', 'file'):
            meta = {key: val}
            if cls == 'base':
                iso = g.mk_base(cfg, meta)
            elif cls == 'point':
                iso = g.mk_point(cfg, (4, 'guessable', 'both'), meta, scale)
            else:
                iso = g.mk_model(cfg, 'Langmuir', meta)
            res['viol'] += judge(iso, cls, {'units': cfg, 'metadata': {key: val}}, target, {'metadata': key})
            res['ev'] += 1
            res['nt'] += 1
    elif kind == 'material':
        cls = spec
        mat = {'name': 'gen-mat-props', 'density': 2.25, 'molar_mass': 101.5, 'comment': 'batch 7', 'n': 3}
        for target in ('string', 'file'):
            if cls == 'base':
                iso = g.mk_base(cfg, {'note': 'x'}, material=dict(mat))
            elif cls == 'point':
                iso = g.mk_point(cfg, (4, 'guessable', 'numeric'), {'note': 'x'}, scale, material=dict(mat))
            else:
                iso = g.mk_model(cfg, 'Toth', {'note': 'x'}, material=dict(mat))
            res['viol'] += judge(iso, cls, {'units': cfg, 'material': mat}, target, {'material': 'with-properties'})
            res['ev'] += 1
            res['nt'] += 1
    elif kind == 'model':
        name, how = spec
        for target in ('string', 'file'):
            extra_kw = dict(rmse=0.0, prange=(0.0, 0.9), lrange=(0.0, 3.5)) if how == 'zero-fields' else ({'branch': 'des'} if how == 'desorption-branch' else {})
            if how == 'unbounded-ranges':       # a hand-made model valid everywhere
                extra_kw = dict(prange=(0.0, float('inf')), lrange=(float('-inf'), float('inf')))
            mk = core.call(g.mk_model, cfg, name, meta_small, fitted_dr=(how == 'fitted'),
                           params=({'K': 3.456789e-06, 'n_m': 4.5123456789} if how == 'small-parameters' else None), **extra_kw)
            if not mk.ok:
                res['viol'].append(core.make_violation({'check': 'cannot-build', 'model': name, 'built': how},
                                                       f'[model] {name} ({how}) with units {cfg}: {mk.brief()}', {'units': cfg, 'model': name}))
                res['ev'] += 1
                continue
            iso = mk.value
            res['viol'] += judge(iso, 'model', {'units': cfg, 'model': name, 'built': how}, target, {'model': name, 'built': how})
            res['ev'] += 1
            res['nt'] += 1
    return res


def run(ctx):
    jobs = []
    cfgs = g.UNIT_CONFIGS
    shapes = g.DATA_SHAPES
    for ci, cfg in enumerate(cfgs):
        for spec in (shapes if (not ctx.quick or ci in (0, 4)) else shapes[ci % 5::5]):
            jobs.append(('point', cfg, spec, ctx.scale))
        for spec in g.ZERO_SHAPES + g.EARLY_SHAPES + g.WORDS_SHAPES + g.TEXTNUM_SHAPES + g.INF_SHAPES + g.BOOL_SHAPES:
            if not ctx.quick or ci in (0, 3, 5) or spec[0] == 4:
                jobs.append(('point', cfg, spec, ctx.scale))
        for spec in ((4, 'guessable', 'numeric'), (7, 'user-alternating', 'both')):
            jobs.append(('converted', cfg, spec, ctx.scale))
        jobs.append(('custom-keys', cfg, (4, 'guessable', 'numeric'), ctx.scale))
        for cls in ('base', 'point', 'model'):
            for kv in (META_ALPHABET if (not ctx.quick or ci == 0) else META_ALPHABET[ci % 4::4]):
                jobs.append(('meta', cfg, (cls, kv), ctx.scale))
            jobs.append(('material', cfg, cls, ctx.scale))
        for name in g.MODEL_PARAMS:
            if ctx.quick and ci not in (0, 2, 8) and name not in ('Langmuir', 'DR', 'Virial'):
                continue
            jobs.append(('model', cfg, (name, 'instance'), ctx.scale))
            if name in ('DR', 'DA'):
                jobs.append(('model', cfg, (name, 'fitted'), ctx.scale))
            if name == 'Langmuir':
                jobs.append(('model', cfg, (name, 'small-parameters'), ctx.scale))
            if name in ('Langmuir', 'Henry', 'Toth'):
                jobs.append(('model', cfg, (name, 'zero-fields'), ctx.scale))
            if name in ('Langmuir', 'Henry'):
                jobs.append(('model', cfg, (name, 'unbounded-ranges'), ctx.scale))
            if name in ('Langmuir', 'DR', 'Virial'):
                jobs.append(('model', cfg, (name, 'desorption-branch'), ctx.scale))    # a model describing the desorption branch      # a fit error / range limit of exactly 0 is a value, not "missing"
        jobs.append(('gapped-index', cfg, (7, 'guessable', 'numeric'), ctx.scale))
        if ci in (0, 5):
            for cls in ('base', 'point', 'model'):
                jobs.append(('registry-conflict', cfg, cls, ctx.scale))
            for cls in ('point', 'model', 'fitted model'):
                jobs.append(('subclass', cfg, cls, ctx.scale))
    res = core.pmap(work, jobs, chunk=8)
    for r in res:
        ctx.add('round_trips', r['ev'], r['nt'])
        ctx.violate(r['viol'])
    ctx.require('round_trips', ctx.cov['evaluations'], 1000)
    ctx.cov['domain_sizes'] = {'unit_configs': len(cfgs), 'data_shapes': len(shapes), 'metadata_alphabet': len(META_ALPHABET),
                               'models': len(g.MODEL_PARAMS), 'jobs': len(jobs)}
    ctx.cov['rule'] = ('product of class x unit configuration x data shape (n, branch pattern, extra columns) x metadata alphabet x target (string, file) '
                       'x 16 models (DR/DA also fitted); plus isotherms reached by permanent conversion from the default units, exact-zero pressures, text columns spelling numbers, user column names; quick thins the product over the non-default unit configurations (every value of every '
                       'dimension still occurs), thorough enumerates it completely. Each case is one export+import+re-export.')
    ctx.sample({'class': 'point', 'units': list(cfgs[4]), 'shape': list(shapes[10]), 'target': 'file'})
    ctx.sample({'class': 'model', 'model': 'DA', 'built': 'fitted', 'checked': 'predictions on a 10-point grid equal after the round trip'})
    ctx.sample({'metadata': {'text_int': '5'}, 'expected': "comes back as the text '5', not the number"})
    ctx.assumptions += ['metadata keys are not reserved constructor parameter names', 'exact (bitwise) equality of numbers is demanded: JSON carries repr-exact doubles']
