"""C13 — IAST results satisfy the IAST equations and known closed forms (DESIGN §4 C13; engine E2).

Mixtures of 2, 3 and 4 components from a pool of model and point isotherms x partial-pressure vectors from a lattice x ALL
permutations of the component order x default / user starting guess.  From the RETURNED loadings: mole fractions in [0,1]
summing to one, equal spreading pressure at p_i/x_i (recomputed by independent quadrature / the point-isotherm definition),
ideal mixing rule, closed forms (Henry, equal-capacity Langmuir), permutation invariance, reverse o forward, helper functions.
"""
import itertools
import math

import numpy

from mc import core
from mc import modlat as ml
from mc.checks import c11

LEVEL = 'exploration'
T = 298.15
U = dict(pressure_mode='absolute', pressure_unit='bar', loading_basis='molar', loading_unit='mmol', material_basis='mass', material_unit='g',
         temperature_unit='K')

POOL = {
    'H1': ('Henry', {'K': 2.0}), 'H2': ('Henry', {'K': 0.4}),
    'L1': ('Langmuir', {'K': 3.0, 'n_m': 4.0}), 'L2': ('Langmuir', {'K': 0.6, 'n_m': 4.0}), 'L3': ('Langmuir', {'K': 1.5, 'n_m': 2.0}),
    'L4': ('Langmuir', {'K': 0.9, 'n_m': 4.03}),       # capacity within 1 % of L1/L2 but not equal: no closed form applies
    'DS': ('DSLangmuir', {'n_m1': 2.0, 'K1': 6.0, 'n_m2': 3.0, 'K2': 0.3}),
    'Q': ('Quadratic', {'n_m': 2.5, 'Ka': 1.2, 'Kb': 0.6}),
    'B': ('BET', {'n_m': 3.0, 'C': 20.0, 'N': 0.01}),
    'TS': ('TSLangmuir', {'n_m1': 1.0, 'K1': 8.0, 'n_m2': 2.0, 'K2': 1.0, 'n_m3': 1.5, 'K3': 0.1}),
    'T': ('Toth', {'n_m': 5.0, 'K': 2.0, 't': 0.7}),
    'JS': ('JensenSeaton', {'K': 4.0, 'a': 3.0, 'b': 0.05, 'c': 1.1}),
    'TK': ('TemkinApprox', {'n_m': 4.0, 'K': 1.5, 'tht': 0.3}),
}
# the same models DECLARING a narrow pressure range (the interval a model was fitted on): IAST evaluates them beyond it
# (with a warning), so the results are those of the equations, not of the declared range
NARROW = {'L1n': 'L1', 'L2n': 'L2', 'Tn': 'T'}
for _k, _b in NARROW.items():
    POOL[_k] = POOL[_b]
POINT_POOL = {
    'pL': ('Langmuir', {'K': 2.0, 'n_m': 3.5}), 'pT': ('Toth', {'n_m': 4.5, 'K': 1.0, 't': 0.8}), 'pL2': ('Langmuir', {'K': 0.5, 'n_m': 5.0}),
    # the same kind of data held in a table with supplementary columns that are partly empty (the points themselves are complete)
    'pTx': ('Toth', {'n_m': 3.0, 'K': 1.8, 't': 0.6}),
    # data that do not start near the origin
    'pLs': ('Langmuir', {'K': 2.5, 'n_m': 3.0}),
}
PGRID = [0.05, 0.5, 2.0]

_ISO = {}


def point_data(key, scale):
    name, q = POINT_POOL[key]
    p = numpy.geomspace(1e-3, 400.0, 70)
    if key == 'pLs':
        p = numpy.geomspace(0.5, 400.0, 50)        # measured from 0.5 bar only: fictitious pressures can fall BELOW the first point
    n = numpy.round(ml.ref_loading(name, q, p) * scale, 10)
    return p, n


def iso(key, scale):
    import pygaps
    k = (key, scale)
    if k in _ISO:
        return _ISO[k]
    if key in POOL:
        name, q = POOL[key]
        q = {a: (b * scale if a.startswith('n_m') or (name in ('Henry', 'JensenSeaton') and a == 'K') else b) for a, b in q.items()}
        m = ml.mk(name, q, T)
        m.pressure_range = (1e-3, 400.0)
        m.loading_range = (0.0, 10.0)
        if key in NARROW:
            m.pressure_range = (0.01, 1.0)
            m.loading_range = (float(m.loading(0.01)), float(m.loading(1.0)))
        _ISO[k] = pygaps.ModelIsotherm(model=m, material='c13', adsorbate='CO2', temperature=T, **U)
    elif key.endswith('x'):
        import pandas
        p, n = point_data(key, scale)
        df = pandas.DataFrame({'pressure': p, 'loading': n, 'enthalpy': [float('nan') if i % 3 == 1 else 30.0 - 0.1 * i for i in range(len(p))],
                               'remark': [None if i % 5 == 2 else 'ok' for i in range(len(p))]})
        _ISO[k] = pygaps.PointIsotherm(isotherm_data=df, pressure_key='pressure', loading_key='loading', material='c13', adsorbate='CO2', temperature=T, **U)
    else:
        p, n = point_data(key, scale)
        _ISO[k] = pygaps.PointIsotherm(pressure=p, loading=n, material='c13', adsorbate='CO2', temperature=T, **U)
    return _ISO[k]


def ref_sp(key, scale, p0):
    """Spreading pressure at p0 recomputed independently of the library's spreading_pressure_at."""
    if key in POOL:
        name, q = POOL[key]
        m = iso(key, scale).model
        kh = None
        v, agree = c11.ref_integral(m.loading, 0.0, p0, ml.henry_constant(name, m.params))
        return v if agree < 1e-7 else None
    p, n = point_data(key, scale)
    return c11.ref_point_sp(p, n, p0)


def pure_loading(key, scale, p0):
    i = iso(key, scale)
    if key in POOL:
        return float(i.model.loading(p0))
    p, n = point_data(key, scale)
    if p0 < p[0]:
        return float(n[0] * p0 / p[0])       # below the first point the curve is continued by Henry's law through the origin (as its spreading pressure is)
    return float(numpy.interp(p0, p, n))


def judge(keys, pp, loads, scale, out, report, what):
    """All clauses that can be recomputed from the returned loadings."""
    loads = numpy.asarray(loads, dtype=float)
    tot = loads.sum()
    x = loads / tot
    if (x < -1e-12).any() or (x > 1 + 1e-12).any() or abs(x.sum() - 1) > 1e-12 or not numpy.isfinite(loads).all():
        report('mole-fractions', f'{what}: mole fractions {x} not in [0,1] / not summing to one', None, x)
        return
    p0 = numpy.asarray(pp, dtype=float) / x
    sps = [ref_sp(k, scale, float(q)) for k, q in zip(keys, p0)]
    if any(s is None for s in sps):
        out['untrusted_ref'] += 1
    else:
        spread = (max(sps) - min(sps)) / max(abs(max(sps)), 1e-300)
        out['worst_sp'] = max(out['worst_sp'], spread if 'TK' not in keys else 0.0)
        if spread > 1e-6:
            report('equal-spreading-pressure', f'{what}: spreading pressures at p_i/x_i recomputed by quadrature differ: {sps} (relative spread {spread:.3g})', None, sps,
                   {'with_TemkinApprox': 'TK' in keys})
    inv = sum(xi / pure_loading(k, scale, float(q)) for xi, k, q in zip(x, keys, p0))
    e = abs(1 / tot - inv) * tot
    out['worst_mix'] = max(out['worst_mix'], e)
    if e > 1e-6:
        report('ideal-mixing', f'{what}: 1/n_total = {1 / tot:.9g} but sum x_i/n_i0(p_i0) = {inv:.9g}', inv, 1 / tot)
    # closed forms
    names = [POOL[k][0] if k in POOL else None for k in keys]
    if all(n == 'Henry' for n in names):
        exp = numpy.array([iso(k, scale).model.params['K'] * p for k, p in zip(keys, pp)])
        if core.relerr(loads, exp) > 1e-6:
            report('closed-form-henry', f'{what}: Henry mixture loadings {loads} != K_i p_i = {exp}', exp, loads)
    if all(n == 'Langmuir' for n in names) and len({iso(k, scale).model.params['n_m'] for k in keys}) == 1:
        nm = iso(keys[0], scale).model.params['n_m']
        Ks = numpy.array([iso(k, scale).model.params['K'] for k in keys])
        exp = nm * Ks * numpy.asarray(pp) / (1 + (Ks * numpy.asarray(pp)).sum())
        if core.relerr(loads, exp) > 1e-6:
            report('closed-form-langmuir', f'{what}: equal-capacity Langmuir mixture {loads} != extended Langmuir {exp}', exp, loads)


def work(arg):
    import pygaps.iast as pgi
    keys, pps, scale, perms, do_reverse = arg
    out = {'ev': 0, 'nt': 0, 'viol': [], 'noreturn': 0, 'noreturn_nonpg': 0, 'untrusted_ref': 0, 'worst_sp': 0.0, 'worst_mix': 0.0}
    seen = set()

    def report(check, what, exp=None, obs=None, extra=None):
        sig = {'check': check, 'components': len(keys)}
        if extra:
            sig.update(extra)
        k = core.sig_key(sig)
        if k in seen:
            return
        seen.add(k)
        out['viol'].append(core.make_violation(sig, what, {'components': {kk: (POOL.get(kk) or POINT_POOL.get(kk)) for kk in keys}}, exp, obs))

    isos = [iso(k, scale) for k in keys]
    for pp in pps:
        base = None
        for perm in perms:
            ks = [keys[i] for i in perm]
            ps = [pp[i] for i in perm]
            what = f'iast_point({ks}, p={ps})'
            o = core.call(pgi.iast_point, [isos[i] for i in perm], ps, warningoff=True, timeout=60)
            out['ev'] += 1
            if not o.ok:
                out['noreturn'] += 1
                if not core.is_pg(o.kind):
                    out['noreturn_nonpg'] += 1
                continue
            out['nt'] += 1
            loads = numpy.asarray(o.value, dtype=float)
            judge(ks, ps, loads, scale, out, report, what)
            # permutation invariance
            back = numpy.empty(len(keys))
            for j, i in enumerate(perm):
                back[i] = loads[j]
            if base is None:
                base = back
            elif core.relerr(back, base) > 1e-6:
                report('permutation-invariance', f'{what}: loadings mapped back to the original order {back} differ from {base} obtained in the first order', base, back)
        if base is None:
            continue
        # user starting guess = perturbed solution
        x = base / base.sum()
        g = x * (1 + 0.05 * numpy.cos(numpy.arange(len(x))))
        g = g / g.sum()
        o = core.call(pgi.iast_point, isos, pp, warningoff=True, adsorbed_mole_fraction_guess=list(g), timeout=60)
        out['ev'] += 1
        if o.ok:
            out['nt'] += 1
            if core.relerr(o.value, base) > 1e-6:
                report('guess-dependence', f'iast_point({keys}, p={pp}) with a user guess near the solution returns {o.value} instead of {base}', base, o.value)
            judge(keys, pp, o.value, scale, out, report, f'iast_point({keys}, p={pp}, user guess)')
        # fraction helper
        tot_p = float(sum(pp))
        y = [p / tot_p for p in pp]
        o = core.call(pgi.iast_point_fraction, isos, y, tot_p, warningoff=True, timeout=60)
        out['ev'] += 1
        if o.ok:
            out['nt'] += 1
            if core.relerr(o.value, base) > 1e-7:
                report('point-fraction-helper', f'iast_point_fraction({keys}, y={y}, P={tot_p}) = {o.value} but iast_point gives {base}', base, o.value)
        # the adsorbing components diluted in an inert balance gas: fractions that do not sum to one, same partial pressures
        y2 = [0.4 * v for v in y]
        o = core.call(pgi.iast_point_fraction, isos, y2, tot_p / 0.4, warningoff=True, timeout=60)
        out['ev'] += 1
        if o.ok:
            out['nt'] += 1
            if core.relerr(o.value, base) > 1e-7:
                report('point-fraction-helper', f'iast_point_fraction({keys}, y={y2} (rest inert), P={tot_p / 0.4}) = {o.value} but iast_point at the partial pressures y_i P gives {base}',
                       base, o.value, {'fractions': 'sum below one'})
        if do_reverse:
            xs = [float(v) for v in x]
            xs[-1] = 1.0 - sum(xs[:-1])
            o = core.call(pgi.reverse_iast, isos, xs, tot_p, warningoff=True, timeout=60)
            out['ev'] += 1
            if o.ok and abs(sum(xs) - 1.0) == 0:
                out['nt'] += 1
                gy, gl = o.value
                if core.relerr(gy, y) > 1e-5 or core.relerr(gl, base) > 1e-5:
                    report('reverse-forward', f'reverse_iast({keys}, x={xs}, P={tot_p}) = y {gy}, n {gl} but the forward problem had y {y}, n {base}', [y, base], [gy, gl])
            elif not o.ok:
                out['noreturn'] += 1
        if len(keys) == 2:
            o = core.call(pgi.iast_binary_svp, isos, y, [tot_p, tot_p * 2], warningoff=True, timeout=60)
            out['ev'] += 1
            if o.ok:
                out['nt'] += 1
                sel = (base[0] / y[0]) / (base[1] / y[1])
                if abs(o.value['selectivity'][0] - sel) > 1e-7 * abs(sel):
                    report('svp-helper', f'iast_binary_svp({keys}) selectivity {o.value["selectivity"][0]} but iast_point gives {sel}', sel, o.value['selectivity'][0])
    if len(keys) == 2 and all(k in POOL for k in keys):
        o = core.call(pgi.iast_binary_vle, isos, 1.0, npoints=5, warningoff=True, timeout=120)
        out['ev'] += 1
        if o.ok:
            ys = numpy.linspace(0.01, 0.99, 5)
            for j, yy in enumerate(ys):
                r = core.call(pgi.iast_point, isos, [yy, 1 - yy], warningoff=True)
                out['ev'] += 1
                if r.ok:
                    out['nt'] += 1
                    xx = r.value[0] / (r.value[0] + r.value[1])
                    if abs(o.value['x'][j + 1] - xx) > 1e-7 or abs(o.value['y'][j + 1] - yy) > 1e-12:
                        report('vle-helper', f'iast_binary_vle({keys}) point {j}: x={o.value["x"][j + 1]} but iast_point gives {xx}', xx, o.value['x'][j + 1])
    return out


def check_sequences(ctx):
    """IAST on the same point-isotherm objects before and after permanent conversions (caches must not leak)."""
    import pygaps
    import pygaps.iast as pgi
    ev = nt = 0
    convs = [dict(material_unit='kg'), dict(loading_unit='mol'), dict(pressure_unit='kPa'), dict(loading_basis='mass', loading_unit='g'),
             dict(material_basis='volume', material_unit='cm3')]
    for conv in convs:
        objs = []
        for key in ('pL', 'pT'):
            p, n = point_data(key, ctx.scale)
            objs.append(pygaps.PointIsotherm(pressure=p, loading=n, material=pygaps.Material('c13m', density=1.7), adsorbate='CO2', temperature=T, **U))
        pp = [0.4, 0.9]
        first = core.call(pgi.iast_point, objs, pp, warningoff=True)
        for o in objs:
            o.convert(**conv)
        fac = 100.0 if conv.get('pressure_unit') == 'kPa' else 1.0
        pp2 = [v * fac for v in pp]
        second = core.call(pgi.iast_point, objs, pp2, warningoff=True)
        fresh = [pygaps.PointIsotherm(isotherm_data=o.data_raw.copy(), pressure_key=o.pressure_key, loading_key=o.loading_key, **o.to_dict()) for o in objs]
        want = core.call(pgi.iast_point, fresh, pp2, warningoff=True)
        ev += 1
        if first.ok and want.ok:
            nt += 1
            if not second.ok or core.relerr(second.value, want.value) > 1e-9:
                ctx.violate(core.make_violation({'check': 'iast-after-conversion', 'conversion': sorted(conv)[0]},
                                                f'iast_point after convert({conv}) on isotherms that were already used gives {second.value if second.ok else second.brief()} '
                                                f'but freshly built isotherms with the same content give {want.value}', {'conversion': conv}, want.value,
                                                second.value if second.ok else second.brief()))
    ctx.add('sequences', ev, nt)


def check_inputs(ctx):
    """Argument containers and extreme compositions: integer-valued partial pressures in every container type, arguments left
    untouched, reverse IAST for trace components (the requested composition is what is solved for)."""
    import pygaps.iast as pgi
    scale = ctx.scale
    ev = nt = nr = 0
    out = {'untrusted_ref': 0, 'worst_sp': 0.0, 'worst_mix': 0.0}

    def report(check, what, exp=None, obs=None, extra=None):
        sig = {'check': check}
        if extra:
            sig.update(extra)
        ctx.violate(core.make_violation(sig, what, {}, exp, obs))

    for keys, ipp in ((('L1', 'L2'), [1, 2]), (('L1', 'T'), (2, 5)), (('L1', 'L2', 'T'), [1, 2, 3]), (('pL', 'pT'), [1, 3]), (('H1', 'DS', 'L3'), [3, 1, 2])):
        isos = [iso(k, scale) for k in keys]
        ref = core.call(pgi.iast_point, isos, [float(v) for v in ipp], warningoff=True, timeout=60)
        if not ref.ok:
            nr += 1
            continue
        for kind, arg in (('list[int]', [int(v) for v in ipp]), ('tuple[int]', tuple(int(v) for v in ipp)), ('ndarray[int64]', numpy.array(ipp, dtype='int64')),
                          ('ndarray[int32]', numpy.array(ipp, dtype='int32')), ('ndarray[float64]', numpy.array(ipp, dtype=float)),
                          ('ndarray[float32]', numpy.array(ipp, dtype='float32')), ('tuple[float]', tuple(float(v) for v in ipp))):
            keep = numpy.array(arg).copy() if isinstance(arg, numpy.ndarray) else type(arg)(arg)
            o = core.call(pgi.iast_point, isos, arg, warningoff=True, timeout=60)
            ev += 1
            if not o.ok:
                report('input-container', f'iast_point({list(keys)}, {kind} {arg!r}) {o.brief()} although the same pressures as a list of floats return', ref.value, o.brief(),
                       {'container': kind})
                continue
            nt += 1
            if core.relerr(o.value, ref.value) > 1e-7:
                report('input-container', f'iast_point({list(keys)}, {kind} {arg!r}) = {o.value} but the same pressures as a list of floats give {ref.value}', ref.value, o.value,
                       {'container': kind})
            judge(list(keys), [float(v) for v in ipp], o.value, scale, out, lambda c, w, e=None, ob=None, x=None: report(c, w, e, ob, dict(x or {}, container=kind)),
                  f'iast_point({list(keys)}, {kind})')
            if not numpy.array_equal(numpy.asarray(arg), numpy.asarray(keep)):
                report('argument-mutated', f'iast_point changed its partial_pressures argument ({kind}) from {keep} to {arg}', keep, arg, {'argument': 'partial_pressures'})
        # user guess passed as an array must not be modified
        x = numpy.asarray(ref.value, dtype=float) / numpy.sum(ref.value)
        g = numpy.array(x)
        g0 = g.copy()
        o = core.call(pgi.iast_point, isos, [float(v) for v in ipp], adsorbed_mole_fraction_guess=g, warningoff=True, timeout=60)
        ev += 1
        if o.ok:
            nt += 1
            if not numpy.array_equal(g, g0):
                report('argument-mutated', f'iast_point changed the adsorbed_mole_fraction_guess array from {g0} to {g}', g0, g, {'argument': 'adsorbed_mole_fraction_guess'})
    # selectivity-vs-pressure helper: every entry belongs to the pressure at the same position, whatever the order of the list
    for keys in (('L1', 'L2'), ('L1', 'T'), ('pL', 'pT'), ('DS', 'L3')):
        isos = [iso(k, scale) for k in keys]
        yv = [0.3, 0.7]
        for oname, plist in (('ascending', [0.5, 1.0, 2.0, 5.0, 10.0]), ('descending', [10.0, 5.0, 2.0, 1.0, 0.5]), ('shuffled', [2.0, 10.0, 0.5, 5.0, 1.0]), ('with a repeat', [1.0, 5.0, 1.0])):
            o = core.call(pgi.iast_binary_svp, isos, yv, list(plist), warningoff=True, timeout=120)
            ev += 1
            if not o.ok:
                nr += 1
                continue
            nt += 1
            want = []
            for pt_ in plist:
                r = core.call(pgi.iast_point, isos, [yv[0] * pt_, yv[1] * pt_], warningoff=True, timeout=60)
                want.append((r.value[0] / yv[0]) / (r.value[1] / yv[1]) if r.ok else float('nan'))
            got = numpy.asarray(o.value['selectivity'], dtype=float)
            pr_ = numpy.asarray(o.value['pressure'], dtype=float)
            okm = numpy.isfinite(want)
            if got.shape != (len(plist),) or not numpy.allclose(pr_, plist) or core.relerr(got[okm], numpy.asarray(want)[okm]) > 1e-7:
                report('svp-helper-order', f'iast_binary_svp({list(keys)}, y={yv}, pressures {plist} ({oname})): pressures {list(pr_)} selectivities {list(got)} but the point '
                       f'calculations at those pressures give {want}', want, list(got), {'order': oname})
    # reverse IAST: requested adsorbed composition incl. trace components, default and user guess
    for keys in (('L1', 'L2'), ('L1', 'T'), ('L2', 'DS'), ('pL', 'pT'), ('L1', 'L2', 'T')):
        isos = [iso(k, scale) for k in keys]
        n = len(keys)
        comps = []
        for tr in (0.2, 1e-2, 1e-3, 3e-5):     # below ~1e-5 the solver tolerance on the gas fractions exceeds the 1e-6 judged on the spreading pressures
            for pos in range(n):
                xs = [(1.0 - tr) / (n - 1)] * n
                xs[pos] = tr
                xs[-1 if pos != n - 1 else 0] += 1.0 - sum(xs)
                comps.append(xs)
        for xs in comps:
            for totp in (0.5, 2.0):
                for guess in ('default', 'array'):
                    xa = numpy.array(xs, dtype=float)
                    x0 = xa.copy()
                    kw = {}
                    if guess == 'array':
                        kw['gas_mole_fraction_guess'] = numpy.full(n, 1.0 / n)
                    o = core.call(pgi.reverse_iast, isos, xa, totp, warningoff=True, timeout=60, **kw)
                    ev += 1
                    if not numpy.array_equal(xa, x0):
                        report('argument-mutated', f'reverse_iast({list(keys)}, x={x0}, P={totp}) changed its adsorbed_mole_fractions argument to {xa}', x0, xa,
                               {'argument': 'adsorbed_mole_fractions'})
                    if not o.ok:
                        nr += 1
                        continue
                    nt += 1
                    gy, gl = o.value
                    gl = numpy.asarray(gl, dtype=float)
                    xr = gl / gl.sum()
                    rel = numpy.max(numpy.abs(xr - x0) / x0)
                    if rel > 1e-4:
                        report('reverse-requested-composition', f'reverse_iast({list(keys)}, x={list(x0)}, P={totp}, guess={guess}) returns loadings with composition {list(xr)} '
                               f'(relative deviation {rel:.3g} from the requested one)', list(x0), list(xr), {'guess': guess})
                        continue
                    # forward problem at the returned gas composition reproduces it
                    pp = [float(v) * totp for v in gy]
                    judge(list(keys), pp, gl, scale, out, lambda c, w, e=None, ob=None, x=None: report(c, w, e, ob, dict(x or {}, via='reverse_iast')),
                          f'reverse_iast({list(keys)}, x={list(x0)}, P={totp})')
    ctx.add('inputs_and_trace_compositions', ev, nt, did_not_return=nr)
    ctx.track('spreading_pressure_spread_trace_compositions', out['worst_sp'], 1e-6)
    ctx.track('ideal_mixing_trace_compositions', out['worst_mix'], 1e-6)
    if nt < 0.5 * ev:
        raise core.HarnessError(f'vacuous: only {nt} of {ev} calls of the input/trace part returned')


def run(ctx):
    scale = ctx.scale
    check_sequences(ctx)
    check_inputs(ctx)
    keys = list(POOL) + list(POINT_POOL)
    jobs = []
    pairs = list(itertools.combinations(keys, 2))
    for c in pairs:
        pps = list(itertools.product(PGRID, repeat=2))
        jobs.append((c, pps, scale, list(itertools.permutations(range(2))), True))
    pool6 = ['L1', 'L2', 'T', 'DS', 'H1', 'pL']
    triples = list(itertools.combinations(pool6, 3)) + [('L1', 'L2', 'L3'), ('H1', 'H2', 'L1'), ('pL', 'pT', 'pL2'), ('Q', 'B', 'JS')]
    for c in triples:
        pps = list(itertools.product(PGRID, repeat=3))
        if ctx.quick:
            pps = pps[::3]
        jobs.append((c, pps, scale, list(itertools.permutations(range(3))), True))
    for c in (('L1', 'L2', 'T', 'H1'), ('pL', 'DS', 'L2', 'Q')):
        pps = list(itertools.product(PGRID, repeat=4))
        pps = pps[::9] if ctx.quick else pps
        jobs.append((c, pps, scale, list(itertools.permutations(range(4))), not ctx.quick))
    res = core.pmap(work, jobs, chunk=1)
    nr = nrn = ur = 0
    per_class = {}
    for job, r in zip(jobs, res):
        pc = per_class.setdefault(len(job[0]), [0, 0])
        pc[0] += r['ev']
        pc[1] += r['noreturn']
        ctx.add('mixtures', r['ev'], r['nt'])
        ctx.violate(r['viol'])
        nr += r['noreturn']
        nrn += r['noreturn_nonpg']
        ur += r['untrusted_ref']
        ctx.track('spreading_pressure_spread', r['worst_sp'], 1e-6)
        ctx.track('ideal_mixing', r['worst_mix'], 1e-6)
    ctx.cov['did_not_return'] = nr
    ctx.cov['did_not_return_with_non_pygaps_exception'] = nrn
    ctx.cov['reference_quadrature_not_trusted'] = ur
    ctx.cov['domain_sizes'] = {'pool': len(keys), 'pairs': len(pairs), 'triples': len(triples), 'quadruples': 2, 'pressure_lattice': PGRID}
    ctx.cov['rule'] = ('all 2-subsets of a 15-isotherm pool (12 models incl. every IAST-capable model type, 3 dense point isotherms) x 9 partial-pressure vectors x both orders; '
                       '24 3-subsets x 27 vectors (quick: 9) x 6 permutations; 2 4-subsets x 81 vectors (quick: 9) x 24 permutations; + user guess, fraction helper, '
                       'reverse IAST, selectivity and VLE helpers. Non-trivial = the call returned and its result was re-derived.')
    ctx.cov['calls_and_no_returns_per_component_count'] = {str(k): v for k, v in per_class.items()}
    for ncomp, (n_ev, n_nr) in per_class.items():
        if n_nr > 0.5 * n_ev:
            raise core.HarnessError(f'vacuous for {ncomp}-component mixtures: {n_nr} of {n_ev} IAST calls did not return')
    if nr > 0.5 * ctx.cov['evaluations']:
        raise core.HarnessError(f'vacuous: {nr} of {ctx.cov["evaluations"]} IAST calls did not return')
    ctx.require('iast_calls_returned', ctx.cov['distinct_nontrivial'], 1000)
    ctx.sample({'mixture': ['L1', 'T', 'pL'], 'partial_pressures': [0.05, 2.0, 0.5], 'orders': 6,
                'oracle': 'spreading pressures at p_i/x_i by independent quadrature equal to 1e-6; 1/n_t = sum x_i/n_i0'})
    ctx.sample({'mixture': ['L1', 'L2'], 'closed_form': 'n_i = n_m K_i p_i / (1 + sum K_j p_j)'})
    ctx.assumptions += ['calls that raise are "did not return" and counted; the property speaks about returned results',
                        'point isotherms are 70-point samplings; their reference is the Henry-continued piecewise-linear interpolant (C11)']
