"""C07 — CSV, Excel and AIF round trips preserve the isotherm (DESIGN §4 C07; engine E2).

Product of format {csv, xls, aif} x class x unit configuration x data shape x in-domain metadata alphabet x
target (string/file where the format has both) x models; field-by-field comparison and `==`.
Out-of-domain alphabet: a value the format cannot carry must be refused with a pyGAPS error at export or
import, or come back unchanged — never silently changed.
"""
import os

import numpy

from mc import core
from mc import isogen as g

LEVEL = 'exploration'

FORMATS = ('csv', 'xls', 'aif')

IN_DOMAIN = {
    'csv': [('plain', 'hello'), ('unicode', 'Üñí-µm'), ('spaced', 'hello world'), ('int', 5), ('zero', 0), ('float', 5.5), ('negfloat', -2.25),
            ('bool', True), ('boolf', False), ('sci', 1.25e-12), ('big', 1e22), ('dotted', 'v1.2.3'), ('ключ', 'значение'),
            ('posexp', 2.5e+17), ('negposexp', -6.71e+18), ('exp16', 1e16),
            ('cation', 'Na'), ('upper_na', 'NA'), ('word_null', 'null'), ('slash', 'n/a'), ('yes', 'yes'), ('word_t', 'T'),
            ('reduced_with_pygaps_release', 'four'), ('x_model_param_y', 'z'), ('my_sample_id', 'S1'), ('_exptl_note', 'n'),
            # whole numbers a double cannot hold: 2**53 + 1, a nanosecond time stamp, a 17-digit identifier, a number beyond 64 bits
            ('int53', 2 ** 53 + 1), ('t_ns', 1696334400123456789), ('id17', 20210402123456789), ('int70', 10 ** 21 + 7)],
    'aif': [('plain', 'hello'), ('unicode', 'Üñí-µm'), ('spaced', 'hello world'), ('int', 5), ('zero', 0), ('float', 5.5), ('negfloat', -2.25),
            ('bool', True), ('boolf', False), ('sci', 1.25e-12), ('big', 1e22), ('dotted', 'v1.2.3'),
            ('posexp', 2.5e+17), ('negposexp', -6.71e+18), ('exp16', 1e16),
            ('cation', 'Na'), ('upper_na', 'NA'), ('word_null', 'null'), ('slash', 'n/a'), ('yes', 'yes'), ('word_t', 'T'),
            ('reduced_with_pygaps_release', 'four'), ('x_model_param_y', 'z'), ('my_sample_id', 'S1'), ('_pygaps_inside_pygaps_', 'v'), ('material_batch', 'b7'), ('adsorbate_purity', 'n5'),
            ('int53', 2 ** 53 + 1), ('t_ns', 1696334400123456789), ('id17', 20210402123456789), ('int70', 10 ** 21 + 7)],
    'xls': [('plain', 'hello'), ('unicode', 'Üñí-µm'), ('spaced', 'hello, world; "quoted"'), ('float', 5.5), ('negfloat', -2.25), ('intf', 5.0),
            ('bool', True), ('boolf', False), ('sci', 1.25e-12), ('text_int', '5'), ('text_true', 'true'), ('key with blank', 'v'),
            ('posexp', 2.5e+17), ('negposexp', -6.71e+18),
            ('lead_blank', '  second run, indented'), ('trail_blank', 'leak suspected '), ('final_newline', 'a\nb\n'), ('tab_ends', '\tx\t'), ('only_blank', ' ')],
}
OUT_DOMAIN = {
    'csv': [('sep', 'a,b'), ('trailing_sep', 'degassed overnight,'), ('leading_sep', ',x'), ('only_sep', ','), ('two_trailing', 'a,,'), ('newline', 'a\nb'), ('text_int', '5'), ('text_true', 'true'), ('text_none', 'none'), ('empty', ''), ('list', [1, 2]),
            ('strlist', ['a', 'b']), ('nested', {'a': 1}), ('negint', -3), ('key with blank', 'v'), ('text_list', '[1 2]'), ('lead_space', ' x')],
    'aif': [('quote', "it's"), ('newline', 'a\nb'), ('text_int', '5'), ('text_true', 'true'), ('text_none', 'none'), ('empty', ''), ('list', [1, 2]),
            ('nested', {'a': 1}), ('negint', -3), ('key with blank', 'v'), ('hash', 'a #b'), ('ключ', 'значение')],
    'xls': [('list', [1, 2]), ('strlist', ['a', 'b']), ('nested', {'a': 1}), ('int', 5), ('empty', ''), ('none', None), ('zero', 0)],
}


def export_import(iso, fmt, target):
    import pygaps.parsing as pp
    base = os.path.join(core.scratch(), f'c07-{os.getpid()}')
    if fmt == 'csv':
        if target == 'string':
            return pp.isotherm_from_csv(pp.isotherm_to_csv(iso))
        pp.isotherm_to_csv(iso, base + '.csv')
        return pp.isotherm_from_csv(base + '.csv')
    if fmt == 'aif':
        if target == 'string':
            return pp.isotherm_from_aif(pp.isotherm_to_aif(iso))
        pp.isotherm_to_aif(iso, base + '.aif')
        return pp.isotherm_from_aif(base + '.aif')
    if fmt == 'xls':
        pp.isotherm_to_xl(iso, base + '.xls')
        return pp.isotherm_from_xl(base + '.xls')
    raise ValueError(fmt)


def veq(a, b):
    """Value equality as the property states it (5 == 5.0), but booleans and texts keep their kind."""
    if isinstance(a, bool) or isinstance(b, bool):
        return isinstance(a, bool) and isinstance(b, bool) and a == b
    if isinstance(a, str) or isinstance(b, str):
        return isinstance(a, str) and isinstance(b, str) and a == b
    if a is None or b is None:
        return a is None and b is None
    if isinstance(a, (int, float)) and isinstance(b, (int, float, numpy.floating, numpy.integer)):
        return float(a) == float(b)
    return a == b


def compare(iso, back, fmt, meta_keys):
    """Field-by-field differences: list of (check, text, sig-extra)."""
    import pygaps
    out = []
    # (an instance of a user subclass comes back as the library class it derives from)
    lib_class = next(c_ for c_ in type(iso).__mro__ if c_.__module__.startswith('pygaps.'))
    if lib_class is not type(back):
        return [('class-changed', f'{type(iso).__name__} -> {type(back).__name__}', {})]
    if iso.material.name != back.material.name:
        out.append(('material', f'{iso.material.name!r} -> {back.material.name!r}', {}))
    mp1, mp2 = iso.material.properties, back.material.properties
    if set(mp1) != set(mp2) or not all(veq(mp1[k], mp2[k]) for k in mp1):
        out.append(('material-properties', f'{mp1} -> {mp2}', {}))
    if iso.adsorbate.name != back.adsorbate.name:
        out.append(('adsorbate', f'{iso.adsorbate.name!r} -> {back.adsorbate.name!r}', {}))
    if abs(iso._temperature - back._temperature) > 1e-9:
        out.append(('temperature', f'{iso._temperature} -> {back._temperature}', {}))
    for k, v in iso.units.items():
        if back.units[k] != v:
            out.append(('unit-label', f'{k}: {v!r} -> {back.units[k]!r}', {'label': k}))
    for k in meta_keys:
        a = iso.properties.get(k, '<absent>')
        b = back.properties.get(k, '<absent>')
        if not veq(a, b):
            out.append(('metadata', f'{k!r}: {a!r} -> {b!r}', {'metadata': k}))
    extra = set(back.properties) - set(iso.properties)
    if extra:
        out.append(('metadata-added', f'keys appeared: {sorted(extra)}', {'keys': sorted(extra)[:3]}))
    if isinstance(iso, pygaps.PointIsotherm):
        a, b = iso.data_raw, back.data_raw
        ca = [c for c in a.columns]
        cb = [c for c in b.columns]
        if sorted(ca) != sorted(cb) or len(a) != len(b):
            out.append(('data-shape', f'{ca}x{len(a)} -> {cb}x{len(b)}', {}))
        else:
            for col in ca:
                x, y = a[col].tolist(), b[col].tolist()
                if col == 'branch':
                    if [int(t) for t in x] != [int(t) for t in y]:
                        out.append(('branch-marks', f'{x} -> {y}', {}))
                elif all(isinstance(t, (int, float)) for t in x):
                    ok = all(isinstance(q, (int, float)) and (abs(p - q) <= 5.1e-9 or (p != p and q != q)) for p, q in zip(x, y))
                    if not ok:
                        out.append(('data-column', f'{col}: {x} -> {y}', {'column': col if col in ('pressure', 'loading') else 'extra'}))
                elif x != y:
                    out.append(('data-column', f'{col}: {x} -> {y}', {'column': 'text'}))
    if isinstance(iso, pygaps.ModelIsotherm):
        if getattr(iso, 'branch', None) != getattr(back, 'branch', None):
            out.append(('model-branch', f'the branch the model describes: {getattr(iso, "branch", None)!r} -> {getattr(back, "branch", None)!r}', {}))
        m1, m2 = iso.model, back.model
        if m1.name != m2.name:
            out.append(('model-name', f'{m1.name} -> {m2.name}', {}))
        else:
            try:
                pe = list(m1.params) == list(m2.params) and all(abs(float(m1.params[k]) - float(m2.params[k])) <= 1e-12 * abs(float(m1.params[k])) for k in m1.params)
            except Exception:
                pe = False
            if not pe:
                out.append(('model-parameters', f'{m1.params} -> {m2.params}', {}))
            if not veq(float(m1.rmse), m2.rmse):
                out.append(('model-rmse', f'{m1.rmse!r} -> {m2.rmse!r}', {}))
            for rk in ('pressure_range', 'loading_range'):
                try:
                    re_ = all(abs(float(p) - float(q)) <= 1e-12 * abs(float(p)) for p, q in zip(getattr(m1, rk), getattr(m2, rk))) and len(getattr(m2, rk)) == 2
                except Exception:
                    re_ = False
                if not re_:
                    out.append(('model-range', f'{rk}: {getattr(m1, rk)!r} -> {getattr(m2, rk)!r}', {'range': rk}))
            if not out:
                p1 = core.call(g.predictions, iso)
                p2 = core.call(g.predictions, back)
                if p1.ok and (not p2.ok or core.relerr(p1.value[2], p2.value[2]) > 1e-9):
                    out.append(('model-predictions', f'{p1.value[2][:3]} -> {p2.value[2][:3] if p2.ok else p2.brief()}', {}))
    return out


def one(iso, fmt, target, cls, case, sigx, meta_keys):
    viol = []

    def v(check, what, extra=None):
        sig = {'check': check, 'format': fmt, 'class': cls}
        sig.update(sigx)
        if extra:
            sig.update(extra)
        viol.append(core.make_violation(sig, f'[{fmt}/{target}, {cls}] {what} — case {core.short(case, 260)}', dict(case, format=fmt, target=target)))

    o = core.call(export_import, iso, fmt, target)
    if not o.ok:
        v('round-trip-raises', o.brief(), {'kind': o.kind})
        return viol
    back = o.value
    diffs = compare(iso, back, fmt, meta_keys)
    if fmt == 'aif' and sigx.get('pattern') == 'user-alternating' and diffs and all(d[0] in ('data-column', 'branch-marks') for d in diffs):
        # one root cause: AIF keeps adsorption and desorption points in two separate loops
        viol.append(core.make_violation({'check': 'interleaved-branches-regrouped', 'format': 'aif', 'class': cls},
                                        f'[{fmt}/{target}, {cls}] points with interleaved adsorption/desorption marks come back grouped by branch: {diffs[0][1]} — case {core.short(case, 200)}',
                                        dict(case, format=fmt, target=target)))
        return viol
    for check, text, extra in diffs:
        v(check, text, extra)
    if not diffs:
        eq = core.call(lambda: iso == back)
        if not eq.ok or not eq.value:
            # which to_dict fields differ only by type?
            d1, d2 = iso.to_dict(), back.to_dict()
            dd = {k: (d1.get(k), d2.get(k)) for k in set(d1) | set(d2) if repr(d1.get(k)) != repr(d2.get(k))}
            v('equal-content-but-not-==', f'all fields equal but == is {eq.value if eq.ok else eq.brief()}; repr differences: {core.short(dd, 200)}',
              {'fields': sorted(map(str, dd))[:3]})
    return viol


def work(arg):
    kind, fmt, cfg, spec, scale = arg
    res = {'ev': 0, 'nt': 0, 'viol': [], 'refused': 0, 'unchanged': 0}
    targets = ('file',) if fmt == 'xls' else ('string', 'file')
    meta_small = {'note': 'x', 'val': 1.5}
    for target in targets:
        if kind == 'point':
            iso = g.mk_point(cfg, spec, meta_small, scale)
            n, pat, ex = spec
            sx = {'pattern': pat} if pat.startswith('user') else {}
            if ex.startswith('nan'):
                sx = {'extras': 'missing-values'}
            res['viol'] += one(iso, fmt, target, 'point', {'units': cfg, 'shape': spec}, sx, list(meta_small))
        elif kind == 'converted':
            mk = core.call(g.mk_point_converted, cfg, spec, meta_small, scale)
            if not mk.ok:
                raise core.HarnessError(f'cannot build a converted isotherm for {cfg}: {mk.brief()}')
            res['viol'] += one(mk.value, fmt, target, 'point', {'units': cfg, 'shape': spec, 'reached_by': 'conversion from default units'},
                               {'reached_by': 'conversion'}, list(meta_small))
        elif kind == 'subclass':
            # instances of user subclasses that add nothing to the content: exported like the library class
            import pygaps

            class LabPoint(pygaps.PointIsotherm):
                def label(self):
                    return str(self.material)

            class LabModel(pygaps.ModelIsotherm):
                def label(self):
                    return str(self.material)
            plain_p = g.mk_point(cfg, spec, meta_small, scale)
            sub_p = LabPoint(isotherm_data=plain_p.data_raw.copy(), pressure_key=plain_p.pressure_key, loading_key=plain_p.loading_key, **plain_p.to_dict())
            res['viol'] += one(sub_p, fmt, target, 'point', {'units': cfg, 'shape': spec, 'class': 'user subclass of PointIsotherm'}, {'class': 'user subclass'}, list(meta_small))
            plain_m = g.mk_model(cfg, 'Langmuir', meta_small)
            sub_m = LabModel(model=plain_m.model, **plain_m.to_dict())
            res['viol'] += one(sub_m, fmt, target, 'model', {'units': cfg, 'class': 'user subclass of ModelIsotherm'}, {'class': 'user subclass'}, list(meta_small))
            res['ev'] += 1
            res['nt'] += 1
        elif kind == 'gapped-index':
            import pygaps
            df = g.point_frame(*spec, scale)
            df.index = [3, 4, 6, 7, 11, 12, 20][:len(df)]
            iso = pygaps.PointIsotherm(isotherm_data=df, pressure_key='pressure', loading_key='loading', material='gen-mat', adsorbate='N2',
                                       temperature=77.355 if cfg[6] == 'K' else -195.795, **g.units(cfg), **meta_small)
            res['viol'] += one(iso, fmt, target, 'point', {'units': cfg, 'shape': spec, 'row labels': list(df.index)}, {'index': 'gapped'}, list(meta_small))
        elif kind == 'custom-keys':
            import pygaps
            df = g.point_frame(*spec, scale).rename(columns={'pressure': 'p_abs', 'loading': 'uptake'})
            iso = pygaps.PointIsotherm(isotherm_data=df, pressure_key='p_abs', loading_key='uptake', material='gen-mat', adsorbate='N2',
                                       temperature=77.355 if cfg[6] == 'K' else -195.795, **g.units(cfg), **meta_small)
            res['viol'] += one(iso, fmt, target, 'point', {'units': cfg, 'shape': spec, 'column names': ['p_abs', 'uptake']}, {'keys': 'custom'},
                               list(meta_small))
        elif kind == 'outdata':
            # a text column whose entries spell numbers: the format must carry it unchanged or refuse it
            iso = g.mk_point(cfg, spec, meta_small, scale)
            o = core.call(export_import, iso, fmt, target)
            want = iso.data_raw['label'].tolist()
            if not o.ok:
                if core.is_pg(o.kind):
                    res['refused'] += 1
                else:
                    res['viol'].append(core.make_violation(
                        {'check': 'out-of-domain-data-not-refused-with-pgError', 'format': fmt, 'extras': spec[2], 'kind': o.kind},
                        f'[{fmt}/{target}] text data column {want} (spelling numbers): {o.brief()} instead of a pyGAPS error',
                        {'format': fmt, 'shape': spec, 'units': cfg}))
            else:
                got = o.value.data_raw['label'].tolist() if 'label' in o.value.data_raw.columns else '<column absent>'
                same = got == want or (isinstance(got, list) and len(got) == len(want) and all(
                    (a == b and type(a) is type(b)) or (a is None and (b is None or b != b)) for a, b in zip(want, got)))
                if same:
                    res['unchanged'] += 1
                else:
                    res['viol'].append(core.make_violation(
                        {'check': 'out-of-domain-data-silently-changed', 'format': fmt, 'extras': spec[2]},
                        f'[{fmt}/{target}] text data column {want} (labels spelling numbers) silently came back as {got}',
                        {'format': fmt, 'shape': spec, 'units': cfg}, want, got))
        elif kind == 'meta':
            cls, (key, val) = spec
            meta = {key: val}
            iso = g.mk_base(cfg, meta) if cls == 'base' else (g.mk_point(cfg, (4, 'guessable', 'both'), meta, scale) if cls == 'point' else g.mk_model(cfg, 'Langmuir', meta))
            res['viol'] += one(iso, fmt, target, cls, {'units': cfg, 'metadata': meta}, {'metadata': key}, [key])
        elif kind == 'material':
            cls = spec
            mat = {'name': 'gen-mat-props', 'density': 2.25, 'molar_mass': 101.5, 'comment': 'batch-7'}
            iso = (g.mk_base(cfg, {'note': 'x'}, material=dict(mat)) if cls == 'base' else
                   g.mk_point(cfg, (4, 'guessable', 'numeric'), {'note': 'x'}, scale, material=dict(mat)) if cls == 'point' else
                   g.mk_model(cfg, 'Toth', {'note': 'x'}, material=dict(mat)))
            res['viol'] += one(iso, fmt, target, cls, {'units': cfg, 'material': mat}, {'material': 'with-properties'}, ['note'])
        elif kind == 'model':
            name, how = spec
            extra_kw = dict(rmse=0.0, prange=(0.0, 0.9), lrange=(0.0, 3.5)) if how == 'zero-fields' else ({'branch': 'des'} if how == 'desorption-branch' else {})
            mk = core.call(g.mk_model, cfg, name, meta_small, fitted_dr=(how == 'fitted'),
                           params=({'K': 3.456789e-06, 'n_m': 4.5123456789} if how == 'small-parameters' else None), **extra_kw)
            if not mk.ok:
                continue
            res['viol'] += one(mk.value, fmt, target, 'model', {'units': cfg, 'model': name, 'built': how}, {'model': name}, list(meta_small))
        elif kind == 'from_model':
            import pygaps
            mi = g.mk_model(cfg, 'Langmuir', meta_small)
            iso = pygaps.PointIsotherm.from_modelisotherm(mi, pressure_points=[0.1, 0.2, 0.4, 0.7])
            res['viol'] += one(iso, fmt, target, 'point', {'units': cfg, 'source': 'PointIsotherm.from_modelisotherm'}, {'source': 'from_modelisotherm'},
                               list(meta_small) + ['model_from'])
        elif kind == 'out':
            cls, (key, val) = spec
            meta = {key: val}
            iso = g.mk_base(cfg, meta) if cls == 'base' else g.mk_point(cfg, (4, 'guessable', 'none'), meta, scale)
            o = core.call(export_import, iso, fmt, target)
            if not o.ok:
                if core.is_pg(o.kind):
                    res['refused'] += 1
                else:
                    res['viol'].append(core.make_violation(
                        {'check': 'out-of-domain-not-refused-with-pgError', 'format': fmt, 'value': key, 'kind': o.kind},
                        f'[{fmt}/{target}] metadata {key!r}={val!r} (outside the format\'s value domain): {o.brief()} instead of a pyGAPS error',
                        {'format': fmt, 'metadata': meta, 'class': cls}))
            else:
                b = o.value.properties.get(key, '<absent>')
                if (type(b) is type(val) and b == val) or (not isinstance(val, (list, dict)) and veq(val, b)):
                    res['unchanged'] += 1
                else:
                    res['viol'].append(core.make_violation(
                        {'check': 'out-of-domain-silently-changed', 'format': fmt, 'value': key},
                        f'[{fmt}/{target}] metadata {key!r}={val!r} (outside the format\'s value domain) silently came back as {b!r}',
                        {'format': fmt, 'metadata': meta, 'class': cls}, val, b))
        res['ev'] += 1
        res['nt'] += 1
    return res


def run(ctx):
    jobs = []
    cfgs = g.UNIT_CONFIGS
    shapes = [s for s in g.DATA_SHAPES if s[2] not in ('nan-all',)]
    for fmt in FORMATS:
        for ci, cfg in enumerate(cfgs):
            sh = shapes if (not ctx.quick or ci in (0, 4)) else shapes[ci % 6::6]
            for spec in sh:
                jobs.append(('point', fmt, cfg, spec, ctx.scale))
            for spec in g.ZERO_SHAPES + g.EARLY_SHAPES + g.WORDS_SHAPES + g.BOOL_SHAPES:
                if not ctx.quick or ci in (0, 3, 5) or spec[0] == 4:
                    jobs.append(('point', fmt, cfg, spec, ctx.scale))
            jobs.append(('converted', fmt, cfg, (4, 'guessable', 'numeric'), ctx.scale))
            jobs.append(('gapped-index', fmt, cfg, (7, 'guessable', 'numeric'), ctx.scale))
            jobs.append(('gapped-index', fmt, cfg, (4, 'all-des', 'none'), ctx.scale))
            if ci in (0, 5):
                jobs.append(('subclass', fmt, cfg, (4, 'guessable', 'numeric'), ctx.scale))
            if fmt in ('csv', 'xls'):
                jobs.append(('custom-keys', fmt, cfg, (4, 'guessable', 'numeric'), ctx.scale))
            if ci == 0:
                for spec in g.TEXTNUM_SHAPES:
                    jobs.append(('outdata', fmt, cfg, spec, ctx.scale))
            for cls in ('base', 'point', 'model'):
                al = IN_DOMAIN[fmt]
                for kv in (al if (not ctx.quick or ci == 0) else al[ci % 4::4]):
                    jobs.append(('meta', fmt, cfg, (cls, kv), ctx.scale))
                jobs.append(('material', fmt, cfg, cls, ctx.scale))
            for name in g.MODEL_PARAMS:
                if ctx.quick and ci not in (0, 2, 8) and name not in ('Langmuir', 'DR', 'Virial'):
                    continue
                jobs.append(('model', fmt, cfg, (name, 'instance'), ctx.scale))
                if name in ('DR', 'DA') and ci in (0, 2):
                    jobs.append(('model', fmt, cfg, (name, 'fitted'), ctx.scale))
                if name == 'Langmuir':
                    jobs.append(('model', fmt, cfg, (name, 'small-parameters'), ctx.scale))
                if name in ('Langmuir', 'Henry', 'Toth'):
                    jobs.append(('model', fmt, cfg, (name, 'zero-fields'), ctx.scale))
                if name in ('Langmuir', 'DR', 'Virial'):
                    jobs.append(('model', fmt, cfg, (name, 'desorption-branch'), ctx.scale))
            if ci in (0, 2):
                jobs.append(('from_model', fmt, cfg, None, ctx.scale))
        for cls in ('base', 'point'):
            for kv in OUT_DOMAIN[fmt]:
                jobs.append(('out', fmt, cfgs[0], (cls, kv), ctx.scale))
    res = core.pmap(work, jobs, chunk=6)
    refused = unchanged = 0
    for r in res:
        ctx.add('round_trips', r['ev'], r['nt'])
        ctx.violate(r['viol'])
        refused += r['refused']
        unchanged += r['unchanged']
    ctx.cov['out_of_domain'] = {'refused_with_pgError': refused, 'came_back_unchanged': unchanged}
    ctx.require('round_trips', ctx.cov['evaluations'], 2000)
    ctx.cov['domain_sizes'] = {'formats': 3, 'unit_configs': len(cfgs), 'data_shapes': len(shapes), 'models': len(g.MODEL_PARAMS),
                               'in_domain_metadata': {k: len(v) for k, v in IN_DOMAIN.items()},
                               'out_of_domain_metadata': {k: len(v) for k, v in OUT_DOMAIN.items()}}
    ctx.cov['rule'] = ('format x class x unit configuration x data shape x in-domain metadata alphabet x target x models, each exported and re-imported and '
                       'compared field by field (material+properties, adsorbate, temperature, unit labels, data columns at 8 decimals, branch marks and '
                       'order, model name/parameters/ranges/predictions) and with ==; out-of-domain alphabet: refused with pgError or unchanged. Quick thins '
                       'the product over non-default unit configurations.')
    ctx.sample({'format': 'aif', 'class': 'point', 'units': list(cfgs[5]), 'shape': list(shapes[7]), 'target': 'string'})
    ctx.sample({'format': 'csv', 'out_of_domain': {'text_int': '5'}, 'expected': 'refused with a pyGAPS error or returned as the text'})
    ctx.sample({'format': 'xls', 'class': 'model', 'model': 'Toth', 'target': 'file'})
    ctx.assumptions += ["value domains as the property defines them; integer-valued metadata compare by value (5 == 5.0), booleans and texts must keep their kind",
                        'data compared at the documented 8 decimals']
