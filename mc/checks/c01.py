"""C01 — unit / mode / basis conversions (DESIGN §4 C01; engine E2).

Enumerated completely: every ordered pair and every ordered triple of the 10 pressure,
27 loading (x 19 material contexts where fraction/percent is involved) and 19 material
representations, the temperature units, on a value/shape lattice, in several environments
(adsorbate x temperature x material); plus the refusal alphabet.
Oracle: independent SI/PropsSI reference model (mc.ref_units) and exact algebra.
"""
import itertools

import numpy
import pandas

from mc import core
from mc import ref_units as ru

LEVEL = 'exploration'
PID = 'C01'

TOL_SI = 1e-3       # table precision (DESIGN §3.4)
TOL_CP = 1e-9       # CoolProp low-level vs PropsSI
TOL_ALG = 1e-12     # identities of the implementation's own tables

BASE_VALUES = [1.0, 0.37, 1234.5]


def environments(ctx):
    import pygaps
    envs = []
    if ctx.quick:
        cases = [('N2', 77.355), ('CO2', 230.0), ('n-butane', 298.15)]
        # one input per shortcut: shipped adsorbates whose *stored* molar mass disagrees with their backend
        # (every route must use one and the same source, or direct and indirect conversions disagree)
        for a in pygaps.ADSORBATE_LIST:
            if a.properties.get('backend_name') and a.properties.get('molar_mass'):
                try:
                    mm = ru.ads_consts(a.backend_name, 0.5 * (a.t_triple() + a.t_critical()))['M']
                except Exception:
                    continue
                if abs(mm - a.properties['molar_mass']) > 1e-2 * mm:
                    cases.append((a.name, 0.5 * (a.t_triple() + a.t_critical())))
        # ... and those whose STORED critical / triple temperature disagrees with the backend: a temperature inside the band between
        # the two is sub-critical (above the triple point) for the backend, which is what decides whether a saturation state exists
        import CoolProp.CoolProp as CPP
        for a in pygaps.ADSORBATE_LIST:
            b = a.properties.get('backend_name')
            if not b:
                continue
            try:
                tc, tt = CPP.PropsSI('Tcrit', b), CPP.PropsSI('Ttriple', b)
            except Exception:
                continue
            st, s3 = a.properties.get('t_critical'), a.properties.get('t_triple')
            if st is not None and tc - st > 0.3:
                cases.append((a.name, 0.5 * (st + tc)))
            if s3 is not None and s3 - tt > 0.3 and s3 < tc:
                cases.append((a.name, 0.5 * (s3 + tt)))
    else:
        cases = []
        for a in pygaps.ADSORBATE_LIST:
            if not a.properties.get('backend_name'):
                continue
            try:
                tt, tc = a.t_triple(), a.t_critical()
            except Exception:
                continue
            for f in (0.1, 0.5, 0.9):
                cases.append((a.name, tt + f * (tc - tt)))
    for name, T in cases:
        a = pygaps.Adsorbate.find(name)
        try:
            c = ru.ads_consts(a.backend_name, float(T))
        except Exception:
            continue
        if not all(numpy.isfinite(list(c.values()))):
            continue
        envs.append((name, float(T), c))
    return envs


MATERIALS = [dict(density=2.0, molar_mass=100.0), dict(density=0.5, molar_mass=1234.5)]


def mk_material(m):
    import pygaps
    return pygaps.Material('c01-mat', density=m['density'], molar_mass=m['molar_mass'])


def values(ctx):
    v = ctx.grid(BASE_VALUES) + [0.0, -2.5 * ctx.scale]
    return v


def shapes(vals):
    arr = numpy.array(vals, dtype=float)
    return [
        ('float', vals[1]), ('int', 3), ('np.float64', numpy.float64(vals[2])),
        ('0-d', numpy.array(vals[0])), ('1-d', arr),
        ('Series', pandas.Series(arr, index=[10 + 3 * i for i in range(len(arr))])),
        # narrow integer containers: the scaled values leave the range of the dtype (101 kPa = 101000 Pa > int16)
        ('1-d int16', numpy.array([20, 40, 101], dtype='int16')), ('1-d int32', numpy.array([2500, 7, 45], dtype='int32')),
        ('1-d uint8', numpy.array([200, 3, 45], dtype='uint8')), ('Series int16', pandas.Series(numpy.array([20, 40, 101], dtype='int16'), index=[5, 6, 9])),
    ]


def shape_ok(kind, x, y):
    if kind in ('float', 'int', 'np.float64'):
        return numpy.ndim(y) == 0 and not isinstance(y, (pandas.Series,))
    if kind == '0-d':
        return numpy.ndim(y) == 0
    if kind.startswith('1-d'):
        return isinstance(y, numpy.ndarray) and y.shape == x.shape
    if kind.startswith('Series'):
        return isinstance(y, pandas.Series) and list(y.index) == list(x.index)
    return False


# --- implementation adapters -------------------------------------------------

def impl_p(v, a, b, ads, T):
    from pygaps.units.converter_mode import c_pressure
    return c_pressure(v, a[0], b[0], a[1], b[1], adsorbate=ads, temp=T)


def impl_l(v, a, b, ads, T, mrep):
    from pygaps.units.converter_mode import c_loading
    return c_loading(v, a[0], b[0], a[1], b[1], adsorbate=ads, temp=T, basis_material=mrep[0], unit_material=mrep[1])


def impl_m(v, a, b, mat):
    from pygaps.units.converter_mode import c_material
    return c_material(v, a[0], b[0], a[1], b[1], material=mat)


def _needs_cp(a, b, mrep=None):
    """Does the loading conversion involve a CoolProp density (tight tolerance) or only tables?"""
    def bas(r):
        if r[0] in ('fraction', 'percent'):
            return 'volume_liquid' if mrep[0] == 'volume' else mrep[0]
        return r[0]
    return bas(a) != bas(b)


def _viol(check, family, case, exp, obs, what, extra_sig=None, unit_test=None):
    sig = {'check': check, 'family': family}
    if extra_sig:
        sig.update(extra_sig)
    return core.make_violation(sig, what, case, exp, obs, unit_test)


def _ut_pair(family, call, exp, tol):
    return (
        "import logging, pygaps\npygaps.logger.setLevel(logging.CRITICAL)\n"
        "from pygaps.units.converter_mode import c_pressure, c_loading, c_material, c_temperature\n"
        f"got = {call}\nexp = {exp!r}\n"
        f"print('got', got, 'expected', exp)\n"
        f"assert abs(got - exp) <= {tol} * abs(exp), 'C01 {family} conversion deviates from the SI/CoolProp factor'\n"
    )


# --- work units ---------------------------------------------------------------

def work_pressure(arg):
    envi, vals = arg
    import pygaps
    name, T, c = envi
    ads = pygaps.Adsorbate.find(name)
    out = {'ev': 0, 'nt': 0, 'viol': [], 'worst_si': 0.0, 'worst_alg': 0.0}
    arr = numpy.array(vals)
    reps = ru.PRESSURE_REPS
    cache = {}
    for a, b in itertools.product(reps, reps):
        for kind, x in shapes(vals):
            o = core.call(impl_p, x, a, b, ads, T)
            out['ev'] += 1
            case = {'env': [name, T], 'from': a, 'to': b, 'value': x, 'shape': kind}
            if not o.ok:
                out['viol'].append(_viol('pair_returns', 'pressure', case, 'a number', o.brief(),
                                         f'c_pressure {a}->{b} on {kind} {o.brief()}', {'kind': o.kind, 'from': a, 'to': b}))
                continue
            y = o.value
            if not shape_ok(kind, x, y):
                out['viol'].append(_viol('shape', 'pressure', case, kind, type(y).__name__,
                                         f'c_pressure {a}->{b} does not preserve shape {kind}', {'shape': kind}))
                continue
            ref = ru.c_pressure(numpy.asarray(x, dtype=float), a[0], a[1], b[0], b[1], c)
            tol = TOL_ALG if a == b else (TOL_SI if a[0] == b[0] == 'absolute' else TOL_SI)
            e = core.relerr(numpy.asarray(y, dtype=float), ref)
            if a != b:
                out['nt'] += 1
                out['worst_si'] = max(out['worst_si'], e if numpy.isfinite(e) else 0)
            if e > tol:
                xv = float(numpy.asarray(x, dtype=float).reshape(-1)[0])
                ut = _ut_pair('pressure', f"c_pressure({xv!r}, {a[0]!r}, {b[0]!r}, {a[1]!r}, {b[1]!r}, adsorbate=pygaps.Adsorbate.find({name!r}), temp={T!r})",
                              float(numpy.asarray(ref).reshape(-1)[0]), tol)
                out['viol'].append(_viol('pair_vs_si', 'pressure', case, ref, y,
                                         f'c_pressure {a}->{b}: rel. deviation {e:.3g} from the SI/CoolProp factor',
                                         {'from': a, 'to': b}, ut))
        cache[(a, b)] = core.call(impl_p, arr, a, b, ads, T)
    # there-and-back and triples on the array
    for a, b in itertools.product(reps, reps):
        yab = cache[(a, b)]
        if not yab.ok:
            continue
        back = core.call(impl_p, yab.value, b, a, ads, T)
        out['ev'] += 1
        if not back.ok or core.relerr(back.value, arr) > TOL_ALG * 10:
            e = core.relerr(back.value, arr) if back.ok else float('inf')
            out['viol'].append(_viol('there_and_back', 'pressure', {'env': [name, T], 'a': a, 'b': b}, arr, back.value if back.ok else back.brief(),
                                     f'c_pressure {a}->{b}->{a} does not return the original ({e:.3g})', {'a': a, 'b': b}))
        elif back.ok:
            out['worst_alg'] = max(out['worst_alg'], core.relerr(back.value, arr))
        for cc in reps:
            yac = cache[(a, cc)]
            ybc = core.call(impl_p, yab.value, b, cc, ads, T)
            out['ev'] += 1
            if len({a, b, cc}) == 3:
                out['nt'] += 1
            if not (yac.ok and ybc.ok):
                continue
            e = core.relerr(ybc.value, yac.value)
            out['worst_alg'] = max(out['worst_alg'], e)
            if e > TOL_ALG * 10:
                out['viol'].append(_viol('triple', 'pressure', {'env': [name, T], 'a': a, 'b': b, 'c': cc}, yac.value, ybc.value,
                                         f'c_pressure {a}->{b}->{cc} differs from {a}->{cc} by {e:.3g}', {'a': a, 'b': b, 'c': cc}))
    return out


def work_loading(arg):
    envi, vals, mrep, do_shapes = arg
    import pygaps
    name, T, c = envi
    ads = pygaps.Adsorbate.find(name)
    out = {'ev': 0, 'nt': 0, 'viol': [], 'worst_si': 0.0, 'worst_cp': 0.0, 'worst_alg': 0.0}
    arr = numpy.array(vals)
    reps = ru.LOADING_REPS
    frac = ('fraction', 'percent')
    cache = {}

    def relevant(*rs):
        # pairs without fraction/percent do not depend on the material context: enumerate them once
        return any(r[0] in frac for r in rs) or mrep == ru.MATERIAL_REPS[4]

    sh = shapes(vals) if do_shapes else [('1-d', arr)]
    for a, b in itertools.product(reps, reps):
        if not relevant(a, b):
            continue
        for kind, x in sh:
            o = core.call(impl_l, x, a, b, ads, T, mrep)
            out['ev'] += 1
            case = {'env': [name, T], 'from': a, 'to': b, 'material_rep': mrep, 'value': x, 'shape': kind}
            if not o.ok:
                out['viol'].append(_viol('pair_returns', 'loading', case, 'a number', o.brief(),
                                         f'c_loading {a}->{b} (material {mrep}) on {kind} {o.brief()}',
                                         {'kind': o.kind, 'from': a, 'to': b}))
                continue
            y = o.value
            if not shape_ok(kind, x, y):
                out['viol'].append(_viol('shape', 'loading', case, kind, type(y).__name__,
                                         f'c_loading {a}->{b} does not preserve shape {kind}', {'shape': kind}))
                continue
            ref = ru.c_loading(numpy.asarray(x, dtype=float), a[0], a[1], b[0], b[1], c, mrep[0], mrep[1])
            e = core.relerr(numpy.asarray(y, dtype=float), ref)
            if a == b:
                tol = TOL_ALG
            else:
                tol = TOL_SI
                out['nt'] += 1
                out['worst_si'] = max(out['worst_si'], e if numpy.isfinite(e) else 0)
            if e > tol:
                xv = float(numpy.asarray(x, dtype=float).reshape(-1)[0])
                ut = _ut_pair('loading', f"c_loading({xv!r}, {a[0]!r}, {b[0]!r}, {a[1]!r}, {b[1]!r}, adsorbate=pygaps.Adsorbate.find({name!r}), temp={T!r}, basis_material={mrep[0]!r}, unit_material={mrep[1]!r})",
                              float(numpy.asarray(ref).reshape(-1)[0]), tol)
                out['viol'].append(_viol('pair_vs_si', 'loading', case, ref, y,
                                         f'c_loading {a}->{b} (material {mrep}): rel. deviation {e:.3g} from the SI/CoolProp factor',
                                         {'from': a, 'to': b}, ut))
        cache[(a, b)] = core.call(impl_l, arr, a, b, ads, T, mrep)
    for a, b in itertools.product(reps, reps):
        yab = cache.get((a, b))
        if yab is None or not yab.ok:
            continue
        back = core.call(impl_l, yab.value, b, a, ads, T, mrep)
        out['ev'] += 1
        e = core.relerr(back.value, arr) if back.ok else float('inf')
        if e > TOL_ALG * 10:
            out['viol'].append(_viol('there_and_back', 'loading', {'env': [name, T], 'a': a, 'b': b, 'material_rep': mrep}, arr,
                                     back.value if back.ok else back.brief(),
                                     f'c_loading {a}->{b}->{a} does not return the original ({e:.3g})', {'a': a, 'b': b}))
        else:
            out['worst_alg'] = max(out['worst_alg'], e)
        for cc in reps:
            if not relevant(a, b, cc):
                continue
            yac = cache.get((a, cc))
            if yac is None:
                yac = cache[(a, cc)] = core.call(impl_l, arr, a, cc, ads, T, mrep)
            ybc = core.call(impl_l, yab.value, b, cc, ads, T, mrep)
            out['ev'] += 1
            if len({a, b, cc}) == 3:
                out['nt'] += 1
            if not (yac.ok and ybc.ok):
                continue
            e = core.relerr(ybc.value, yac.value)
            out['worst_alg'] = max(out['worst_alg'], e)
            if e > TOL_ALG * 10:
                out['viol'].append(_viol('triple', 'loading', {'env': [name, T], 'a': a, 'b': b, 'c': cc, 'material_rep': mrep},
                                         yac.value, ybc.value,
                                         f'c_loading {a}->{b}->{cc} differs from {a}->{cc} by {e:.3g}', {'a': a, 'b': b, 'c': cc}))
    return out


def work_material(arg):
    m, vals = arg
    mat = mk_material(m)
    out = {'ev': 0, 'nt': 0, 'viol': [], 'worst_si': 0.0, 'worst_alg': 0.0}
    arr = numpy.array(vals)
    reps = ru.MATERIAL_REPS
    cache = {}
    for a, b in itertools.product(reps, reps):
        for kind, x in shapes(vals):
            o = core.call(impl_m, x, a, b, mat)
            out['ev'] += 1
            case = {'material': m, 'from': a, 'to': b, 'value': x, 'shape': kind}
            if not o.ok:
                out['viol'].append(_viol('pair_returns', 'material', case, 'a number', o.brief(),
                                         f'c_material {a}->{b} on {kind} {o.brief()}', {'kind': o.kind, 'from': a, 'to': b}))
                continue
            y = o.value
            if not shape_ok(kind, x, y):
                out['viol'].append(_viol('shape', 'material', case, kind, type(y).__name__,
                                         f'c_material {a}->{b} does not preserve shape {kind}', {'shape': kind}))
                continue
            ref = ru.c_material(numpy.asarray(x, dtype=float), a[0], a[1], b[0], b[1], m)
            e = core.relerr(numpy.asarray(y, dtype=float), ref)
            tol = TOL_ALG if a == b else TOL_SI
            if a != b:
                out['nt'] += 1
                out['worst_si'] = max(out['worst_si'], e if numpy.isfinite(e) else 0)
            if e > tol:
                xv = float(numpy.asarray(x, dtype=float).reshape(-1)[0])
                ut = _ut_pair('material', f"c_material({xv!r}, {a[0]!r}, {b[0]!r}, {a[1]!r}, {b[1]!r}, material=pygaps.Material('m', density={m['density']!r}, molar_mass={m['molar_mass']!r}))",
                              float(numpy.asarray(ref).reshape(-1)[0]), tol)
                out['viol'].append(_viol('pair_vs_si', 'material', case, ref, y,
                                         f'c_material {a}->{b}: rel. deviation {e:.3g} from the SI factor', {'from': a, 'to': b}, ut))
        cache[(a, b)] = core.call(impl_m, arr, a, b, mat)
    for a, b in itertools.product(reps, reps):
        yab = cache[(a, b)]
        if not yab.ok:
            continue
        back = core.call(impl_m, yab.value, b, a, mat)
        out['ev'] += 1
        e = core.relerr(back.value, arr) if back.ok else float('inf')
        if e > TOL_ALG * 10:
            out['viol'].append(_viol('there_and_back', 'material', {'material': m, 'a': a, 'b': b}, arr,
                                     back.value if back.ok else back.brief(),
                                     f'c_material {a}->{b}->{a} does not return the original ({e:.3g})', {'a': a, 'b': b}))
        else:
            out['worst_alg'] = max(out['worst_alg'], e)
        for cc in reps:
            yac = cache[(a, cc)]
            ybc = core.call(impl_m, yab.value, b, cc, mat)
            out['ev'] += 1
            if len({a, b, cc}) == 3:
                out['nt'] += 1
            if not (yac.ok and ybc.ok):
                continue
            e = core.relerr(ybc.value, yac.value)
            out['worst_alg'] = max(out['worst_alg'], e)
            if e > TOL_ALG * 10:
                out['viol'].append(_viol('triple', 'material', {'material': m, 'a': a, 'b': b, 'c': cc}, yac.value, ybc.value,
                                         f'c_material {a}->{b}->{cc} differs from {a}->{cc} by {e:.3g}', {'a': a, 'b': b, 'c': cc}))
    return out


def check_temperature(ctx):
    from pygaps.units.converter_mode import c_temperature
    spell = ['K', '°C', 'C', 'celsius', '°c']
    vals = ctx.grid([77.355, 298.15, 1.0]) + [0.0, -40.0]
    ev = nt = 0
    for a, b in itertools.product(spell, spell):
        for kind, x in shapes(vals):
            o = core.call(c_temperature, x, a, b)
            ev += 1
            ref = ru.c_temperature(numpy.asarray(x, dtype=float), a, b)
            if not o.ok:
                ctx.violate(_viol('pair_returns', 'temperature', {'from': a, 'to': b, 'value': x}, ref, o.brief(),
                                  f'c_temperature {a}->{b} {o.brief()}', {'kind': o.kind}))
                continue
            if ru.norm_temp_unit(a) != ru.norm_temp_unit(b):
                nt += 1
            if not shape_ok(kind, x, o.value) or not core.close(numpy.asarray(o.value, dtype=float), ref, rel=1e-12, abs_=1e-9):
                ctx.violate(_viol('pair_vs_si', 'temperature', {'from': a, 'to': b, 'value': x}, ref, o.value,
                                  f'c_temperature {a}->{b} wrong', {'from': a, 'to': b}))
        for cc in spell:
            x = numpy.array(vals)
            o1 = core.call(lambda: c_temperature(c_temperature(x, a, b), b, cc))
            o2 = core.call(c_temperature, x, a, cc)
            ev += 1
            if o1.ok and o2.ok and not core.close(o1.value, o2.value, rel=1e-12, abs_=1e-9):
                ctx.violate(_viol('triple', 'temperature', {'a': a, 'b': b, 'c': cc}, o2.value, o1.value,
                                  f'c_temperature {a}->{b}->{cc} differs from direct', {'a': a, 'b': b, 'c': cc}))
    ctx.add('temperature', ev, nt)


# --- refusals -----------------------------------------------------------------

BAD = [None, '', 'bogus']


def near(v, valid):
    """Near-miss spellings of a valid name (other capitalisation, a trailing blank) that are not themselves valid names."""
    if not isinstance(v, str):
        return []
    out = []
    for w in (v.lower(), v.upper(), v.swapcase(), v.capitalize(), v + ' ', ' ' + v):
        if w != v and w not in valid and w not in out:
            out.append(w)
    return out


MODES = ('absolute', 'relative', 'relative%')
LBASES = ('molar', 'mass', 'volume_gas', 'volume_liquid', 'fraction', 'percent')
MBASES = ('mass', 'volume', 'molar')


def check_refusals(ctx, env):
    import pygaps
    name, T, c = env
    ads = pygaps.Adsorbate.find(name)
    mat = mk_material(MATERIALS[0])
    from pygaps.units.converter_mode import c_loading, c_material, c_pressure, c_temperature
    ev = 0
    kinds = set()

    def expect_refused(family, fn, args, pos, why):
        nonlocal ev
        o = core.call(fn, *args)
        ev += 1
        kinds.add((family, o.kind if not o.ok else 'returned'))
        if o.ok or o.kind != 'ParameterError':
            call_s = f"{fn.__name__}{tuple(args[:5])}"
            ctx.violate(_viol('refusal', family, {'args': [core.short(a) for a in args], 'bad_position': pos, 'why': why},
                              'ParameterError', o.brief(),
                              f'{fn.__name__} with {why} in position {pos}: expected ParameterError, {o.brief()}',
                              {'position': pos, 'why': why, 'outcome': o.kind if not o.ok else 'returned'},
                              unit_test=None))

    # pressure: (value, mode_from, mode_to, unit_from, unit_to, adsorbate, temp)
    for a, b in itertools.product(ru.PRESSURE_REPS, ru.PRESSURE_REPS):
        if a == b:
            continue
        base = [1.0, a[0], b[0], a[1], b[1], ads, T]
        for bad in BAD + ['molar'] + near(a[0], MODES):
            expect_refused('pressure', c_pressure, base[:1] + [bad] + base[2:], 'mode_from', f'mode {bad!r}')
        for bad in BAD + ['molar'] + near(b[0], MODES):
            expect_refused('pressure', c_pressure, base[:2] + [bad] + base[3:], 'mode_to', f'mode {bad!r}')
        for bad in near(a[1], ru.P_UNITS):
            expect_refused('pressure', c_pressure, base[:3] + [bad] + base[4:], 'unit_from', f'unit {bad!r} (near-miss of {a[1]!r})')
        for bad in near(b[1], ru.P_UNITS):
            expect_refused('pressure', c_pressure, base[:4] + [bad] + base[5:], 'unit_to', f'unit {bad!r} (near-miss of {b[1]!r})')
        for bad in BAD + ['mmol']:
            if a[0] == 'absolute':
                expect_refused('pressure', c_pressure, base[:3] + [bad] + base[4:], 'unit_from', f'unit {bad!r}')
            if b[0] == 'absolute' and not (a[0] == 'absolute' and not bad):
                # same-mode call with the target unit omitted means "no unit change requested": not in the alphabet
                expect_refused('pressure', c_pressure, base[:4] + [bad] + base[5:], 'unit_to', f'unit {bad!r}')
    # the SAME missing / unknown mode (basis) on both sides is not "nothing to convert"
    for bad in BAD + ['Absolute', 'ABSOLUTE', 'molar', 'relative %']:
        for uf, ut in (('bar', 'Pa'), ('bar', 'bar'), (None, None)):
            for val in (1.0, numpy.array([1.0, 2.0])):
                expect_refused('pressure', c_pressure, [val, bad, bad, uf, ut, ads, T], 'mode_from and mode_to', f'the same mode {bad!r} on both sides')
    for bad in BAD + ['Molar', 'absolute']:
        expect_refused('loading', c_loading, [1.0, bad, bad, 'mmol', 'mol', ads, T, 'mass', 'g'], 'basis_from and basis_to', f'the same basis {bad!r} on both sides')
        expect_refused('material', c_material, [1.0, bad, bad, 'g', 'kg', mat], 'basis_from and basis_to', f'the same basis {bad!r} on both sides')
    # loading: (value, basis_from, basis_to, unit_from, unit_to, adsorbate, temp, basis_material, unit_material)
    frac = ('fraction', 'percent')
    lreps = [('molar', 'mmol'), ('mass', 'g'), ('volume_gas', 'cm3'), ('volume_liquid', 'L'), ('fraction', None), ('percent', None),
             ('molar', 'cm3(STP)'), ('mass', 'kg')]
    mreps = [('mass', 'g'), ('volume', 'cm3'), ('molar', 'mol')]
    for a, b in itertools.product(lreps, lreps):
        if a == b:
            continue
        for mrep in mreps:
            base = [1.0, a[0], b[0], a[1], b[1], ads, T, mrep[0], mrep[1]]
            for bad in BAD + ['absolute']:
                expect_refused('loading', c_loading, base[:1] + [bad] + base[2:], 'basis_from', f'basis {bad!r}')
                expect_refused('loading', c_loading, base[:2] + [bad] + base[3:], 'basis_to', f'basis {bad!r}')
            if mrep == mreps[0]:
                for bad in near(a[0], LBASES):
                    expect_refused('loading', c_loading, base[:1] + [bad] + base[2:], 'basis_from', f'basis {bad!r}')
                for bad in near(a[1], ru.LOADING_TABLE.get(a[0], {})):
                    expect_refused('loading', c_loading, base[:3] + [bad] + base[4:], 'unit_from', f'unit {bad!r} (near-miss of {a[1]!r})')
                for bad in near(b[1], ru.LOADING_TABLE.get(b[0], {})):
                    expect_refused('loading', c_loading, base[:4] + [bad] + base[5:], 'unit_to', f'unit {bad!r} (near-miss of {b[1]!r})')
            for bad in BAD + ['bar']:
                if a[0] not in frac:
                    expect_refused('loading', c_loading, base[:3] + [bad] + base[4:], 'unit_from', f'unit {bad!r}')
                if b[0] not in frac and not (a[0] == b[0] and not bad):
                    expect_refused('loading', c_loading, base[:4] + [bad] + base[5:], 'unit_to', f'unit {bad!r}')
            if (a[0] in frac) != (b[0] in frac):
                for bad in BAD + ['volume_gas']:
                    expect_refused('loading', c_loading, base[:7] + [bad, mrep[1]], 'basis_material', f'material basis {bad!r}')
                for bad in BAD + ['bar']:
                    expect_refused('loading', c_loading, base[:8] + [bad], 'unit_material', f'material unit {bad!r}')
    # a unit given for a unit-less basis: fraction -> fraction with a unit must not raise a non-parameter error
    for a in frac:
        for u in ['mmol', 'bogus']:
            o = core.call(c_loading, 1.0, a, a, None, u, ads, T, 'mass', 'g')
            ev += 1
            if not o.ok and o.kind != 'ParameterError':
                ctx.violate(_viol('refusal', 'loading', {'basis': a, 'unit_to': u}, 'a value or ParameterError', o.brief(),
                                  f'c_loading {a}->{a} with unit_to={u!r}: {o.brief()}',
                                  {'position': 'unit_to', 'why': 'unit for a unit-less basis', 'outcome': o.kind}))
    # material: (value, basis_from, basis_to, unit_from, unit_to, material)
    for a, b in itertools.product(mreps + [('mass', 'kg')], mreps + [('mass', 'kg')]):
        if a == b:
            continue
        base = [1.0, a[0], b[0], a[1], b[1], mat]
        for bad in BAD + ['fraction', 'volume_gas']:
            expect_refused('material', c_material, base[:1] + [bad] + base[2:], 'basis_from', f'basis {bad!r}')
            expect_refused('material', c_material, base[:2] + [bad] + base[3:], 'basis_to', f'basis {bad!r}')
        for bad in BAD + ['bar'] + near(a[1], ru.MATERIAL_TABLE.get(a[0], {})):
            expect_refused('material', c_material, base[:3] + [bad] + base[4:], 'unit_from', f'unit {bad!r}')
            if not (a[0] == b[0] and not bad):
                expect_refused('material', c_material, base[:4] + [bad] + base[5:], 'unit_to', f'unit {bad!r}')
    # temperature
    for bad in BAD + ['F', 'bar']:
        expect_refused('temperature', c_temperature, [300.0, bad, 'K'], 'unit_from', f'unit {bad!r}')
        expect_refused('temperature', c_temperature, [300.0, 'K', bad], 'unit_to', f'unit {bad!r}')
    ctx.add('refusals', ev, len(kinds))
    ctx.require('refusal_cases', ev, 1000)


def check_histories(ctx, envs):
    """Conversions interleaved with other uses of the same adsorbate / material objects (shared state must not leak)."""
    import pygaps
    from pygaps.units.converter_mode import c_loading, c_material, c_pressure
    ev = nt = 0
    for name, T, c in envs[:3]:
        ads = pygaps.Adsorbate.find(name)
        try:
            tt, tc = ads.t_triple(), ads.t_critical()
        except Exception:
            continue
        T2 = tt + 0.77 * (tc - tt) if abs(tt + 0.77 * (tc - tt) - T) > 1 else tt + 0.6 * (tc - tt)
        others = {
            'enthalpy_vaporisation(press)': lambda: ads.enthalpy_vaporisation(press=0.6 * c['ps']),
            'enthalpy_vaporisation(temp)': lambda: ads.enthalpy_vaporisation(temp=T),
            'saturation_pressure(T2)': lambda: ads.saturation_pressure(T2),
            'gas_density(T2)': lambda: ads.gas_density(T2),
            'liquid_density(T)': lambda: ads.liquid_density(T),
            'surface_tension(T)': lambda: ads.surface_tension(T),
            # queries that cannot be answered (supercritical / no temperature) must not poison later valid ones
            'saturation_pressure(supercritical) [fails]': lambda: ads.saturation_pressure(tc * 1.3),
            'liquid_density(supercritical) [fails]': lambda: ads.liquid_density(tc * 1.3),
            'gas_density(supercritical) [fails]': lambda: ads.gas_density(tc * 1.3),
            'molar->volume_gas without temperature [fails]': lambda: c_loading(2.5, 'molar', 'volume_gas', 'mmol', 'cm3', ads, None),
            'absolute->relative without temperature [fails]': lambda: c_pressure(1.0, 'absolute', 'relative', 'bar', None, ads, None),
        }
        convs = {
            'absolute->relative': (lambda: c_pressure(1234.5, 'absolute', 'relative', 'Pa', None, ads, T), ru.c_pressure(1234.5, 'absolute', 'Pa', 'relative', None, c)),
            'relative%->kPa': (lambda: c_pressure(12.5, 'relative%', 'absolute', None, 'kPa', ads, T), ru.c_pressure(12.5, 'relative%', None, 'absolute', 'kPa', c)),
            'mass->volume_liquid': (lambda: c_loading(2.5, 'mass', 'volume_liquid', 'g', 'cm3', ads, T), ru.c_loading(2.5, 'mass', 'g', 'volume_liquid', 'cm3', c)),
            'molar->volume_gas': (lambda: c_loading(2.5, 'molar', 'volume_gas', 'mmol', 'cm3', ads, T), ru.c_loading(2.5, 'molar', 'mmol', 'volume_gas', 'cm3', c)),
            'volume_gas->volume_liquid': (lambda: c_loading(2.5, 'volume_gas', 'volume_liquid', 'L', 'cm3', ads, T), ru.c_loading(2.5, 'volume_gas', 'L', 'volume_liquid', 'cm3', c)),
            'fraction(volume)->molar': (lambda: c_loading(0.2, 'fraction', 'molar', None, 'mmol', ads, T, 'volume', 'cm3'), ru.c_loading(0.2, 'fraction', None, 'molar', 'mmol', c, 'volume', 'cm3')),
        }
        steps = dict(others)
        steps.update({k: v[0] for k, v in convs.items()})
        for h in list(itertools.product(steps, repeat=1)) + list(itertools.product(steps, repeat=2)):
            for cname, (cfn, ref) in convs.items():
                for attr in [k for k in vars(ads) if k not in ('name', 'alias', 'properties', '_state', '_backend_mode')]:
                    delattr(ads, attr)
                ads._state = None
                ads._backend_mode = None
                for st in h:
                    core.call(steps[st])
                o = core.call(cfn)
                ev += 1
                nt += 1
                if not o.ok or abs(float(o.value) - ref) > TOL_SI * abs(ref):
                    ctx.violate(_viol('conversion-depends-on-history', 'adsorbate-state', {'env': [name, T], 'history': list(h), 'conversion': cname}, ref,
                                      o.value if o.ok else o.brief(),
                                      f'{cname} for {name}@{T} after {list(h)} = {o.value if o.ok else o.brief()} but the SI/CoolProp factor gives {ref}',
                                      {'conversion': cname}))
    # materials whose density / molar mass change after construction
    def via_setter(m):
        m.density = 3.5
        m.molar_mass = 250.0

    def via_properties(m):
        m.properties['density'] = 3.5
        m.properties['molar_mass'] = 250.0

    def via_isotherm_dict(m):
        pygaps.MATERIAL_LIST.append(m)
        try:
            from pygaps.core.baseisotherm import BaseIsotherm
            BaseIsotherm(material={'name': m.name, 'density': 3.5, 'molar_mass': 250.0}, adsorbate='N2', temperature=77.0)
        finally:
            pygaps.MATERIAL_LIST.remove(m)

    new = dict(density=3.5, molar_mass=250.0)
    for how, change in (('setter', via_setter), ('properties dict', via_properties), ('isotherm created with a material dict', via_isotherm_dict)):
        for warm in (False, True):
            m = pygaps.Material('c01-mutable', density=2.0, molar_mass=100.0)
            if warm:
                c_material(1.0, 'mass', 'volume', 'g', 'cm3', m)
                c_material(1.0, 'molar', 'mass', 'mol', 'g', m)
            change(m)
            for a, b in itertools.permutations([('mass', 'g'), ('volume', 'cm3'), ('molar', 'mmol')], 2):
                o = core.call(c_material, 1.5, a[0], b[0], a[1], b[1], m)
                ref = ru.c_material(1.5, a[0], a[1], b[0], b[1], new)
                ev += 1
                nt += 1
                if not o.ok or abs(float(o.value) - ref) > TOL_SI * abs(ref):
                    ctx.violate(_viol('conversion-ignores-updated-material', 'material', {'changed_by': how, 'used_before_change': warm, 'from': a, 'to': b}, ref,
                                      o.value if o.ok else o.brief(),
                                      f'c_material {a}->{b} after density/molar mass were changed ({how}) = {o.value if o.ok else o.brief()} but the current properties give {ref}',
                                      {'changed_by': how}))
    # the material an isotherm was given is the material its per-material conversions use: how it was given (name, dict, object) and what
    # else is registered in the session under the same name do not matter
    import pandas
    from pygaps import PointIsotherm
    base_list = list(pygaps.MATERIAL_LIST)
    own = dict(density=2.0, molar_mass=100.0)
    try:
        for registered in (None, dict(density=3.5, molar_mass=250.0), dict()):
            for given in ('Material object', 'dict', 'Material object registered first'):
                pygaps.MATERIAL_LIST[:] = base_list
                mine = pygaps.Material('c01-shared-name', **own)
                if given == 'Material object registered first':
                    pygaps.MATERIAL_LIST.append(mine)
                if registered is not None:
                    pygaps.MATERIAL_LIST.append(pygaps.Material('c01-shared-name', **registered))
                arg = mine if given.startswith('Material') else dict(name='c01-shared-name', **own)
                mk = core.call(PointIsotherm, pressure=[0.1, 0.5, 1.0], loading=[1.0, 2.0, 3.0], material=arg, adsorbate='N2', temperature=77.355,
                               pressure_mode='absolute', pressure_unit='bar', loading_basis='molar', loading_unit='mmol', material_basis='mass', material_unit='g',
                               temperature_unit='K')
                if not mk.ok:
                    continue
                if given == 'dict' and registered:
                    continue        # a dict names a material AND (re)defines its properties: with another definition registered the outcome is a design choice
                for (mb, mu) in (('volume', 'cm3'), ('molar', 'mmol')):
                    o = core.call(mk.value.loading, material_basis=mb, material_unit=mu)
                    ref = numpy.array([ru.c_material(x, 'mass', 'g', mb, mu, own) for x in (1.0, 2.0, 3.0)])
                    ev += 1
                    nt += 1
                    if not o.ok or numpy.abs(numpy.asarray(o.value, dtype=float) - ref).max() > TOL_SI * numpy.abs(ref).max():
                        ctx.violate(_viol('conversion-uses-another-material', 'material',
                                          {'given_as': given, 'registered_under_the_same_name': registered, 'to': (mb, mu)}, ref, o.value if o.ok else o.brief(),
                                          f'isotherm created with its material given as {given} {own}; a material of the same name with {registered} is registered: '
                                          f'loading per {mb} {mu} = {o.value if o.ok else o.brief()} but the isotherm\'s own material gives {ref}', {'given_as': given}))
    finally:
        pygaps.MATERIAL_LIST[:] = base_list
    ctx.add('histories', ev, nt)


def run(ctx):
    envs = environments(ctx)
    ctx.require('environments', len(envs), 4 if ctx.quick else 150)
    vals = values(ctx)
    ctx.cov['rule'] = (
        'Full Cartesian product, in fixed order: all ordered pairs and all ordered triples of the 10 pressure, 27 loading '
        '(x19 material contexts whenever fraction/percent is involved) and 19 material representations and 5 temperature '
        'spellings x 6 value shapes (pairs) / a 5-value array (triples, there-and-back) x environments; plus the refusal alphabet '
        '(each needed mode/basis/unit argument replaced by None, empty, unknown, foreign-family). A case is non-trivial when '
        'source and target representation differ (pairs) or all three differ (triples).'
    )
    ctx.assumptions += [
        'CoolProp is trusted as equation of state; the check compares AbstractState use in pygaps with PropsSI',
        'SI factors compared at the precision of the library tables (rel 1e-3); algebraic identities at 1e-11',
        'numeric values only on the declared lattice (phase = seed mod 8)',
    ]
    # pressure
    res = core.pmap(work_pressure, [(e, vals) for e in envs])
    # loading: env x material context
    jobs = []
    lenvs = envs if ctx.quick else envs
    for i, e in enumerate(lenvs):
        for mrep in ru.MATERIAL_REPS:
            jobs.append((e, vals, mrep, True))
    resl = core.pmap(work_loading, jobs, chunk=1)
    resm = core.pmap(work_material, [(m, vals) for m in MATERIALS], chunk=1)
    for part, rs in (('pressure', res), ('loading', resl), ('material', resm)):
        for r in rs:
            ctx.add(part, r['ev'], r['nt'])
            ctx.violate(r['viol'])
            ctx.track(f'{part}_vs_si', r['worst_si'], TOL_SI)
            ctx.track(f'{part}_algebra', r['worst_alg'], TOL_ALG * 10)
    check_temperature(ctx)
    for e in envs[:3]:
        check_refusals(ctx, e)
    check_histories(ctx, envs)
    ctx.cov['domain_sizes'] = {'pressure_reps': 10, 'loading_reps': 27, 'material_reps': 19, 'environments': len(envs),
                               'materials': len(MATERIALS), 'values': len(vals), 'shapes': 10}
    ctx.sample({'family': 'loading', 'env': [envs[0][0], envs[0][1]], 'from': ['molar', 'mmol'], 'to': ['volume_liquid', 'cm3'],
                'value': vals[0], 'reference': float(ru.c_loading(vals[0], 'molar', 'mmol', 'volume_liquid', 'cm3', envs[0][2]))})
    ctx.sample({'family': 'pressure', 'triple': [['absolute', 'torr'], ['relative%', None], ['absolute', 'MPa']], 'values': vals})
    ctx.sample({'family': 'loading', 'refusal': "c_loading(1.0,'molar','fraction','mmol',None,N2,77.355,basis_material=None,unit_material='g') -> ParameterError expected"})
    ctx.sample({'family': 'material', 'from': ['volume', 'm3'], 'to': ['molar', 'mmol'], 'material': MATERIALS[1]})
