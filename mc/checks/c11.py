"""C11 — spreading pressure equals the integral of loading over ln p (DESIGN §4 C11; engine E2).

Models: 13 models exposing a spreading pressure x parameter lattice x pressure lattice; reference = numerical quadrature of
the SAME model's loading (two independent quadrature formulations that must agree); derived clauses (zero limit, increasing,
additive, p dpi/dp = n); in-place parameter changes; ModelIsotherm unit arguments.
Point isotherms: data shapes x sizes x literal types x query pressures (below / at first point / mid-segments / knots / last point)
against the reference interpolant integral written from the definition; unit arguments.
"""
import itertools
import math

import numpy
from scipy import integrate

from mc import core
from mc import modlat as ml
from mc import ref_units as ru

LEVEL = 'exploration'

SP_MODELS = ['Henry', 'Langmuir', 'DSLangmuir', 'TSLangmuir', 'Quadratic', 'BET', 'TemkinApprox', 'Toth', 'JensenSeaton', 'GAB',
             'Freundlich', 'DR', 'DA']
QUAD_MODELS = ['Toth', 'JensenSeaton', 'DR', 'DA']
PFRAC = [1e-6, 1e-3, 0.1, 0.3, 0.6, 0.9]
TOL = 1e-7


def ref_integral(loading, a, b, kh=None):
    """int_a^b n(p)/p dp, by two formulations; returns (value, agreement)."""
    def f(x):
        if x <= 0:
            return kh if kh is not None else 0.0
        return float(loading(x)) / x
    if a <= 0:
        # direct on [0, b] with break points, and log-substitution with an analytic Henry/power-law head
        pts = [b * 10.0 ** (-k) for k in range(1, 13)]
        v1 = integrate.quad(f, 0, b, points=pts, limit=400, epsabs=1e-13, epsrel=1e-12)[0]
        # the same integral over u = ln p on (-inf, ln b]
        v2 = integrate.quad(lambda u: float(loading(math.exp(u))), -numpy.inf, math.log(b), limit=400, epsabs=1e-13, epsrel=1e-12)[0]
    else:
        v1 = integrate.quad(f, a, b, limit=400, epsabs=1e-13, epsrel=1e-12)[0]
        v2 = integrate.quad(lambda u: float(loading(math.exp(u))), math.log(a), math.log(b), limit=400, epsabs=1e-13, epsrel=1e-12)[0]
    agree = abs(v1 - v2) / max(abs(v1), abs(v2), 1e-300)
    return v1, agree


def work_model(arg):
    name, params, T = arg
    out = {'ev': 0, 'nt': 0, 'viol': [], 'skipped_ref': 0, 'worst': 0.0}
    m = ml.mk(name, params, T)
    hi = ml.p_range(name, params)
    kh = ml.henry_constant(name, params)
    ps = [f * hi for f in PFRAC]
    seen = set()

    def v(check, what, exp=None, obs=None, extra=None):
        sig = {'check': check, 'model': name}
        if extra:
            sig.update(extra)
        k = core.sig_key(sig)
        if k in seen:
            return
        seen.add(k)
        ut = ("import numpy\nfrom scipy import integrate\nfrom pygaps.modelling import get_isotherm_model\n"
              f"m = get_isotherm_model({name!r}); m.params = {params!r}\n"
              + ("m.minus_rt = -8.314462618 * 77.355\n" if name in ('DR', 'DA') else "") +
              f"p = {ps[3]!r}\nref = integrate.quad(lambda x: float(m.loading(x)) / x, 0, p, points=[p * 10.0 ** -k for k in range(1, 12)], limit=400)[0]\n"
              "got = float(m.spreading_pressure(p))\nprint(got, ref)\nassert abs(got - ref) <= 1e-6 * abs(ref), 'spreading pressure is not the integral of loading/p'\n")
        out['viol'].append(core.make_violation(sig, f'{name}{params}: {what}', {'model': name, 'params': params}, exp, obs, ut))

    sps = []
    for p in ps:
        o = core.call(m.spreading_pressure, p)
        out['ev'] += 1
        if not o.ok:
            v('sp-raises', f'spreading_pressure({p:.6g}) {o.brief()}', None, o.brief(), {'kind': o.kind})
            sps.append(float('nan'))
            continue
        sp = float(numpy.asarray(o.value).reshape(-1)[0])
        sps.append(sp)
        ref, agree = ref_integral(m.loading, 0.0, p, kh)
        if agree > 1e-8:
            out['skipped_ref'] += 1
            continue
        out['nt'] += 1
        e = abs(sp - ref) / max(abs(ref), 1e-300)
        if e > TOL and abs(sp - ref) > 1e-10:
            off = sp - ref
            extra = {}
            if name == 'TemkinApprox' and abs(off - params['n_m'] * params['tht'] / 2) <= 1e-6 * abs(params['n_m'] * params['tht'] / 2):
                extra = {'kind': 'constant offset n_m*tht/2'}
            v('sp-vs-quadrature', f'spreading_pressure({p:.6g}) = {sp:.12g} but the integral of loading/p from 0 is {ref:.12g} (difference {off:.6g})', ref, sp, extra)
        elif abs(sp - ref) > 1e-10:
            out['worst'] = max(out['worst'], e)
    sps = numpy.array(sps)
    ok = numpy.isfinite(sps)
    # zero limit / zero point
    o = core.call(m.spreading_pressure, 0.0)
    out['ev'] += 1
    if o.ok and name not in QUAD_MODELS:
        z = float(numpy.asarray(o.value).reshape(-1)[0])
        if abs(z) > 1e-12 * max(1.0, abs(sps[ok]).max() if ok.any() else 1.0):
            extra = {'kind': 'constant offset n_m*tht/2'} if name == 'TemkinApprox' and abs(z - params['n_m'] * params['tht'] / 2) < 1e-9 else {}
            v('sp-zero', f'spreading_pressure(0) = {z} instead of 0', 0.0, z, extra)
    p_tiny = 1e-12 * hi
    if name in ('DR', 'DA'):
        # the Dubinin loading decays only like exp(-(RT ln p / e)^m): go down until that factor is e^-40
        cc = ml.R * T / params['e']
        p_tiny = math.exp(-(40.0 ** (1.0 / params.get('m', 2.0))) / cc)
    o = core.call(m.spreading_pressure, p_tiny) if p_tiny > 1e-300 else core.Out(False, kind='skipped')
    if o.ok and ok[3]:
        tiny = float(numpy.asarray(o.value).reshape(-1)[0])
        if abs(tiny) > 1e-2 * abs(sps[3]):
            extra = {'kind': 'constant offset n_m*tht/2'} if name == 'TemkinApprox' and abs(tiny - params['n_m'] * params['tht'] / 2) < 1e-6 * abs(tiny) else {}
            v('sp-zero-limit', f'spreading_pressure({p_tiny:.3g}) = {tiny:.6g} does not vanish (pi at 0.3 of the range = {sps[3]:.6g})', 0.0, tiny, extra)
    # increasing (where the loading is positive)
    if ok.all() and (numpy.diff(sps) <= 0).any():
        v('sp-not-increasing', f'spreading pressure not increasing along {ps}: {sps}', None, sps)
    # additivity and derivative on interior pairs
    for i, j in ((2, 3), (3, 5), (1, 4)):
        if not (ok[i] and ok[j]):
            continue
        ref, agree = ref_integral(m.loading, ps[i], ps[j])
        out['ev'] += 1
        if agree > 1e-8:
            out['skipped_ref'] += 1
            continue
        d = sps[j] - sps[i]
        out['nt'] += 1
        if abs(d - ref) > 1e-6 * abs(ref) + 1e-10:
            v('sp-not-additive', f'pi({ps[j]:.6g}) - pi({ps[i]:.6g}) = {d:.12g} but the integral over that interval is {ref:.12g}', ref, d)
    for i in (2, 3, 4):
        p = ps[i]
        h = 1e-3 * p
        a, b = core.call(m.spreading_pressure, p - h), core.call(m.spreading_pressure, p + h)
        out['ev'] += 1
        if a.ok and b.ok:
            der = p * (float(numpy.asarray(b.value).reshape(-1)[0]) - float(numpy.asarray(a.value).reshape(-1)[0])) / (2 * h)
            n = float(m.loading(p))
            tol = 1e-3 if name in QUAD_MODELS else 1e-4
            out['nt'] += 1
            if abs(der - n) > tol * abs(n):
                v('sp-derivative', f'p dpi/dp at p={p:.6g} is {der:.9g} but the loading is {n:.9g}', n, der)
    # array queries: one value per pressure, equal to the scalar evaluations; the argument is left as it was
    # (the quadrature-based models take one pressure at a time: they may refuse an array loudly; what they return is judged)
    if ok.all():
        quad = name in QUAD_MODELS
        for kind, arr in (('1-d', numpy.array(ps, dtype=float)), ('2 elements', numpy.array(ps[2:4], dtype=float)), ('0-d', numpy.array(ps[3])), ('list', list(ps)),
                          ('1-d from 0', numpy.array([0.0] + list(ps), dtype=float)), ('list from 0', [0] + list(ps)), ('tuple', tuple(ps[1:4])),
                          # arrays whose memory layout differs from their logical order, and read-only arrays
                          ('reversed view', numpy.array(ps[::-1], dtype=float)[::-1]), ('strided view', numpy.repeat(numpy.array(ps, dtype=float), 2)[::2]),
                          ('read-only', (lambda a_: (a_.setflags(write=False), a_)[1])(numpy.array(ps, dtype=float))),
                          ('F-ordered 2-d', numpy.asfortranarray(numpy.array(ps[:6], dtype=float).reshape(2, 3))),
                          ('transposed 2-d', numpy.array(ps[:6], dtype=float).reshape(3, 2).T)):
            keep = numpy.array(arr, dtype=float).copy()
            o = core.call(m.spreading_pressure, arr)
            out['ev'] += 1
            if not o.ok:
                if kind in ('list', 'list from 0', 'tuple', 'F-ordered 2-d', 'transposed 2-d') or quad:
                    out['array_refused'] = out.get('array_refused', 0) + 1
                    continue        # plain lists are not part of the numeric interface of every model
                if kind == '1-d from 0' and name in ('DR', 'DA'):
                    continue
                v('sp-array', f'spreading_pressure({kind} array) {o.brief()} although the scalar evaluations return', None, o.brief(), {'shape': kind, 'kind': o.kind})
                continue
            out['nt'] += 1
            want = {'1-d': sps, 'list': sps, '2 elements': sps[2:4], '0-d': sps[3], '1-d from 0': numpy.concatenate([[0.0], sps]),
                    'list from 0': numpy.concatenate([[0.0], sps]), 'tuple': sps[1:4], 'reversed view': sps, 'strided view': sps, 'read-only': sps,
                    'F-ordered 2-d': sps[:6].reshape(2, 3), 'transposed 2-d': sps[:6].reshape(3, 2).T}[kind]
            got = numpy.asarray(o.value, dtype=float)
            if name == 'TemkinApprox' and kind.endswith('from 0'):
                want = numpy.array(want, dtype=float)
                want[0] = got.reshape(-1)[0]       # the zero point of this model is judged (and recorded) by the zero clause above
            if got.shape != numpy.shape(want) and not (kind == '0-d' and got.size == 1):
                v('sp-array', f'spreading_pressure({kind} array of {numpy.size(keep)} pressures) returned shape {got.shape}: {got if got.size < 4 else got[:3]}; expected one value per pressure',
                  want, got, {'shape': kind})
            elif core.relerr(got.reshape(-1)[1 if kind.endswith('from 0') else 0:], numpy.asarray(want, dtype=float).reshape(-1)[1 if kind.endswith('from 0') else 0:]) > (1e-7 if quad else 1e-11) \
                    or (kind.endswith('from 0') and abs(got.reshape(-1)[0] - want[0]) > 1e-12 * max(1.0, abs(sps).max())):
                v('sp-array', f'spreading_pressure({kind} array) = {got} differs from the scalar evaluations {want}', want, got, {'shape': kind})
            if not numpy.array_equal(numpy.asarray(arr, dtype=float), keep):
                v('sp-argument-modified', f'spreading_pressure changed the {kind} array passed to it', keep, arr, {'shape': kind})
    # in-place parameter change between two queries on the same model object
    key = [k for k in ('K', 'K1', 'Ka', 'e', 'C') if k in m.params][0]
    p = ps[3]
    core.call(m.spreading_pressure, p)
    m.params[key] = m.params[key] * 1.7
    again = core.call(m.spreading_pressure, p)
    fresh = ml.mk(name, dict(params, **{key: params[key] * 1.7}), T)
    want = core.call(fresh.spreading_pressure, p)
    out['ev'] += 1
    out['nt'] += 1
    if want.ok and (not again.ok or core.relerr(again.value, want.value) > 1e-9):
        v('sp-stale-after-parameter-change', f"after params[{key!r}] was changed in place spreading_pressure({p:.6g}) = {again.value if again.ok else again.brief()} "
          f"but a fresh model with those parameters gives {want.value}", want.value, again.value if again.ok else again.brief())
    return out


# --- point isotherms ----------------------------------------------------------------------------------

def ref_point_sp(ps, ns, p):
    """Definition: piecewise-linear interpolant continued to the origin by Henry's law; integral of n/p."""
    ps = [float(x) for x in ps]
    ns = [float(x) for x in ns]
    if p <= ps[0]:
        return ns[0] / ps[0] * p
    area = ns[0]
    for i in range(len(ps) - 1):
        p1, p2, n1, n2 = ps[i], ps[i + 1], ns[i], ns[i + 1]
        b = (n2 - n1) / (p2 - p1)
        a = n1 - b * p1
        top = min(p, p2)
        area += a * math.log(top / p1) + b * (top - p1)
        if p <= p2:
            return area
    return None   # beyond the last point: not defined by the property


SHAPES = {
    'linear': lambda x: 2.0 * x,
    'concave': lambda x: 5.0 * 3.0 * x / (1 + 3.0 * x),
    'convex': lambda x: 0.8 * x * x + 0.3 * x,
    'plateau': lambda x: min(4.0, 6.0 * x),
}


def work_point(arg):
    import pygaps
    shape, npts, dtype, scale = arg
    out = {'ev': 0, 'nt': 0, 'viol': [], 'worst': 0.0}
    if dtype == 'int':
        ps = [1, 2, 5, 10, 20, 30, 45, 60, 80][:npts]
        fn = lambda x: SHAPES[shape](x / 20.0)
    else:
        ps = [round(0.05 + 0.9 * (i / (npts - 1)) ** 1.3, 6) for i in range(npts)]
        fn = SHAPES[shape]
    ns = [round(fn(x) * scale, 8) for x in ps]
    if dtype == 'int':
        pin = numpy.array(ps, dtype='int64')
    elif dtype == 'series':
        import pandas
        pin = pandas.Series(ps, index=range(10, 10 + npts)).values
    else:
        pin = list(ps)
    U = dict(pressure_mode='absolute', pressure_unit='bar', loading_basis='molar', loading_unit='mmol', material_basis='mass', material_unit='g',
             temperature_unit='K')
    mk = lambda: pygaps.PointIsotherm(pressure=pin, loading=ns, material=pygaps.Material('c11', density=2.0), adsorbate='N2', temperature=77.355, **U)
    qs = [('below', ps[0] / 2), ('first', ps[0])] + [(f'mid{i}', (ps[i] + ps[i + 1]) / 2) for i in range(npts - 1)] + \
         [(f'knot{i}', ps[i]) for i in range(1, npts - 1)] + [('last', ps[-1])]
    seen = set()

    def v(check, what, exp=None, obs=None, extra=None):
        sig = {'check': check, 'object': 'point'}
        if extra:
            sig.update(extra)
        k = core.sig_key(sig)
        if k in seen:
            return
        seen.add(k)
        out['viol'].append(core.make_violation(sig, f'point isotherm ({shape}, {npts} points, {dtype} pressures): {what}',
                                               {'pressures': ps, 'loadings': ns, 'dtype': dtype}, exp, obs,
                                               unit_test=("import logging, numpy, pygaps\npygaps.logger.setLevel(logging.CRITICAL)\n"
                                                          f"p = numpy.array({list(ps)!r}, dtype={'numpy.int64' if dtype == 'int' else 'float'}); n = {ns!r}\n"
                                                          "iso = pygaps.PointIsotherm(pressure=p, loading=n, material='m', adsorbate='N2', temperature=77.355)\n"
                                                          f"q = {float(qs[3][1])!r}\n"
                                                          "# reference: Henry segment + exact integral of each chord over ln p\n"
                                                          "import math\narea = n[0]\n"
                                                          "for i in range(len(p) - 1):\n"
                                                          "    p1, p2, n1, n2 = float(p[i]), float(p[i + 1]), n[i], n[i + 1]\n"
                                                          "    b = (n2 - n1) / (p2 - p1); a = n1 - b * p1; top = min(q, p2)\n"
                                                          "    if q > p1: area += a * math.log(top / p1) + b * (top - p1)\n"
                                                          "got = float(iso.spreading_pressure_at(q)); print(got, area)\n"
                                                          "assert abs(got - area) <= 1e-9 * abs(area)\n")))

    for tag, q in qs:
        iso = mk()
        o = core.call(iso.spreading_pressure_at, q)
        out['ev'] += 1
        ref = ref_point_sp(ps, ns, q)
        if not o.ok:
            v('point-sp-raises', f'spreading_pressure_at({q}) [{tag}] {o.brief()}', ref, o.brief(), {'where': tag.rstrip('0123456789'), 'kind': o.kind})
            continue
        out['nt'] += 1
        e = abs(float(o.value) - ref) / max(abs(ref), 1e-300)
        out['worst'] = max(out['worst'], e)
        if e > 1e-9:
            v('point-sp-vs-definition', f'spreading_pressure_at({q}) [{tag}] = {float(o.value):.12g} but the integral of the interpolant is {ref:.12g}', ref, float(o.value),
              {'where': tag.rstrip('0123456789'), 'dtype': dtype})
    # unit arguments (float data only): pressure in kPa / relative, loading in mol and per kg
    if dtype == 'float':
        c = ru.ads_consts(pygaps.Adsorbate.find('N2').backend_name, 77.355)
        with ru.library_tables():
            for tag, q in qs:       # incl. the Henry region below the first point and the first knot itself
                if not core.call(mk().spreading_pressure_at, q).ok:
                    continue
                base = ref_point_sp(ps, ns, q)
                for kw, qq, factor, name in (
                        (dict(pressure_unit='kPa'), q * 100.0, 1.0, 'pressure in kPa'),
                        (dict(pressure_mode='relative'), float(ru.c_pressure(q, 'absolute', 'bar', 'relative', None, c)), 1.0, 'relative pressure'),
                        (dict(loading_unit='mol'), q, 1e-3, 'loading in mol'),
                        (dict(loading_basis='mass', loading_unit='g'), q, 1e-3 * c['M'], 'loading in g'),
                        (dict(material_unit='kg'), q, 1e3, 'per kg of material'),
                        # several arguments at once
                        (dict(pressure_unit='kPa', loading_unit='mol'), q * 100.0, 1e-3, 'pressure in kPa + loading in mol'),
                        (dict(pressure_unit='Pa', loading_unit='mol', material_unit='kg'), q * 1e5, 1.0, 'pressure in Pa + loading in mol per kg'),
                        (dict(pressure_unit='MPa', material_unit='kg'), q * 0.1, 1e3, 'pressure in MPa + per kg'),
                        (dict(pressure_mode='relative', loading_basis='mass', loading_unit='g'),
                         float(ru.c_pressure(q, 'absolute', 'bar', 'relative', None, c)), 1e-3 * c['M'], 'relative pressure + loading in g'),
                        (dict(loading_unit='mol', material_unit='kg'), q, 1.0, 'loading in mol per kg')):
                    iso = mk()
                    o = core.call(iso.spreading_pressure_at, qq, **kw)
                    out['ev'] += 1
                    if tag.startswith('last') and 'pressure' in name and not o.ok and ('ValueError' in o.kind or o.kind == 'CalculationError'):
                        # the end knot expressed in another unit may land 1 ulp outside the data after the conversion back:
                        # the interpolator (ValueError) or the range test (CalculationError) then refuses the query openly; a value, if returned, is judged like any other
                        out['refused_at_end'] = out.get('refused_at_end', 0) + 1
                        continue
                    out['nt'] += 1
                    if not o.ok or abs(float(o.value) - base * factor) > 1e-7 * abs(base * factor):
                        v('point-sp-unit-argument', f'spreading_pressure_at({qq:.6g}, {kw}) = {o.value if o.ok else o.brief()} but converting first gives {base * factor:.12g}',
                          base * factor, o.value if o.ok else o.brief(), {'argument': name, 'where': tag.rstrip('0123456789')})
            # two queries on ONE object with different unit arguments: the second equals the same query on a fresh object
            variants = [({}, 1.0), (dict(pressure_unit='kPa'), 100.0), (dict(pressure_unit='Pa'), 1e5),
                        (dict(pressure_mode='relative'), float(ru.c_pressure(1.0, 'absolute', 'bar', 'relative', None, c))), (dict(loading_unit='mol'), 1.0),
                        (dict(material_unit='kg'), 1.0), (dict(branch='ads'), 1.0)]
            for tag, q in (qs[0], qs[3], qs[len(qs) // 2]):
                if tag.startswith('last'):
                    continue
                for (kwa, fa), (kwb, fb) in itertools.permutations(variants, 2):
                    iso = mk()
                    core.call(iso.spreading_pressure_at, q * fa, **kwa)
                    got = core.call(iso.spreading_pressure_at, q * fb, **kwb)
                    want = core.call(mk().spreading_pressure_at, q * fb, **kwb)
                    out['ev'] += 1
                    out['nt'] += 1
                    if want.ok != got.ok or (want.ok and abs(float(got.value) - float(want.value)) > 1e-12 * abs(float(want.value))):
                        v('point-sp-depends-on-earlier-query', f'spreading_pressure_at({q * fb:.6g}, {kwb}) after spreading_pressure_at({q * fa:.6g}, {kwa}) on the same isotherm = '
                          f'{got.value if got.ok else got.brief()[:80]} but on a fresh isotherm {want.value if want.ok else want.brief()[:80]}', want.value if want.ok else None,
                          got.value if got.ok else None, {'second': sorted(kwb) or ['plain']})
            # query, convert the SAME object permanently, query again: equals converting a fresh isotherm first and querying once. Stored representations
            # include fraction / percent loadings, for which convert_material only relabels the material unit (and still changes what a query with a physical
            # loading unit returns).
            stored = [{}, dict(loading_basis='fraction'), dict(loading_basis='percent'), dict(loading_basis='volume_gas', loading_unit='cm3')]
            convs = [('convert_pressure', dict(unit_to='kPa')), ('convert_pressure', dict(mode_to='relative')), ('convert_loading', dict(unit_to='mol')),
                     ('convert_loading', dict(basis_to='mass', unit_to='mg')), ('convert_material', dict(unit_to='kg')), ('convert_material', dict(basis_to='volume', unit_to='cm3')),
                     ('convert_loading', dict(basis_to='fraction'))]
            qkws = [{}, dict(loading_basis='molar', loading_unit='mmol'), dict(loading_basis='mass', loading_unit='g', material_unit='g'), dict(pressure_unit='bar', pressure_mode='absolute')]

            def mk_stored(st):
                iso_ = mk()
                if st:
                    iso_.convert_loading(basis_to=st['loading_basis'], unit_to=st.get('loading_unit'))
                    iso_ = pygaps.PointIsotherm(pressure=iso_.pressure(), loading=iso_.loading(), material=pygaps.Material('c11', density=2.0), adsorbate='N2', temperature=77.355,
                                                **dict(U, loading_basis=st['loading_basis'], loading_unit=st.get('loading_unit')))
                return iso_
            for tag, q in (qs[0], qs[len(qs) // 2]):
                for st in stored:
                    for cname, ckw in convs:
                        for qkw in qkws:
                            fresh = mk_stored(st)
                            oc = core.call(getattr(fresh, cname), **ckw)
                            if not oc.ok:
                                continue
                            # the query pressure is given in absolute bar whenever the query names its pressure representation, otherwise in the converted isotherm's own
                            if 'pressure_unit' in qkw:
                                q2 = q
                            elif cname == 'convert_pressure':
                                q2 = float(ru.c_pressure(q, 'absolute', 'bar', fresh.pressure_mode, fresh.pressure_unit, c))
                            else:
                                q2 = q
                            want = core.call(fresh.spreading_pressure_at, q2, **qkw)
                            iso = mk_stored(st)
                            core.call(iso.spreading_pressure_at, q, **qkw)
                            core.call(getattr(iso, cname), **ckw)
                            got = core.call(iso.spreading_pressure_at, q2, **qkw)
                            out['ev'] += 1
                            out['nt'] += 1
                            if want.ok != got.ok or (want.ok and abs(float(got.value) - float(want.value)) > 1e-11 * abs(float(want.value))):
                                v('point-sp-stale-after-conversion', f'isotherm stored as {st or "molar mmol/g"}: spreading_pressure_at({q:.6g}, {qkw}), then {cname}({ckw}), then '
                                  f'spreading_pressure_at({q2:.6g}, {qkw}) = {got.value if got.ok else got.brief()[:80]} but an isotherm converted before its first query gives '
                                  f'{want.value if want.ok else want.brief()[:80]}', want.value if want.ok else None, got.value if got.ok else None,
                                  {'conversion': cname, 'stored': st.get('loading_basis', 'molar')})
    return out


def work_modeliso(arg):
    import pygaps
    name, params = arg
    out = {'ev': 0, 'nt': 0, 'viol': []}
    T = 77.355
    c = ru.ads_consts(pygaps.Adsorbate.find('N2').backend_name, T)
    m = ml.mk(name, params, T)
    rel = name in ('DR', 'DA', 'BET', 'GAB')
    U = dict(pressure_mode='relative' if rel else 'absolute', pressure_unit=None if rel else 'bar', loading_basis='molar', loading_unit='mmol',
             material_basis='mass', material_unit='g', temperature_unit='K')
    iso = pygaps.ModelIsotherm(model=m, material='c11', adsorbate='N2', temperature=T, **U)
    hi = ml.p_range(name, params)
    with ru.library_tables():
        # the model's own pressure scale labelled as each of the three modes x every query mode
        for smode, sunit in (('relative', None), ('relative%', None), ('absolute', 'kPa')):
            Us = dict(U, pressure_mode=smode, pressure_unit=sunit)
            iso_s = pygaps.ModelIsotherm(model=ml.mk(name, params, T), material='c11', adsorbate='N2', temperature=T, **Us)
            for f in (0.1, 0.5):
                p = f * hi
                want = core.call(m.spreading_pressure, p)
                for qmode, qunit in (('relative', None), ('relative%', None), ('absolute', 'bar'), ('absolute', 'Pa')):
                    try:
                        q = float(ru.c_pressure(p, smode, sunit, qmode, qunit, c))
                    except Exception:
                        continue
                    kw = dict(pressure_mode=qmode)
                    if qunit:
                        kw['pressure_unit'] = qunit
                    o = core.call(iso_s.spreading_pressure_at, q, **kw)
                    out['ev'] += 1
                    out['nt'] += 1
                    if want.ok and (not o.ok or core.relerr(o.value, want.value) > 1e-8):
                        out['viol'].append(core.make_violation({'check': 'modeliso-sp-unit-argument', 'model': name, 'stored': smode, 'query': qmode},
                                                               f'ModelIsotherm[{name}] stored in {smode} {sunit or ""}: spreading_pressure_at({q:.6g}, {kw}) = {o.value if o.ok else o.brief()[:100]} '
                                                               f'but the model at the converted pressure gives {want.value}', {'model': name, 'stored': [smode, sunit], 'kwargs': kw},
                                                               want.value, o.value if o.ok else o.brief()))
        for f in (0.1, 0.5):
            p = f * hi
            want = core.call(m.spreading_pressure, p)
            for kw, conv in ((dict(pressure_unit='kPa', pressure_mode='absolute'), ('absolute', 'kPa')), (dict(pressure_mode='relative%'), ('relative%', None)),
                             (dict(pressure_mode='absolute', pressure_unit='torr'), ('absolute', 'torr'))):
                q = float(ru.c_pressure(p, U['pressure_mode'], U['pressure_unit'], conv[0], conv[1], c))
                o = core.call(iso.spreading_pressure_at, q, **kw)
                out['ev'] += 1
                out['nt'] += 1
                if want.ok and (not o.ok or core.relerr(o.value, want.value) > 1e-8):
                    out['viol'].append(core.make_violation({'check': 'modeliso-sp-unit-argument', 'model': name},
                                                           f'ModelIsotherm[{name}].spreading_pressure_at({q:.6g}, {kw}) = {o.value if o.ok else o.brief()} but the model at the converted pressure gives {want.value}',
                                                           {'model': name, 'kwargs': kw}, want.value, o.value if o.ok else o.brief()))
        # the same queries as ONE float64 array, twice: same values, and the caller's array is not touched
        ps2 = numpy.array([0.1 * hi, 0.5 * hi])
        want = core.call(m.spreading_pressure, ps2)
        for kw, conv in ((dict(pressure_unit='kPa', pressure_mode='absolute'), ('absolute', 'kPa')), (dict(pressure_mode='relative%'), ('relative%', None))):
            q = numpy.array(ru.c_pressure(ps2, U['pressure_mode'], U['pressure_unit'], conv[0], conv[1], c), dtype=float)
            for q_arg, kind in ((q, '1-d float64'), (numpy.array(q[1]), '0-d float64')):
                keep = q_arg.copy()
                first = core.call(iso.spreading_pressure_at, q_arg, **kw)
                second = core.call(iso.spreading_pressure_at, q_arg, **kw)
                out['ev'] += 1
                out['nt'] += 1
                if not want.ok:
                    continue
                w_ = numpy.asarray(want.value, dtype=float).reshape(-1)
                w_ = w_ if kind.startswith('1-d') else w_[1:]
                bad1 = not first.ok or core.relerr(numpy.asarray(first.value, dtype=float).reshape(-1), w_) > 1e-8
                bad2 = not second.ok or core.relerr(numpy.asarray(second.value, dtype=float).reshape(-1), w_) > 1e-8
                if bad1 or bad2 or not numpy.array_equal(q_arg, keep):
                    out['viol'].append(core.make_violation(
                        {'check': 'modeliso-sp-array-argument', 'model': name, 'what': 'argument modified' if not numpy.array_equal(q_arg, keep) else ('first call' if bad1 else 'second call')},
                        f'ModelIsotherm[{name}].spreading_pressure_at({kind} array {keep}, {kw}): first call {first.value if first.ok else first.brief()}, second call with the same array '
                        f'{second.value if second.ok else second.brief()}, expected {w_}; array afterwards {q_arg}', {'model': name, 'kwargs': kw}, w_, None))
    return out


def run(ctx):
    lat = ml.lattice(ctx.scale)
    jobs = [(n, p, 77.355) for n in SP_MODELS for p in lat[n]]
    res = core.pmap(work_model, jobs, chunk=2)
    skipped = 0
    for r in res:
        ctx.add('models', r['ev'], r['nt'])
        ctx.violate(r['viol'])
        skipped += r['skipped_ref']
        ctx.track('model_sp_vs_quadrature', r['worst'], TOL)
    pj = [(s, n, d, ctx.scale) for s in SHAPES for n in (3, 5, 9) for d in ('float', 'int', 'series')]
    res = core.pmap(work_point, pj, chunk=2)
    for r in res:
        ctx.add('point_isotherms', r['ev'], r['nt'])
        ctx.violate(r['viol'])
        ctx.track('point_sp_vs_definition', r['worst'], 1e-9)
    res = core.pmap(work_modeliso, [(n, lat[n][len(lat[n]) // 2]) for n in SP_MODELS], chunk=1)
    for r in res:
        ctx.add('model_isotherm_units', r['ev'], r['nt'])
        ctx.violate(r['viol'])
    ctx.cov['reference_quadratures_not_trusted'] = skipped
    ctx.cov['domain_sizes'] = {'models': len(SP_MODELS), 'parameter_vectors': len(jobs), 'pressures': len(PFRAC), 'point_isotherms': len(pj)}
    ctx.cov['rule'] = ('13 models x parameter lattice x 6 fractions of the validity range: spreading pressure vs two independent quadratures of the same model\'s '
                       'loading/p (used only where they agree to 1e-8), zero limit, monotonicity, additivity on 3 intervals, p dpi/dp = n at 3 points, query '
                       'after an in-place parameter change; 36 point isotherms (4 shapes x 3 sizes x float/int/series pressures) x every knot, mid-segment, '
                       'below and edge query vs the definition; unit arguments for point and model isotherms.')
    ctx.require('model_cases', len(jobs), 100)
    ctx.sample({'model': 'Toth', 'params': lat['Toth'][4], 'pressures': [f * ml.p_range('Toth', lat['Toth'][4]) for f in PFRAC]})
    ctx.sample({'point_isotherm': {'shape': 'concave', 'points': 5, 'pressures': 'int64'}, 'queries': ['below', 'first', 'mid0..', 'knot1..', 'last']})
    ctx.assumptions += ['scipy quadrature is the reference for models; a reference is used only when a direct and a log-substituted quadrature agree to 1e-8',
                        'point-isotherm reference written from the definition (Henry segment + exact integral of chords over ln p)',
                        'queries beyond the last data point are not covered by the property']
