"""C10 — isotherm model equations: mutually inverse, monotonic, physically bounded (DESIGN §4 C10; engine E2).

16 models x parameter lattice inside the declared bounds x pressure (loading) lattice scaled to the validity range x input
shapes {float, numpy scalar, 0-d, 1-d, 1-d containing 0, scalar 0}.  Oracles: inverse identities, scalar/array agreement,
zero point, sign, monotonicity on a dense scan, saturation bound, Henry limit from the defining equation; evaluation through
a ModelIsotherm = bare model o unit conversion.
"""
import numpy

from mc import core
from mc import modlat as ml
from mc import ref_units as ru

LEVEL = 'exploration'

TOL_CLOSED = 1e-8
TOL_NUM = 1e-5
# solvers with relative stopping criteria close to machine precision (worst observed over all phases and scales is 100x smaller)
TOL_NUM_BY_MODEL = {'TSLangmuir': 1e-10, 'JensenSeaton': 1e-10, 'Virial': 1e-8, 'TemkinApprox': 1e-6}


# models whose lattice scale factor is a pure rescaling of the pressure axis
AXIS_SCALED_MODELS = ('Henry', 'Langmuir', 'DSLangmuir', 'TSLangmuir', 'TemkinApprox', 'Toth', 'JensenSeaton', 'Virial', 'FHVST', 'WVST')
AXIS_SCALES = (1e-6, 2e7)
# the property exempts the numerical inverses of these models where the library reports failure; every other inverse must return
MAY_GIVE_UP = ('Virial', 'FHVST', 'WVST')
AXIS_SCALES_THOROUGH = (1e-9, 1e-6, 1e-3, 1e3, 2e7, 1e10)


def tol_for(name, fn):
    """Tolerance for an inverse identity: closed form vs numerical inverse (optimizer stopping tolerances)."""
    if name in TOL_NUM_BY_MODEL:
        return TOL_NUM_BY_MODEL[name]
    if name in ml.NUMERIC_INVERSE:
        return TOL_NUM
    if name in ('BET', 'GAB', 'DSLangmuir', 'Quadratic'):
        return 1e-6       # quadratic formula: cancellation at low coverage (worst observed over the 8 phases: 1.4e-8)
    return TOL_CLOSED


def shapes_of(vals):
    arr = numpy.array(vals, dtype=float)
    n = len(arr)
    # element orders: the values of an array do not depend on one another, whatever their order
    rotated = numpy.concatenate([arr[n // 2:], arr[:n // 2]])
    shuffled = arr[[(5 * i + 3) % n for i in range(n)]] if n == 7 else arr[::-1]
    desc_rep = numpy.concatenate([[arr[-1], arr[-1]], arr[::-1][2:]])
    return [('float', float(vals[2])), ('np.float64', numpy.float64(vals[3])), ('0-d', numpy.array(vals[1])), ('1-d', arr),
            ('1-d with 0', numpy.concatenate([[0.0], arr])), ('1-d rotated', rotated), ('1-d shuffled', shuffled), ('1-d descending with a repeat', desc_rep)]


def both_ranges(m, name, params):
    """(top pressure, top loading) of the range in which both directions are defined."""
    try:
        if m.calculates == 'loading':
            pt = ml.p_range(name, params)
            return pt, float(numpy.asarray(m.loading(0.9 * pt)).reshape(-1)[0])
        nt_ = ml.n_range(name, params)
        return float(numpy.asarray(m.pressure(0.9 * nt_)).reshape(-1)[0]), nt_
    except Exception:
        return 0.0, 0.0


def work(arg):
    name, params, T = arg
    out = {'ev': 0, 'nt': 0, 'viol': [], 'noreturn': 0, 'worst': {}}
    m = ml.mk(name, params, T)
    explicit = m.calculates          # 'loading' or 'pressure'
    fwd = m.loading if explicit == 'loading' else m.pressure
    inv = m.pressure if explicit == 'loading' else m.loading
    fwd_name, inv_name = ('loading', 'pressure') if explicit == 'loading' else ('pressure', 'loading')
    hi = ml.p_range(name, params) if explicit == 'loading' else ml.n_range(name, params)
    xs = [f * hi for f in ml.FRACTIONS]
    seen = set()

    def v(check, what, exp=None, obs=None, extra=None):
        sig = {'check': check, 'model': name}
        if extra:
            sig.update(extra)
        k = core.sig_key(sig)
        if k in seen:
            return
        seen.add(k)
        call = extra.get('fn') if extra else None
        out['viol'].append(core.make_violation(sig, f'{name}{params}: {what}', {'model': name, 'params': params}, exp, obs))

    def track(k, e):
        if e == e and e != float('inf'):
            out['worst'][k] = max(out['worst'].get(k, 0.0), e)

    # forward values, scalar by scalar: the reference for everything else
    f_scalar = []
    for x in xs:
        o = core.call(fwd, float(x))
        out['ev'] += 1
        if not o.ok:
            v('forward-raises', f'{fwd_name}({x:.6g}) {o.brief()}', None, o.brief(), {'fn': fwd_name, 'kind': o.kind})
            f_scalar.append(float('nan'))
            continue
        val = o.value
        if numpy.ndim(val) != 0 and numpy.size(val) == 1 and name in ml.NUMERIC_INVERSE and explicit == 'pressure':
            val = numpy.asarray(val).reshape(-1)[0]
        f_scalar.append(float(numpy.asarray(val).reshape(-1)[0]))
    f_scalar = numpy.array(f_scalar)
    good = numpy.isfinite(f_scalar)
    # sign, zero, monotone, bounded, Henry
    if explicit == 'loading':
        if (f_scalar[good] < 0).any():
            v('negative-loading', f'loading < 0 at p={numpy.array(xs)[good][f_scalar[good] < 0][:3]}', '>= 0', f_scalar, {})
        dense = numpy.linspace(xs[0], xs[-1], 400)
        od = core.call(fwd, dense)
        out['ev'] += 1
        if od.ok:
            d = numpy.asarray(od.value, dtype=float)
            if ml.monotone_expected(name, params):
                dec = numpy.diff(d) < -1e-12 * numpy.maximum(1.0, numpy.abs(d[:-1]))
                if dec.any():
                    i = int(numpy.argmax(dec))
                    v('not-monotone', f'loading decreases between p={dense[i]:.6g} and p={dense[i + 1]:.6g} ({d[i]:.9g} -> {d[i + 1]:.9g})', 'non-decreasing', None, {})
                out['nt'] += 1
            sat = ml.saturation(name, params)
            if sat is not None and (d > sat * (1 + 1e-12)).any():
                v('exceeds-saturation', f'loading {d.max():.9g} exceeds the saturation capacity {sat}', sat, float(d.max()), {})
        kh = ml.henry_constant(name, params)
        if kh is not None:
            p0 = 1e-18 * hi
            o = core.call(fwd, p0)
            out['ev'] += 1
            if o.ok:
                e = abs(float(o.value) / p0 / kh - 1)
                track('henry_limit', e)
                if e > 1e-2:
                    v('henry-limit', f'loading/p at p={p0:.3g} is {float(o.value) / p0:.9g} but the Henry constant of the defining equation is {kh:.9g}', kh, float(o.value) / p0, {})
                out['nt'] += 1
    else:
        kh = ml.henry_constant(name, params)
        n0 = 1e-9 * hi
        o = core.call(fwd, n0)
        out['ev'] += 1
        if o.ok and kh is not None:
            e = abs(n0 / float(o.value) / kh - 1)
            track('henry_limit', e)
            if e > 1e-2:
                v('henry-limit', f'n/p at n={n0:.3g} is {n0 / float(o.value):.9g} but the Henry constant is {kh:.9g}', kh, n0 / float(o.value), {})
    # zero point
    for zname, z in (('float 0', 0.0), ('array [0]', numpy.array([0.0])), ('0-d 0', numpy.array(0.0))):
        if name in ('DR', 'DA') and explicit == 'loading':
            pass
        o = core.call(fwd, z)
        out['ev'] += 1
        if not o.ok:
            v('zero-point', f'{fwd_name}({zname}) {o.brief()}', 0.0, o.brief(), {'fn': fwd_name, 'shape': zname, 'kind': o.kind})
        elif not numpy.allclose(numpy.asarray(o.value, dtype=float), 0.0, atol=1e-300):
            v('zero-point', f'{fwd_name}({zname}) = {o.value} instead of 0', 0.0, o.value, {'fn': fwd_name, 'shape': zname})
        if name in ml.NUMERIC_INVERSE and not (name == 'Virial'):
            continue
        o = core.call(inv, z)
        out['ev'] += 1
        if not o.ok:
            if not core.is_pg(o.kind):
                v('zero-point', f'{inv_name}({zname}) {o.brief()}', 0.0, o.brief(), {'fn': inv_name, 'shape': zname, 'kind': o.kind})
        elif not numpy.allclose(numpy.asarray(o.value, dtype=float), 0.0, atol=1e-12):
            v('zero-point', f'{inv_name}({zname}) = {o.value} instead of 0', 0.0, o.value, {'fn': inv_name, 'shape': zname})
    # shapes: forward agreement and inverse identity
    tol = tol_for(name, inv_name)
    for kind, x in shapes_of(xs):
        of = core.call(fwd, x)
        out['ev'] += 1
        xa = numpy.atleast_1d(numpy.asarray(x, dtype=float))
        ref_f = numpy.array([0.0 if t == 0 else f_scalar[xs.index(t)] if t in xs else numpy.nan for t in xa])
        if not of.ok:
            if name in ml.NUMERIC_INVERSE and explicit == 'pressure' and (core.is_pg(of.kind) or True):
                out['noreturn'] += 1       # numerical forward (Virial/VST loading) may report failure: counted, not failed
                if not core.is_pg(of.kind):
                    out['nonpg'] = out.get('nonpg', 0) + 1
                continue
            v('forward-raises', f'{fwd_name}({kind}) {of.brief()}', None, of.brief(), {'fn': fwd_name, 'shape': kind, 'kind': of.kind})
            continue
        fa = numpy.atleast_1d(numpy.asarray(of.value, dtype=float))
        if kind in ('float', 'np.float64', '0-d') and numpy.size(of.value) != 1:
            v('shape', f'{fwd_name}({kind}) returned {numpy.shape(of.value)}', None, None, {'fn': fwd_name, 'shape': kind})
            continue
        if fa.shape != xa.shape:
            v('shape', f'{fwd_name}({kind}) returned shape {fa.shape} for input shape {xa.shape}', None, None, {'fn': fwd_name, 'shape': kind})
            continue
        ok_idx = numpy.isfinite(ref_f)
        e = core.relerr(fa[ok_idx], ref_f[ok_idx])
        track('forward_array_vs_scalar', e)
        if e > 1e-11:
            v('array-vs-scalar', f'{fwd_name}({kind}) differs from the scalar evaluation by {e:.3g}', ref_f, fa, {'fn': fwd_name, 'shape': kind})
            continue
        out['nt'] += 1
        # inverse identity on the same shape
        y = of.value
        oi = core.call(inv, y)
        out['ev'] += 1
        if not oi.ok:
            if core.is_pg(oi.kind) and name in MAY_GIVE_UP:
                out['noreturn'] += 1
                continue
            if name in ml.NUMERIC_INVERSE and explicit == 'pressure':
                out['noreturn'] += 1
                continue
            v('inverse-raises', f'{inv_name}({fwd_name}({kind})) {oi.brief()}', x, oi.brief(), {'fn': inv_name, 'shape': kind, 'kind': oi.kind})
            continue
        ia = numpy.atleast_1d(numpy.asarray(oi.value, dtype=float))
        if ia.shape != xa.shape:
            v('shape', f'{inv_name}({kind}) returned shape {ia.shape} for input shape {xa.shape}', None, None, {'fn': inv_name, 'shape': kind})
            continue
        if True:
            with numpy.errstate(divide='ignore', invalid='ignore'):
                rel = numpy.where(xa != 0, numpy.abs(ia - xa) / numpy.abs(xa), numpy.abs(ia))
            # conditioning close to saturation: d p / d n ~ 1/(1-theta)^2
            bad = rel > tol * 100 if name in ('Toth', 'DR', 'DA', 'Freundlich') else rel > tol
            e = float(numpy.max(rel))
            track(f'inverse_{"numeric" if name in ml.NUMERIC_INVERSE else "closed"}', e)
        if bad.any():
            i = int(numpy.argmax(bad))
            extra = {'fn': inv_name, 'shape': kind if kind.startswith('1-d') else 'scalar'}
            v('inverse-identity', f'{inv_name}({fwd_name}(x)) != x for {kind}: x={xa[i]:.9g} -> {ia[i]:.9g} (deviation {e:.3g})', xa, ia, extra)
        else:
            out['nt'] += 1
    # ---- structural points of the closed-form inverses (where a discriminant or an auxiliary quantity vanishes) and long arrays
    struct = []
    if name == 'DSLangmuir':
        q_ = params
        struct.append((q_['n_m1'] * q_['K1'] + q_['n_m2'] * q_['K2']) / (q_['K1'] + q_['K2']))     # y = 0 in the quadratic formula
        struct += [q_['n_m1'], q_['n_m2'], 0.5 * (q_['n_m1'] + q_['n_m2'])]
    if name in ('BET', 'GAB', 'Langmuir', 'Toth', 'TemkinApprox', 'Quadratic'):
        struct += [0.5 * params['n_m'], params['n_m'] * 0.25]
    p_top_, n_top_ = both_ranges(m, name, params)
    for ns in struct:
        if not (0 < ns < 0.98 * n_top_):
            continue
        op_ = core.call(m.pressure, float(ns))
        out['ev'] += 1
        if not op_.ok:
            continue
        pv_ = float(numpy.asarray(op_.value).reshape(-1)[0])
        back = core.call(m.loading, pv_)
        out['nt'] += 1
        arr_ = core.call(m.pressure, numpy.array([ns, 0.9 * ns]))
        if not (pv_ > 0) or not back.ok or abs(float(numpy.asarray(back.value).reshape(-1)[0]) - ns) > 1e-6 * ns or \
                (arr_.ok and abs(float(numpy.asarray(arr_.value).reshape(-1)[0]) - pv_) > (tol_for(name, 'pressure') if name in ml.NUMERIC_INVERSE else 1e-9) * abs(pv_) + 1e-300):
            v('structural-point', f'pressure({ns!r}) = {pv_!r} (loading back: {back.value if back.ok else back.brief()}; in an array: {arr_.value if arr_.ok else arr_.brief()}) '
              f'at a structural point of the inverse formula', ns, pv_, {'fn': 'pressure'})
    for fn_name, fn, top in (('loading', m.loading, p_top_), ('pressure', m.pressure, n_top_)):
        if not top > 0:
            continue
        if name in ('Virial', 'FHVST', 'WVST') and fn_name == 'loading':
            continue        # scalar-only numerical inverse
        for npts in (201, 433):
            xs_long = numpy.linspace(0.05 * top, 0.6 * top, npts)
            o_long = core.call(fn, xs_long)
            out['ev'] += 1
            if not o_long.ok:
                if name in MAY_GIVE_UP and fn_name != explicit:
                    out['noreturn'] += 1
                    continue
                v('long-array', f'{fn_name}(array of {npts} values) {o_long.brief()}', None, o_long.brief(), {'fn': fn_name, 'kind': o_long.kind})
                continue
            got_ = numpy.asarray(o_long.value, dtype=float).reshape(-1)
            idx_ = [0, 1, npts // 2, 199, 200, npts - 2, npts - 1]
            one_by_one = [core.call(fn, float(xs_long[i])) for i in idx_]
            if not all(r.ok for r in one_by_one):
                bad_ = [r for r in one_by_one if not r.ok][0]
                if name in MAY_GIVE_UP and fn_name != explicit and core.is_pg(bad_.kind):
                    out['noreturn'] += 1        # the numerical inverse gives up openly for a single value
                    continue
                v('long-array', f'{fn_name}(single value) {bad_.brief()} although the array call returns', None, bad_.brief(), {'fn': fn_name, 'kind': bad_.kind})
                continue
            ref_ = numpy.array([float(numpy.asarray(r.value).reshape(-1)[0]) for r in one_by_one])
            out['nt'] += 1
            tol_ = max(tol_for(name, fn_name), 1e-10) if (name in ml.NUMERIC_INVERSE and fn_name != explicit) else 1e-10
            if got_.shape != (npts,) or core.relerr(got_[idx_], ref_) > tol_:
                v('long-array', f'{fn_name}(array of {npts} values): entries {idx_} are {got_[idx_] if got_.shape == (npts,) else got_.shape} but evaluated one by one they are {ref_}',
                  ref_, got_[idx_] if got_.shape == (npts,) else None, {'fn': fn_name})
    # ---- the declared ranges (the interval a model was fitted on) describe the model; they do not take part in its equations:
    # a twin carrying finite ranges must return what the bare model returns, inside and outside those ranges
    p_top_r, n_top_r = both_ranges(m, name, params)
    if p_top_r > 0 and n_top_r > 0:
        placements = {'whole range': (0.0, 0.9), 'upper part': (0.45, 0.9), 'low part': (0.001, 0.05)}
        for pl_name, (f_lo, f_hi) in placements.items():
            twin = ml.mk(name, params, T)
            try:
                if explicit == 'loading':
                    pr = (f_lo * p_top_r, f_hi * p_top_r)
                    lr = tuple(float(numpy.asarray(m.loading(q)).reshape(-1)[0]) for q in pr)
                else:
                    lr = (f_lo * n_top_r, f_hi * n_top_r)
                    pr = tuple(float(numpy.asarray(m.pressure(q)).reshape(-1)[0]) for q in lr)
            except Exception:
                continue
            twin.pressure_range, twin.loading_range = pr, lr
            for fn_name, top in (('loading', p_top_r), ('pressure', n_top_r)):
                pts = [f * top for f in (0.002, 0.03, 0.2, 0.5, 0.85)]
                for shape_name, x in (('float', pts[2]), ('0-d', numpy.array(pts[1])), ('1-d', numpy.array(pts))):
                    if name in ('Virial', 'FHVST', 'WVST') and fn_name == 'loading' and shape_name == '1-d':
                        continue
                    bare = core.call(getattr(m, fn_name), x)
                    got = core.call(getattr(twin, fn_name), x)
                    out['ev'] += 1
                    if not bare.ok:
                        continue
                    numeric = name in ml.NUMERIC_INVERSE and fn_name != explicit
                    b1 = numpy.atleast_1d(numpy.asarray(bare.value, dtype=float)).reshape(-1)
                    g1 = numpy.atleast_1d(numpy.asarray(got.value, dtype=float)).reshape(-1) if got.ok else None
                    if g1 is None or g1.shape != b1.shape or core.relerr(g1, b1) > (tol_for(name, fn_name) if numeric else 1e-12):
                        v('depends-on-declared-range',
                          f'{fn_name}({shape_name} {x!r}) of a model declaring pressure_range={pr}, loading_range={lr} ({pl_name}) '
                          f'{"= " + str(g1) if g1 is not None else got.brief()} but the same model without declared ranges gives {b1}',
                          b1, g1 if g1 is not None else got.brief(), {'fn': fn_name})
                    else:
                        out['nt'] += 1
    # ---- integer-typed inputs (both directions): the value, not the literal type, decides
    p_top, n_top = both_ranges(m, name, params)
    for fn_name, fn, top in (('loading', m.loading, p_top), ('pressure', m.pressure, n_top)):
        ints = [k for k in (1, 2, 3, 5, 9, 20, 100) if k < 0.9 * top][:4]
        if not ints and top >= 1:
            ints = [1]          # models over relative pressure (DR, DA): 0 and 1 are the whole numbers of their range
        if not ints:
            continue
        numeric = name in ml.NUMERIC_INVERSE and fn_name != explicit
        refs = [core.call(fn, float(k)) for k in ints]
        if not all(r.ok for r in refs):
            continue
        ref = numpy.array([float(numpy.asarray(r.value).reshape(-1)[0]) for r in refs])
        for kind, x, sel in (('int', ints[0], [0]), ('np.int64', numpy.int64(ints[-1]), [len(ints) - 1]), ('0-d int', numpy.array(ints[0]), [0]),
                             ('1-d int', numpy.array(ints), list(range(len(ints)))), ('1-d int32', numpy.array(ints, dtype='int32'), list(range(len(ints)))),
                             # integer containers that hold the zero point next to other points (sel None: judged against the same container as floats)
                             ('1-d int with 0 first', numpy.array([0] + ints), None), ('1-d int with 0 inside', numpy.array(ints[:1] + [0] + ints[1:]), None),
                             ('1-d int16 with 0 last', numpy.array(ints + [0], dtype='int16'), None), ('1-d uint8 with 0 first', numpy.array([0] + ints, dtype='uint8'), None),
                             ('1-d int [0, k]', numpy.array([0, ints[0]]), None)):
            o = core.call(fn, x)
            out['ev'] += 1
            same_shape_float = core.call(fn, numpy.asarray(x, dtype=float) if numpy.ndim(x) else float(x))
            if not same_shape_float.ok:
                continue        # this container shape is not supported for floats either (judged by the shape clauses above)
            if sel is None:
                want0 = numpy.atleast_1d(numpy.asarray(same_shape_float.value, dtype=float)).reshape(-1)
                got0 = numpy.atleast_1d(numpy.asarray(o.value, dtype=float)).reshape(-1) if o.ok else None
                if numeric and name in MAY_GIVE_UP and not o.ok and core.is_pg(o.kind):
                    out['noreturn'] += 1
                elif got0 is None or got0.shape != want0.shape or not numpy.allclose(got0, want0, rtol=(tol_for(name, fn_name) if numeric else 1e-11), atol=0, equal_nan=True):
                    v('integer-input', f'{fn_name}({kind} {x!r}) = {got0 if o.ok else o.brief()} but the same values as floats give {want0}', want0, got0 if o.ok else o.brief(),
                      {'fn': fn_name, 'shape': kind.split(' with')[0].split(' [')[0] + ' holding 0'})
                else:
                    out['nt'] += 1
                continue
            if not o.ok:
                if numeric and name in MAY_GIVE_UP and core.is_pg(o.kind):
                    out['noreturn'] += 1
                    continue
                v('integer-input', f'{fn_name}({kind} {x!r}) {o.brief()} although {fn_name}({float(ints[sel[0]])}) returns', ref[sel], o.brief(),
                  {'fn': fn_name, 'shape': kind, 'kind': o.kind})
                continue
            got = numpy.atleast_1d(numpy.asarray(o.value, dtype=float)).reshape(-1)
            if got.shape != (len(sel),):
                v('integer-input', f'{fn_name}({kind}) returned shape {numpy.shape(o.value)}', None, None, {'fn': fn_name, 'shape': kind})
                continue
            bad = core.relerr(got, ref[sel]) > (tol_for(name, fn_name) if numeric else 1e-11)
            if bad:
                v('integer-input', f'{fn_name}({kind} {x!r}) = {got} but the same values as floats give {ref[sel]}', ref[sel], got,
                  {'fn': fn_name, 'shape': kind})
            else:
                out['nt'] += 1
    # ---- query, change the parameters in place, query again: must equal a fresh model with the new parameters
    key = next((k for k in ('K', 'K1', 'KH', 'C', 'e', 'n_m', 'n_m1') if k in params), list(params)[0])
    for fn_name, xq in (('loading', 0.37 * p_top), ('pressure', 0.37 * n_top)):
        if not xq > 0:
            continue
        for how in ('params[key] = v', 'params = {...}', 'params = {... keys sorted}', 'params = {... keys reversed}'):
            for shape_name, xx in (('float', float(xq)), ('1-d', numpy.array([0.5 * xq, xq]))):
                m1 = ml.mk(name, params, T)
                first = core.call(getattr(m1, fn_name), xx)
                new = dict(params)
                new[key] = params[key] * 1.25
                if how == 'params[key] = v':
                    m1.params[key] = new[key]
                elif how == 'params = {...}':
                    m1.params = dict(new)
                elif how == 'params = {... keys sorted}':
                    m1.params = {k_: new[k_] for k_ in sorted(new)}          # a mapping: the order of its keys carries no meaning
                else:
                    m1.params = {k_: new[k_] for k_ in reversed(list(new))}
                got = core.call(getattr(m1, fn_name), xx)
                want = core.call(getattr(ml.mk(name, new, T), fn_name), xx)
                out['ev'] += 1
                if not want.ok or not first.ok:
                    continue
                numeric = name in ml.NUMERIC_INVERSE and fn_name != explicit
                if not got.ok:
                    v('stale-after-parameter-change', f'{fn_name}({shape_name}) after {how} (key {key!r}) {got.brief()} but a fresh model returns', want.value,
                      got.brief(), {'fn': fn_name})
                    continue
                g1 = numpy.atleast_1d(numpy.asarray(got.value, dtype=float)).reshape(-1)
                w1 = numpy.atleast_1d(numpy.asarray(want.value, dtype=float)).reshape(-1)
                f1 = numpy.atleast_1d(numpy.asarray(first.value, dtype=float)).reshape(-1)
                if g1.shape != w1.shape or core.relerr(g1, w1) > (tol_for(name, fn_name) * 10 if numeric else 1e-11):
                    stale = g1.shape == f1.shape and core.relerr(g1, f1) < 1e-12
                    v('stale-after-parameter-change',
                      f'{fn_name}({shape_name} {xx}) after {how} ({key}: {params[key]} -> {new[key]}) = {g1} but a fresh model with the new parameters gives {w1}'
                      + (' (this is the value for the OLD parameters)' if stale else ''), w1, g1, {'fn': fn_name})
                else:
                    out['nt'] += 1
    return out


def work_modeliso(arg):
    """Evaluating through a ModelIsotherm = bare model o unit conversion (library tables; the tables themselves are C01's)."""
    with ru.library_tables():
        return _work_modeliso(arg)


def _work_modeliso(arg):
    import pygaps
    name, params = arg[0], arg[1]
    variant = arg[2] if len(arg) > 2 else 'K'       # how the isotherm states its temperature: in K, in degrees Celsius, in Celsius and re-read from its JSON export
    out = {'ev': 0, 'nt': 0, 'viol': []}
    T = 77.355
    c = ru.ads_consts(pygaps.Adsorbate.find('N2').backend_name, T)
    MAT = dict(density=2.0, molar_mass=100.0)
    S = ('absolute' if name not in ('DR', 'DA') else 'relative', 'bar' if name not in ('DR', 'DA') else None, 'molar', 'mmol', 'mass', 'g')
    keys = ['pressure_mode', 'pressure_unit', 'loading_basis', 'loading_unit', 'material_basis', 'material_unit']
    m = ml.mk(name, params, T)
    hi = ml.p_range(name, params) if m.calculates == 'loading' else ml.n_range(name, params)
    m.pressure_range = (0.01, 1.0)
    m.loading_range = (0.01, 1.0)
    if variant == 'K':
        iso = pygaps.ModelIsotherm(model=m, material=pygaps.Material('c10', **MAT), adsorbate='N2', temperature=T, temperature_unit='K',
                                   **dict(zip(keys, S)))
    else:
        # the same physical temperature written in degrees Celsius (the bare model m above stays the reference: it holds T in kelvin)
        iso = pygaps.ModelIsotherm(model=ml.mk(name, params, T), material=pygaps.Material('c10', **MAT), adsorbate='N2', temperature=T - 273.15, temperature_unit='°C',
                                   **dict(zip(keys, S)))
        iso.model.pressure_range = (0.01, 1.0)
        iso.model.loading_range = (0.01, 1.0)
        if variant == 'C-json':
            import pygaps.parsing as pgp
            iso = pgp.isotherm_from_json(pgp.isotherm_to_json(iso))
    reqs = [('absolute', 'kPa', 'mass', 'mg', 'mass', 'kg'), ('relative%', None, 'volume_liquid', 'cm3', 'volume', 'cm3'),
            ('absolute', 'torr', 'molar', 'cm3(STP)', 'molar', 'mmol'), ('relative', None, 'fraction', None, 'volume', 'cm3'), ('absolute', 'bar', 'percent', None, 'mass', 'kg')]
    if S[0] == 'relative':
        reqs = [r for r in reqs]
    xs = numpy.array([0.05, 0.3, 0.7]) * hi
    for R_ in reqs:
        kw = {k: v for k, v in zip(keys, R_) if v}
        if m.calculates == 'loading':
            p_in = ru.c_pressure(xs, S[0], S[1], R_[0], R_[1], c)
            n_out = ru.full_loading(m.loading(xs), S[2], S[3], S[4], S[5], R_[2], R_[3], R_[4], R_[5], c, MAT)
            o = core.call(iso.loading_at, p_in, **kw)
            exp = n_out
            what = 'loading_at'
            # and the inverse direction with the loading given in the requested representation
            kw2 = dict(kw)
            if R_[2] in ('fraction', 'percent'):
                kw2['loading_unit'] = 'mmol'
            o2 = core.call(iso.pressure_at, n_out, **kw2)
            out['ev'] += 1
            if name not in ml.NUMERIC_INVERSE and (not o2.ok or core.relerr(o2.value, p_in) > 1e-6):
                out['viol'].append(core.make_violation({'check': 'modelisotherm-vs-bare-model', 'model': name, 'fn': 'pressure_at'},
                                                       f'ModelIsotherm[{name}].pressure_at(loading_at(p)) requested {R_}: {o2.value if o2.ok else o2.brief()} != {p_in}',
                                                       {'model': name, 'params': params, 'requested': R_}, p_in, o2.value if o2.ok else o2.brief()))
        else:
            n_in = ru.full_loading(xs, S[2], S[3], S[4], S[5], R_[2], R_[3], R_[4], R_[5], c, MAT)
            exp = ru.c_pressure(m.pressure(xs), S[0], S[1], R_[0], R_[1], c)
            if R_[2] in ('fraction', 'percent'):
                kw['loading_unit'] = 'mmol'    # the signature demands a unit even for a unit-less basis; its value is irrelevant
            o = core.call(iso.pressure_at, n_in, **kw)
            what = 'pressure_at'
        out['ev'] += 1
        out['nt'] += 1
        if not o.ok or core.relerr(o.value, exp) > 1e-8:
            out['viol'].append(core.make_violation({'check': 'modelisotherm-vs-bare-model', 'model': name, 'fn': what},
                                                   f'ModelIsotherm[{name}].{what} requested {R_}: {o.value if o.ok else o.brief()} but bare model o conversion gives {exp}',
                                                   {'model': name, 'params': params, 'requested': R_}, exp, o.value if o.ok else o.brief()))
        # the point generators: the same points, read in the requested representation
        plain_p, plain_n = core.call(iso.pressure, 7), core.call(iso.loading, 7)
        kwp = {k: v for k, v in zip(keys[:2], R_[:2]) if v}
        kwl = {k: v for k, v in zip(keys[2:], R_[2:]) if v}
        for what, plain, got, conv in (
                ('pressure(7)', plain_p, core.call(iso.pressure, 7, **kwp), lambda x: ru.c_pressure(numpy.asarray(x, dtype=float), S[0], S[1], R_[0], R_[1], c)),
                ('loading(7)', plain_n, core.call(iso.loading, 7, **kwl),
                 lambda x: ru.full_loading(numpy.asarray(x, dtype=float), S[2], S[3], S[4], S[5], R_[2], R_[3], R_[4], R_[5], c, MAT))):
            out['ev'] += 1
            if not plain.ok:
                continue
            out['nt'] += 1
            exp2 = conv(plain.value)
            if not got.ok or numpy.shape(got.value) != numpy.shape(exp2) or core.relerr(got.value, exp2) > 1e-8:
                out['viol'].append(core.make_violation({'check': 'modelisotherm-point-generator', 'model': name, 'fn': what.split('(')[0]},
                                                       f'ModelIsotherm[{name}].{what} requested {R_[:2] if what.startswith("p") else R_[2:]}: {got.value if got.ok else got.brief()} '
                                                       f'but the same points converted from the stored representation are {exp2}',
                                                       {'model': name, 'params': params, 'requested': R_}, exp2, got.value if got.ok else got.brief()))
    # arrays with missing entries (NaN): where an answer is returned, every valid entry has the value it has alone, in its own place
    for fn_name, top in (('loading_at', both_ranges(m, name, params)[0]), ('pressure_at', both_ranges(m, name, params)[1])):
        if not top > 0:
            continue
        base_x = numpy.array([0.05, 0.12, 0.3, 0.45, 0.6, 0.8]) * top
        for gaps in ([1], [1, 3], [0, 2, 4], [4, 5]):
            xg = base_x.copy()
            xg[gaps] = numpy.nan
            fn = getattr(iso, fn_name)
            o = core.call(fn, xg.copy())
            out['ev'] += 1
            if not o.ok:
                continue
            got = numpy.atleast_1d(numpy.asarray(o.value, dtype=float)).reshape(-1)
            valid = [i_ for i_ in range(len(xg)) if i_ not in gaps]
            alone = [core.call(fn, float(base_x[i_])) for i_ in valid]
            if not all(a_.ok for a_ in alone):
                continue
            out['nt'] += 1
            want = numpy.array([float(numpy.asarray(a_.value).reshape(-1)[0]) for a_ in alone])
            if got.shape != xg.shape or core.relerr(got[valid], want) > max(tol_for(name, 'pressure'), 1e-8):      # (what stands at the gaps themselves is not judged: some closed forms turn NaN into 0 there)
                out['viol'].append(core.make_violation({'check': 'modelisotherm-array-with-gaps', 'model': name, 'fn': fn_name},
                                                       f'ModelIsotherm[{name}].{fn_name}({xg}) = {got} but the valid entries alone give {want} (at positions {valid})',
                                                       {'model': name, 'params': params, 'gaps': gaps}, want, got))
    return out


def run(ctx):
    lat = ml.lattice(ctx.scale)
    jobs = []
    # quick: the lattice of this run's phase; thorough: the lattices of all phases
    scales = [ctx.scale] if ctx.quick else sorted(set(core.PHASES) | {ctx.scale})
    axis_scales = AXIS_SCALES if ctx.quick else AXIS_SCALES_THOROUGH
    for sc0 in scales:
        for name, plist in ml.lattice(sc0).items():
            for p in plist:
                jobs.append((name, p, 77.355))
    # the magnitude of the pressure axis (Pa ... relative pressure of a micropore filling): the same curves with the affinity
    # parameters rescaled by many orders of magnitude; every identity is scale-free
    for sc0 in scales:
        for sc in axis_scales:
            for name, plist in ml.lattice(sc0 * sc).items():
                if name in AXIS_SCALED_MODELS:
                    for p in plist:
                        jobs.append((name, p, 77.355))
    res = core.pmap(work, jobs, chunk=4)
    noreturn = 0
    for r in res:
        ctx.add('model_lattice', r['ev'], r['nt'])
        ctx.violate(r['viol'])
        noreturn += r['noreturn']
        for k, e in r['worst'].items():
            ctx.track(k, e, {'henry_limit': 1e-2, 'forward_array_vs_scalar': 1e-11, 'inverse_closed': TOL_CLOSED * 100, 'inverse_numeric': TOL_NUM}.get(k, 1.0))
    res2 = core.pmap(work_modeliso, [(n, pl[len(pl) // 2], var) for n, pl in lat.items() for var in ('K', 'C', 'C-json')], chunk=1)
    for r in res2:
        ctx.add('model_isotherm', r['ev'], r['nt'])
        ctx.violate(r['viol'])
    ctx.cov['did_not_return_numerical_inverse'] = noreturn
    ctx.cov['domain_sizes'] = {'models': len(lat), 'parameter_vectors': len(jobs), 'fractions_of_range': len(ml.FRACTIONS), 'shapes': 6}
    ctx.cov['rule'] = ('16 models x parameter lattice (geometric points inside the declared bounds + special values) x 7 fractions of the validity range '
                       '(below the BET/GAB pole, below saturation / the turning point) x shapes {float, numpy scalar, 0-d, 1-d, 1-d with 0, zero}; dense '
                       '400-point scan for monotonicity and saturation; Henry limit at 1e-12 of the range. Non-trivial = an identity evaluated on a returned value.')
    ctx.require('parameter_vectors', len(jobs), 150)
    ctx.sample({'model': 'Toth', 'params': lat['Toth'][3], 'pressures': [f * ml.p_range('Toth', lat['Toth'][3]) for f in ml.FRACTIONS]})
    ctx.sample({'model': 'BET', 'params': lat['BET'][5], 'zero_point': 'pressure(0.0) must be 0'})
    ctx.sample({'model': 'FHVST', 'params': lat['FHVST'][1], 'identity': 'loading(pressure(n)) = n where the library reports success'})
    ctx.assumptions += ['numerical inverses (TSLangmuir, TemkinApprox, Jensen-Seaton pressure; Virial, FH-VST, W-VST loading) judged only where the library returns; failures are counted',
                        'tolerances: closed form 1e-8 (x100 for Toth/DR/DA/Freundlich near saturation), numerical 1e-5',
                        'lattice phase scales the affinity-type parameters']
