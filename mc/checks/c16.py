"""C16 — mesopore size distributions conserve volume and follow the Kelvin equation (DESIGN §4 C16; engine E2).

3 methods x pore geometries x meniscus geometries x thickness models {Halsey, Harkins/Jura, zero, callable} x Kelvin models x
volume profiles (single step, two steps, smooth, plateau, repeated values) x pressure grids x adsorbate property sets x limits,
through the raw functions and through psd_mesoporous on isotherms (incl. a sequence with a re-defined adsorbate).
"""
import itertools
from functools import partial

import numpy

from mc import core

LEVEL = 'exploration'
R = 8.314462618
GEOM_FACTOR = {'cylindrical': 2.0, 'hemispherical': 1.0, 'hemicylindrical': 0.5}      # as pinned by the project's own reference values
PROPS = {
    'N2@77': dict(T=77.355, M=28.0134, rho=0.8064, gamma=8.876),
    'Ar@87': dict(T=87.3, M=39.948, rho=1.3954, gamma=12.55),
    'synthetic': dict(T=120.0, M=50.0, rho=1.1, gamma=20.0),
    # a fluid close to its critical point: surface tension below 1 mN/m (the value is still in mN/m)
    'near-critical': dict(T=300.0, M=44.0, rho=0.68, gamma=0.45),
}


def ref_kelvin(p, meniscus, pr, kjs=False):
    """r_K [nm] = - 2 gamma V_m / (f R T ln p), gamma in mN/m, V_m = M/rho in cm3/mol (SI: 1e-3 * 1e-6 * 1e9 = 1)."""
    f = 1.0 if kjs else GEOM_FACTOR[meniscus]
    r = -(2 * pr['gamma'] * pr['M'] / pr['rho']) / (f * R * pr['T'] * numpy.log(p))
    return r + 0.3 if kjs else r


def grids(scale):
    return {
        'lin12': numpy.linspace(0.12, 0.97, 12),
        'lin30': numpy.linspace(0.11 * scale, 0.985, 30),
        'log20': 1 - numpy.geomspace(0.85, 0.012 * scale, 20),
        'to-saturation': numpy.concatenate([numpy.linspace(0.15, 0.95, 9), [0.99, 0.995, 0.9985, 0.9995]]),
        # a high-resolution scan across a condensation step: distinct pressures 4e-5 apart
        'high-resolution': numpy.concatenate([numpy.linspace(0.2, 0.58, 6), 0.6 + 4e-5 * numpy.arange(8), numpy.linspace(0.65, 0.95, 5)]),
        # continuous dosing: more than a thousand points, still rising at the top
        'long 1200': numpy.linspace(0.08, 0.992, 1200),
        # a micropore-resolution measurement: from far below the first point of any tabulated thickness curve
        'from 2e-8': numpy.concatenate([numpy.geomspace(2e-8, 0.05, 12), numpy.linspace(0.1, 0.9, 7)]),
    }


def profiles(p):
    n = len(p)
    mid = n // 2
    out = {}
    v = numpy.full(n, 0.1)
    v[mid:] = 0.6
    out['single step'] = v
    v = numpy.full(n, 0.05)
    v[n // 3:] = 0.3
    v[2 * n // 3:] = 0.7
    out['two steps'] = v
    out['smooth'] = 0.05 + 0.8 * p ** 2
    out['plateau'] = numpy.minimum(0.5, 0.1 + 0.9 * p)
    v = 0.05 + 0.6 * p
    v[3:5] = v[3]
    out['repeated values'] = v
    out['sigmoid'] = 0.1 + 0.5 / (1 + numpy.exp(-(p - 0.6) * 25))
    # nothing adsorbed below the step (non-wetting adsorbate / baseline-subtracted data): exact zeros inside the range
    v = numpy.zeros(n)
    v[mid:] = 0.5
    out['step from empty'] = v
    v = numpy.maximum(0.0, 0.9 * (p - p[n // 3]))
    out['ramp from empty'] = v
    return out


TABULATED = {'SiO2 Jaroniec/Kruk/Olivier': 'SiO2_JKO', 'carbon black Kruk/Jaroniec/Gadkaree': 'CB_KJG'}
_TREF = {}


def thickness_models():
    from pygaps.characterisation.models_thickness import get_thickness_model
    out = {'Halsey': get_thickness_model('Halsey'), 'Harkins/Jura': get_thickness_model('Harkins/Jura'),
           'zero thickness': get_thickness_model('zero thickness'), 'callable': (lambda x: 0.25 + 0.6 * x)}
    for name in TABULATED:
        out[name] = get_thickness_model(name)
    return out


def thickness_reference(tname):
    """What the thickness model is, written down independently of the library's function.

    Equations: the published Halsey and Harkins-Jura equations (nm, nitrogen at 77 K).  Tabulated standard isotherms: number of layers
    n / n_monolayer x 0.354 nm, linear between the tabulated points, NOTHING adsorbed below the first tabulated pressure, the last
    tabulated thickness above the last one.
    """
    if tname in _TREF:
        return _TREF[tname]
    if tname == 'Halsey':
        f = lambda x: 0.354 * (-5.0 / numpy.log(x)) ** 0.333       # (the library documents the exponent as 0.333)
    elif tname == 'Harkins/Jura':
        f = lambda x: numpy.sqrt(0.1399 / (0.034 - numpy.log10(x)))
    elif tname == 'zero thickness':
        f = lambda x: numpy.zeros_like(numpy.asarray(x, dtype=float))
    elif tname == 'callable':
        f = lambda x: 0.25 + 0.6 * numpy.asarray(x, dtype=float)
    else:
        from pygaps.data import STANDARD_ISOTHERMS
        from pygaps.parsing.csv import isotherm_from_csv
        iso = isotherm_from_csv(STANDARD_ISOTHERMS[TABULATED[tname]])
        pp = numpy.asarray(iso.pressure(), dtype=float)
        tt = numpy.asarray(iso.loading(), dtype=float) / float(iso.properties['monolayer uptake [mmol/g]']) * 0.354
        order = numpy.argsort(pp)
        pp, tt = pp[order], tt[order]
        f = lambda x: numpy.interp(numpy.asarray(x, dtype=float), pp, tt, left=0.0, right=tt[-1])
    _TREF[tname] = f
    return f


def work(arg):
    from pygaps.characterisation import psd_meso
    from pygaps.characterisation.models_kelvin import get_kelvin_model
    method, pore, meniscus, tname, kname, gname, prname, scale = arg
    out = {'ev': 0, 'nt': 0, 'viol': [], 'worst': 0.0}
    fn = {'pygaps-DH': psd_meso.psd_pygapsdh, 'BJH': psd_meso.psd_bjh, 'DH': psd_meso.psd_dollimore_heal}[method]
    pr = PROPS[prname]
    p = grids(scale)[gname]
    tm = thickness_models()[tname]
    km = get_kelvin_model(kname, meniscus_geometry=meniscus, temperature=pr['T'], liquid_density=pr['rho'], adsorbate_molar_mass=pr['M'],
                          adsorbate_surface_tension=pr['gamma'])
    seen = set()

    def v(check, what, exp=None, obs=None, extra=None):
        sig = {'check': check, 'method': method}
        if extra:
            sig.update(extra)
        k = core.sig_key(sig)
        if k in seen:
            return
        seen.add(k)
        out['viol'].append(core.make_violation(sig, f'{method}/{pore}/{meniscus}/{tname}/{kname}/{gname}/{prname}: {what}',
                                               {'method': method, 'pore_geometry': pore, 'meniscus': meniscus, 'thickness': tname, 'kelvin': kname, 'grid': gname, 'adsorbate': prname},
                                               exp, obs))

    # reference widths at every pressure
    rk = ref_kelvin(p, meniscus, pr, kjs=(kname == 'Kelvin-KJS'))
    t_ref = thickness_reference(tname)(p)
    ot = core.call(tm, p)
    out['ev'] += 1
    if not ot.ok or numpy.shape(ot.value) != numpy.shape(t_ref) or not numpy.allclose(ot.value, t_ref, rtol=1e-9, atol=1e-12):
        v('thickness-model', f'thickness model {tname!r} at p/p0 = {p[:4]}... gives {ot.value[:4] if ot.ok else ot.brief()} but its definition gives {t_ref[:4]}', t_ref,
          ot.value if ot.ok else ot.brief(), {'thickness': tname})
        return out
    w_all = 2 * (rk + t_ref)
    # Kelvin function itself
    o = core.call(km, p)
    out['ev'] += 1
    if not o.ok or core.relerr(o.value, rk) > 1e-6:
        v('kelvin-radius', f'Kelvin radii {o.value[:3] if o.ok else o.brief()} differ from the Kelvin equation {rk[:3]}', rk, o.value if o.ok else o.brief(), {'kelvin': kname, 'meniscus': meniscus})
        return out
    for prof_name, vol in profiles(p).items():
        vol = vol * scale
        vc, pc = vol.copy(), p.copy()
        o = core.call(fn, vc, pc, pore, tm, km)
        out['ev'] += 1
        if not (numpy.array_equal(vc, vol) and numpy.array_equal(pc, p)):
            v('inputs-modified', 'the raw function changed its input arrays')
        if not o.ok:
            v('raises', f'profile {prof_name}: {o.brief()}', None, o.brief(), {'kind': o.kind})
            continue
        r = o.value
        out['nt'] += 1
        widths = numpy.asarray(r['pore_widths'], dtype=float)
        if len(widths) != len(p) - 1:
            v('width-count', f'{len(widths)} widths for {len(p)} pressures')
            continue
        e_lo, e_hi = core.relerr(widths, w_all[:-1]), core.relerr(widths, w_all[1:])
        out['worst'] = max(out['worst'], min(e_lo, e_hi))
        if min(e_lo, e_hi) > 1e-6:
            v('widths-vs-kelvin', f'pore widths {widths[:3]}... are neither 2(r_K+t) at the lower ends {w_all[:3]} nor at the upper ends of the pressure intervals', w_all[:-1], widths)
            continue
        if (numpy.diff(widths) <= 0).any():
            v('widths-not-increasing', f'pore widths do not increase with pressure: {widths}')
        vols = numpy.asarray(r['pore_volumes'], dtype=float)
        dist = numpy.asarray(r['pore_distribution'], dtype=float)
        dw = numpy.diff(w_all)
        if not numpy.allclose(dist * dw, vols, rtol=1e-9, atol=1e-14):
            v('distribution-times-width', f'pore_distribution x width increments {(dist * dw)[:3]} != pore_volumes {vols[:3]}', vols, dist * dw)
        if tname == 'zero thickness':
            dv = numpy.diff(vol)
            if not numpy.allclose(vols, dv, rtol=1e-12, atol=1e-15):
                v('zero-thickness-volumes', f'with a zero-thickness layer pore volumes {vols[:4]} are not the successive changes in adsorbed volume {dv[:4]}', dv, vols)
            if abs(vols.sum() - (vol[-1] - vol[0])) > 1e-12:
                v('zero-thickness-sum', f'pore volumes sum to {vols.sum()} instead of {vol[-1] - vol[0]}')
            if prof_name in ('single step', 'step from empty'):
                nz = numpy.flatnonzero(numpy.abs(vols) > 1e-14)
                k = len(p) // 2 - 1          # the step lies between p[k] and p[k+1]
                if list(nz) != [k]:
                    v('single-step-peak', f'a single condensation step between p={p[k]:.4f} and p={p[k + 1]:.4f} gives non-zero volumes at intervals {list(nz)}', [k], list(nz))
                elif not (w_all[k] * (1 - 1e-9) <= widths[k] <= w_all[k + 1] * (1 + 1e-9)):
                    v('single-step-width', f'the peak is reported at width {widths[k]} outside the Kelvin widths of the step [{w_all[k]}, {w_all[k + 1]}]')
    return out


# the representation the isotherm is STORED in (the analysis reads relative pressure and cm3 of liquid per g whatever it is)
STORED = [None, dict(pressure_mode='relative%'), dict(pressure_mode='absolute', pressure_unit='kPa'), dict(loading_basis='volume_liquid', loading_unit='L', material_unit='kg'),
          dict(loading_basis='molar', loading_unit='mmol'), dict(loading_basis='volume_liquid', loading_unit='m3')]


def check_entry(ctx):
    """psd_mesoporous on isotherms: limits, cumulative curve, property sets, re-defined adsorbate."""
    import pygaps
    import pygaps.characterisation as pgc
    ev = nt = 0
    U = dict(pressure_mode='relative', loading_basis='volume_liquid', loading_unit='cm3', material_basis='mass', material_unit='g')
    base = list(pygaps.ADSORBATE_LIST)
    keeper = core.ResultKeeper()
    try:
        for prname, pr in PROPS.items():
            aname = {'N2@77': 'N2', 'Ar@87': 'Ar'}.get(prname)
            if aname is None:
                aname = 'c16-synthetic'
                pygaps.ADSORBATE_LIST[:] = base + [pygaps.Adsorbate(aname, molar_mass=pr['M'], liquid_density=pr['rho'], surface_tension=pr['gamma'])]
                used = pr
            else:
                a = pygaps.Adsorbate.find(aname)
                used = dict(T=pr['T'], M=a.molar_mass(), rho=a.liquid_density(pr['T']), gamma=a.surface_tension(pr['T']))
            for gname, p in grids(ctx.scale).items():
                if gname == 'long 1200' and prname != 'N2@77':
                    continue
                vol = 0.05 + 0.8 * p ** 2
                for branch, stored in [(b_, s_) for b_ in ('ads', 'des') for s_ in STORED]:
                    pp, vv = (p, vol) if branch == 'ads' else (p[::-1], vol[::-1])
                    iso = pygaps.PointIsotherm(pressure=pp, loading=vv, branch=branch, material='c16', adsorbate=aname, temperature=pr['T'], **U)
                    if stored and (gname != 'lin12' or not core.call(iso.convert, **stored).ok):
                        continue        # other stored representations on one grid (and only where the adsorbate allows the conversion)
                    for method, pore in (('pygaps-DH', 'slit'), ('pygaps-DH', 'cylinder'), ('pygaps-DH', 'sphere'), ('BJH', 'cylinder'), ('DH', 'cylinder')):
                        for lim in (None, (0.2, 0.9), (0.1, None), (None, None)):
                            if lim == (None, None):
                                # an explicitly requested meniscus geometry is the one used, on either branch
                                for men_arg in ('hemicylindrical', 'cylindrical', 'hemispherical'):
                                    om = core.call(pgc.psd_mesoporous, iso, psd_model=method, pore_geometry=pore, branch=branch, thickness_model='zero thickness',
                                                   p_limits=lim, meniscus_geometry=men_arg)
                                    ev += 1
                                    wm = 2 * ref_kelvin(p, men_arg, used)
                                    if not om.ok or min(core.relerr(om.value['pore_widths'], wm[:-1]), core.relerr(om.value['pore_widths'], wm[1:])) > 1e-6:
                                        ctx.violate(core.make_violation(
                                            {'check': 'entry-requested-meniscus', 'method': method, 'meniscus': men_arg, 'branch': branch},
                                            f'psd_mesoporous({method},{pore},{branch}, meniscus_geometry={men_arg!r}) on {prname}/{gname}: widths '
                                            f'{list(om.value["pore_widths"][:3]) if om.ok else om.brief()} do not follow the Kelvin equation for the requested meniscus ({list(wm[:3])})',
                                            {}, wm, om.value['pore_widths'] if om.ok else om.brief()))
                                    else:
                                        nt += 1
                            o = core.call(pgc.psd_mesoporous, iso, psd_model=method, pore_geometry=pore, branch=branch, thickness_model='zero thickness', p_limits=lim)
                            ev += 1
                            lo, hi = (0.1, 0.99) if lim is None else lim
                            idx = [i for i, x in enumerate(p) if (not lo or x >= lo) and (not hi or x < hi)]
                            if len(idx) < 3:
                                continue
                            if not o.ok:
                                ctx.violate(core.make_violation({'check': 'entry-raises', 'method': method, 'kind': o.kind}, f'psd_mesoporous({method},{pore},{branch},{lim}) on {prname}/{gname} {o.brief()}', {}))
                                continue
                            nt += 1
                            r = o.value
                            keeper.add(f'psd_mesoporous({method},{pore},{branch},{lim}) on {prname}/{gname}', r)
                            from pygaps.characterisation.models_kelvin import get_meniscus_geometry
                            men = get_meniscus_geometry(branch, pore)
                            ps = p[idx]
                            w_all = 2 * ref_kelvin(ps, men, used)
                            widths = numpy.asarray(r['pore_widths'])
                            sig = {'method': method, 'adsorbate': 'backend' if prname != 'synthetic' else 'user properties'}
                            if tuple(r['limits']) != (idx[0], idx[-1]):
                                ctx.violate(core.make_violation(dict(sig, check='entry-limits'), f'psd_mesoporous limits {lim} on {gname}: used indices {r["limits"]}, points inside {(idx[0], idx[-1])}', {}))
                                continue
                            if min(core.relerr(widths, w_all[:-1]), core.relerr(widths, w_all[1:])) > 1e-6:
                                ctx.violate(core.make_violation(dict(sig, check='entry-widths-vs-kelvin'),
                                                                f'psd_mesoporous({method},{pore},{branch},{lim}) on {prname}/{gname}: widths {widths[:3]}..{widths[-2:]} do not follow the Kelvin equation '
                                                                f'for the adsorbate properties ({w_all[:3]}..{w_all[-2:]})', {}, w_all, widths))
                            if (numpy.diff(widths) <= 0).any():
                                ctx.violate(core.make_violation(dict(sig, check='entry-widths-not-increasing'), f'psd_mesoporous({method},{pore},{branch},{lim}) on {prname}/{gname}: widths not increasing {widths[-4:]}', {}))
                            cum = numpy.asarray(r['pore_volume_cumulative'])
                            per = 1000.0 if (stored or {}).get('material_unit') == 'kg' else 1.0       # results are per material unit of the isotherm
                            if abs(cum[-1] - per * vol[idx[-1]]) > 1e-9 * abs(per * vol[idx[-1]]):
                                ctx.violate(core.make_violation(dict(sig, check='entry-cumulative-end', stored=str(stored)), f'[stored as {stored}] cumulative curve ends at {cum[-1]} but the volume adsorbed at the highest pressure used is {per * vol[idx[-1]]} cm3 per material unit', {}))
                            if not numpy.allclose(numpy.diff(cum), numpy.asarray(r['pore_volumes'])[1:], rtol=1e-9, atol=1e-13):
                                ctx.violate(core.make_violation(dict(sig, check='entry-cumulative-steps'), 'cumulative curve is not the running sum of the pore volumes', {}))
        # the same adsorbate name re-defined with other properties between two analyses
        p = grids(ctx.scale)['lin12']
        vol = 0.05 + 0.8 * p ** 2
        for second in (dict(M=50.0, rho=1.1, gamma=35.0), dict(M=80.0, rho=0.9, gamma=20.0)):
            for how in ('new object in the registry', 'properties edited in place'):
                first = PROPS['synthetic']
                a1 = pygaps.Adsorbate('c16-synthetic', molar_mass=first['M'], liquid_density=first['rho'], surface_tension=first['gamma'])
                pygaps.ADSORBATE_LIST[:] = base + [a1]
                iso = pygaps.PointIsotherm(pressure=p, loading=vol, branch='ads', material='c16', adsorbate='c16-synthetic', temperature=120.0, **U)
                core.call(pgc.psd_mesoporous, iso, branch='ads', thickness_model='zero thickness', p_limits=(None, None))
                if how == 'new object in the registry':
                    pygaps.ADSORBATE_LIST[:] = base + [pygaps.Adsorbate('c16-synthetic', molar_mass=second['M'], liquid_density=second['rho'], surface_tension=second['gamma'])]
                    iso = pygaps.PointIsotherm(pressure=p, loading=vol, branch='ads', material='c16', adsorbate='c16-synthetic', temperature=120.0, **U)
                else:
                    a1.properties.update(molar_mass=second['M'], liquid_density=second['rho'], surface_tension=second['gamma'])
                o = core.call(pgc.psd_mesoporous, iso, branch='ads', thickness_model='zero thickness', p_limits=(None, None))
                ev += 1
                nt += 1
                w = 2 * ref_kelvin(p, 'cylindrical', dict(T=120.0, **second))
                if not o.ok or min(core.relerr(o.value['pore_widths'], w[:-1]), core.relerr(o.value['pore_widths'], w[1:])) > 1e-6:
                    ctx.violate(core.make_violation({'check': 'stale-adsorbate-properties', 'how': how},
                                                    f'after the adsorbate c16-synthetic was re-defined ({how}) psd_mesoporous widths {o.value["pore_widths"][:3] if o.ok else o.brief()} '
                                                    f'do not follow the Kelvin equation for the current properties ({w[:3]})', {'second': second}))
        # isotherms that hold BOTH branches (a hysteresis loop): the analysis of one branch is the analysis of that branch's points stored alone,
        # whatever the other branch holds (reversal point above / at / below the first desorption reading; loops that close or stay open)
        for rev, des_top in ((0.95, 0.90), (0.95, 0.95), (0.90, 0.93), (0.985, 0.97)):
            pa = numpy.concatenate([numpy.linspace(0.12, 0.8, 9), [rev]])
            pd_ = numpy.concatenate([[des_top], numpy.linspace(0.85, 0.15, 8)])
            va = 0.05 + 0.8 * pa ** 2
            vd = 0.07 + 0.85 * pd_ ** 1.6
            both = pygaps.PointIsotherm(pressure=list(pa) + list(pd_), loading=list(va) + list(vd), branch=[0] * len(pa) + [1] * len(pd_), material='c16', adsorbate='N2',
                                        temperature=77.355, **U)
            alone = {'ads': pygaps.PointIsotherm(pressure=pa, loading=va, branch='ads', material='c16', adsorbate='N2', temperature=77.355, **U),
                     'des': pygaps.PointIsotherm(pressure=pd_, loading=vd, branch='des', material='c16', adsorbate='N2', temperature=77.355, **U)}
            for method, pore in (('pygaps-DH', 'cylinder'), ('pygaps-DH', 'slit'), ('BJH', 'cylinder'), ('DH', 'cylinder')):
                for branch in ('des', 'ads'):
                    for lim in (None, (0.1, 0.99), (None, None), (0.2, 0.92)):
                        kw_ = dict(psd_model=method, pore_geometry=pore, branch=branch, thickness_model='Halsey')
                        if lim is not None:
                            kw_['p_limits'] = lim
                        o_b, o_a = core.call(pgc.psd_mesoporous, both, **kw_), core.call(pgc.psd_mesoporous, alone[branch], **kw_)
                        ev += 1
                        nt += 1
                        same = o_b.ok == o_a.ok and (not o_a.ok or all(
                            numpy.shape(o_b.value[k_]) == numpy.shape(o_a.value[k_]) and numpy.allclose(numpy.asarray(o_b.value[k_], dtype=float), numpy.asarray(o_a.value[k_], dtype=float), rtol=1e-10, atol=0, equal_nan=True)
                            for k_ in ('pore_widths', 'pore_distribution', 'pore_volume_cumulative')))
                        if not same:
                            ctx.violate(core.make_violation(
                                {'check': 'branch-not-analysed-alone', 'branch': branch},
                                f'psd_mesoporous({method},{pore},branch={branch},{lim}) on a loop (adsorption up to {rev}, desorption from {des_top}): '
                                f'{len(o_b.value["pore_widths"]) if o_b.ok else o_b.brief()[:120]} widths, the same branch stored alone gives '
                                f'{len(o_a.value["pore_widths"]) if o_a.ok else o_a.brief()[:120]}' + (f' (cumulative ends {o_b.value["pore_volume_cumulative"][-1]:.6g} vs {o_a.value["pore_volume_cumulative"][-1]:.6g})' if o_a.ok and o_b.ok else ''),
                                {'reversal': rev, 'first_desorption': des_top, 'limits': lim}))
    finally:
        pygaps.ADSORBATE_LIST[:] = base
    # every result returned above is still what it was when it was returned (the analyses that followed did not write into it)
    ch = keeper.changed()
    ev += len(keeper.items)
    nt += len(keeper.items)
    if ch:
        i, desc = ch[0]
        ctx.violate(core.make_violation({'check': 'earlier-result-rewritten'},
                                        f'{len(ch)} of {len(keeper.items)} results of psd_mesoporous were rewritten by later calls; first: result {i}, {desc} '
                                        f'(followed by {keeper.items[i + 1][0] if i + 1 < len(keeper.items) else "the re-definition sequence"})', {'count': len(ch)}))
    ctx.add('isotherm_entry', ev, nt)


def run(ctx):
    jobs = []
    tnames = ['Halsey', 'Harkins/Jura', 'zero thickness', 'callable'] + list(TABULATED)
    for method, pores in (('pygaps-DH', ['slit', 'cylinder', 'sphere']), ('BJH', ['cylinder']), ('DH', ['cylinder'])):
        for pore in pores:
            for men in ('hemicylindrical', 'cylindrical', 'hemispherical'):
                for tn in tnames:
                    for kn in (('Kelvin', 'Kelvin-KJS') if men == 'cylindrical' else ('Kelvin',)):
                        for gn in grids(1.0):
                            if gn == 'long 1200' and (tn not in ('zero thickness', 'Halsey') or kn != 'Kelvin' or men == 'cylindrical'):
                                continue        # (the long grid costs O(n^2) per configuration: every method and pore geometry, two thickness models)
                            for prn in (PROPS if (tn == 'zero thickness' or not ctx.quick) else ['N2@77']):
                                jobs.append((method, pore, men, tn, kn, gn, prn, ctx.scale))
    res = core.pmap(work, jobs, chunk=8)
    for r in res:
        ctx.add('raw_functions', r['ev'], r['nt'])
        ctx.violate(r['viol'])
        ctx.track('widths_vs_kelvin', r['worst'], 1e-6)
    check_entry(ctx)
    ctx.cov['domain_sizes'] = {'configurations': len(jobs), 'profiles': 8, 'grids': 5, 'property_sets': 4}
    ctx.cov['rule'] = ('3 methods x allowed pore geometries x 3 meniscus geometries x 4 thickness models x Kelvin/Kelvin-KJS x 4 pressure grids (one reaching p/p0 = 0.9995) x '
                       '3 adsorbate property sets x 6 volume profiles through the raw functions; psd_mesoporous on isotherms for 5 method/geometry pairs x 4 limit settings x both '
                       'branches x 3 adsorbates, plus analyses before/after the adsorbate is re-defined.')
    ctx.require('configurations', len(jobs), 300)
    ctx.sample({'method': 'pygaps-DH', 'pore': 'slit', 'meniscus': 'hemicylindrical', 'thickness': 'zero thickness', 'profile': 'single step',
                'oracle': 'one non-zero volume, at a width inside the Kelvin widths of the step; volumes = successive volume changes'})
    ctx.sample({'entry': 'psd_mesoporous', 'p_limits': [0.1, None], 'grid': 'to-saturation (0.15 .. 0.9995)'})
    ctx.assumptions += ['geometry factors of the Kelvin equation per meniscus (2, 1, 0.5) are those pinned by the project reference values',
                        'reported widths may be attached to either end of each pressure interval (as a whole series)']
