"""C04 — read-only queries are pure and independent of query history (DESIGN §4 C04; engine E1).

Part A (complete depth-2): every ordered pair (q1, q2) of the query alphabet on a freshly built world:
  outcome(q2 after q1) == outcome(q2 first), and the observable snapshot of every object is unchanged.
Part B (explicit-state, to fixpoint): BFS over the *private* state of the world (generic deep digest of
  every instance attribute of the isotherms / adsorbates / materials, module-level containers and
  function caches of the library) under the cache-relevant sub-alphabet; in every reachable state every
  query of the sub-alphabet is compared with its first-call outcome.
"""
import collections
import hashlib
import os
import types

import numpy
import pandas

from mc import core
from mc import engine_states

LEVEL = 'model_checking'

U = dict(pressure_mode='absolute', pressure_unit='bar', loading_basis='molar', loading_unit='mmol', material_basis='mass',
         material_unit='g', temperature_unit='K')
P0 = [0.05, 0.1, 0.2, 0.35, 0.5, 0.7, 0.9, 0.8, 0.6, 0.45, 0.3, 0.2, 0.1]
L0 = [1.0, 1.8, 2.6, 3.2, 3.6, 3.9, 4.1, 4.05, 3.95, 3.8, 3.5, 3.1, 2.4]


# ---------------------------------------------------------------------------
# digests

def sig12(x):
    """float -> string with 12 significant digits (identical computations give identical bits; this only hides -0.0 etc.)"""
    try:
        x = float(x)
    except Exception:
        return repr(x)
    if x != x:
        return 'nan'
    return '%.12e' % x


def vdigest(v, depth=0):
    """Digest of a query outcome value."""
    if depth > 6:
        return '...'
    if isinstance(v, dict):
        return '{' + ','.join(f'{k}:{vdigest(x, depth + 1)}' for k, x in sorted(v.items(), key=lambda kv: str(kv[0]))) + '}'
    if isinstance(v, (list, tuple)):
        return '[' + ','.join(vdigest(x, depth + 1) for x in v) + ']'
    if isinstance(v, numpy.ndarray):
        if v.dtype.kind in 'fiub':
            return 'a[' + ','.join(sig12(x) for x in v.reshape(-1)) + ']'
        return 'a' + repr(v.tolist())
    if isinstance(v, (pandas.Series, pandas.DataFrame)):
        return 'pd' + hashlib.md5(pandas.util.hash_pandas_object(v).values.tobytes()).hexdigest()
    if isinstance(v, (float, numpy.floating)):
        return sig12(v)
    if isinstance(v, (int, numpy.integer, bool, numpy.bool_)):
        return repr(int(v))
    if isinstance(v, str):
        return 's' + hashlib.md5(v.encode()).hexdigest()[:12]
    if v is None:
        return 'None'
    import pygaps
    if isinstance(v, pygaps.core.baseisotherm.BaseIsotherm):
        m = ''
        if hasattr(v, 'model'):
            m = vdigest(v.model.to_dict(), depth + 1)
        return 'iso:' + v.iso_id + m
    return type(v).__name__


def outcome(fn, w):
    o = core.call(fn, w, timeout=120)
    if o.ok:
        return 'val:' + hashlib.md5(vdigest(o.value).encode()).hexdigest()[:16], o
    return 'err:' + o.kind, o


def deep(v, depth=0, seen=None):
    """Generic digest of *private* state: every attribute, recursively (bounded), arrays by content."""
    if seen is None:
        seen = set()
    if depth > 5:
        return '...'
    if isinstance(v, (str, int, float, bool, type(None), numpy.floating, numpy.integer, numpy.bool_)):
        return repr(v)
    if id(v) in seen:
        return '<cycle>'
    if isinstance(v, numpy.ndarray):
        return 'nd' + hashlib.md5(numpy.ascontiguousarray(v).tobytes()).hexdigest()[:10]
    if isinstance(v, (pandas.Series, pandas.DataFrame)):
        return 'pd' + hashlib.md5(pandas.util.hash_pandas_object(v).values.tobytes()).hexdigest()[:10]
    seen = seen | {id(v)}
    if isinstance(v, dict):
        return '{' + ','.join(f'{k!r}:{deep(x, depth + 1, seen)}' for k, x in sorted(v.items(), key=lambda kv: repr(kv[0]))) + '}'
    if isinstance(v, (list, tuple, set, frozenset)):
        items = [deep(x, depth + 1, seen) for x in v]
        if isinstance(v, (set, frozenset)):
            items = sorted(items)
        return '[' + ','.join(items) + ']'
    if type(v).__name__ == 'AbstractState':
        # CoolProp state: what the last update left behind
        vals = []
        for f in ('T', 'Q', 'p'):
            try:
                vals.append(sig12(getattr(v, f)()))
            except Exception:
                vals.append('?')
        return 'CP(' + ','.join(vals) + ')'
    if type(v).__name__ == 'interp1d':
        return 'interp1d(' + deep(getattr(v, 'x', None), depth + 1, seen) + ',' + deep(getattr(v, 'y', None), depth + 1, seen) + ',' + \
            repr(getattr(v, '_kind', None)) + ',' + deep(getattr(v, 'fill_value', None), depth + 1, seen) + ')'
    if hasattr(v, 'cache_info') and callable(getattr(v, 'cache_info')):
        try:
            return 'cache' + repr(v.cache_info().currsize)
        except Exception:
            return 'cache?'
    if isinstance(v, (types.FunctionType, types.BuiltinFunctionType, types.MethodType, type, types.ModuleType)):
        return 'fn'
    d = getattr(v, '__dict__', None)
    if d is not None:
        return type(v).__name__ + deep(d, depth + 1, seen)
    return type(v).__name__


_MODS = None


def library_globals():
    """Module-level mutable containers and function caches of the library (kernels, thickness curves, any lru_cache)."""
    global _MODS
    import sys
    if _MODS is None:
        _MODS = sorted(n for n in sys.modules if n.startswith('pygaps.') and sys.modules[n] is not None)
    out = []
    skip = {'pygaps.data', 'pygaps.core.adsorbate', 'pygaps.core.material'}
    for n in _MODS:
        mod = sys.modules[n]
        for k, v in sorted(vars(mod).items()):
            if k.startswith('__'):
                continue
            if hasattr(v, 'cache_info') and callable(getattr(v, 'cache_info', None)):
                out.append(f'{n}.{k}=' + deep(v))
            elif isinstance(v, (dict, list, set)) and n not in skip and k.startswith('_') and k.upper() == k:
                # private upper-case module containers are caches (e.g. _LOADED); public tables are constants
                if isinstance(v, dict):
                    out.append(f'{n}.{k}=' + repr(sorted(map(repr, v.keys()))))
                else:
                    out.append(f'{n}.{k}=len{len(v)}')
            elif isinstance(v, type) and n.startswith('pygaps.modelling'):
                # class-level mutable attributes of model classes
                for ak, av in sorted(vars(v).items()):
                    if not ak.startswith('__') and isinstance(av, (dict, list, set)):
                        out.append(f'{n}.{k}.{ak}=' + deep(av))
                    elif hasattr(av, 'cache_info') or hasattr(getattr(av, '__func__', None), 'cache_info'):
                        f = av if hasattr(av, 'cache_info') else av.__func__
                        out.append(f'{n}.{k}.{ak}=' + deep(f))
    return out


# ---------------------------------------------------------------------------
# world

_BASE = {}


def reset_globals():
    import pygaps
    from pygaps.characterisation import models_thickness, psd_kernel
    if not _BASE:
        _BASE['ads'] = list(pygaps.ADSORBATE_LIST)
        _BASE['mat'] = list(pygaps.MATERIAL_LIST)
        _BASE['props'] = {a.name: dict(a.properties) for a in pygaps.ADSORBATE_LIST}
    pygaps.ADSORBATE_LIST[:] = _BASE['ads']
    pygaps.MATERIAL_LIST[:] = _BASE['mat']
    import copy
    if 'attrs' not in _BASE:
        # what every adsorbate object holds right after import (attributes created by __init__ included)
        _BASE['attrs'] = {id(a): {k: (copy.deepcopy(v) if isinstance(v, (dict, list, set, tuple)) else v) for k, v in vars(a).items()
                                  if k not in ('_state', '_backend_mode')} for a in pygaps.ADSORBATE_LIST}
    for a in pygaps.ADSORBATE_LIST:
        a._state = None
        a._backend_mode = None
        base_attrs = _BASE['attrs'].get(id(a), {})
        for k in list(vars(a)):
            if k in ('_state', '_backend_mode'):
                continue
            if k not in base_attrs:
                delattr(a, k)       # anything an instance grew after import is cache
        cur = vars(a)
        for k, v in base_attrs.items():
            if k not in cur or type(cur[k]) is not type(v) or cur[k] != v:
                setattr(a, k, copy.deepcopy(v) if isinstance(v, (dict, list, set, tuple)) else v)
    models_thickness._LOADED.clear()
    psd_kernel._LOADED.clear()
    import sys
    # module-level containers (lists of candidate models, lookup tables, defaults ...) back to their import-time content
    if 'modglobals' not in _BASE:
        snap = {}
        for n, mod in list(sys.modules.items()):
            if not n.startswith('pygaps') or mod is None:
                continue
            for k, v in list(vars(mod).items()):
                if isinstance(v, (list, dict, set)) and k not in ('ADSORBATE_LIST', 'MATERIAL_LIST', '_LOADED', '__builtins__', '__all__', '__path__') and len(v) < 5000:
                    try:
                        snap[(n, k)] = (v, copy.deepcopy(v))
                    except Exception:
                        pass
        _BASE['modglobals'] = snap
    for (n, k), (obj, saved) in _BASE['modglobals'].items():
        try:
            if obj != saved:
                if isinstance(obj, list):
                    obj[:] = copy.deepcopy(saved)
                elif isinstance(obj, dict):
                    obj.clear()
                    obj.update(copy.deepcopy(saved))
                else:
                    obj.clear()
                    obj.update(saved)
        except Exception:
            pass
    for n, mod in list(sys.modules.items()):
        if n.startswith('pygaps.') and mod is not None:
            for k, v in list(vars(mod).items()):
                if hasattr(v, 'cache_clear') and callable(getattr(v, 'cache_clear', None)):
                    v.cache_clear()
                elif isinstance(v, type):
                    for ak, av in list(vars(v).items()):
                        f = av if hasattr(av, 'cache_clear') else getattr(av, '__func__', None)
                        if f is not None and hasattr(f, 'cache_clear'):
                            f.cache_clear()


def fresh_world():
    import pygaps
    from pygaps.modelling import get_isotherm_model
    reset_globals()
    w = {}
    w['p'] = pygaps.PointIsotherm(pressure=P0, loading=L0, material='c04-M', adsorbate='N2', temperature=77.355, note='a', **U)
    w['ref'] = pygaps.PointIsotherm(pressure=[0.01, 0.04, 0.1, 0.2, 0.35, 0.5, 0.7, 0.95], loading=[0.2, 0.5, 0.9, 1.3, 1.6, 1.8, 1.95, 2.1],
                                    material='c04-R', adsorbate='N2', temperature=77.355, **U)

    def mk_model(name, params, T=77.355, ads='N2', prange=(0.05, 0.9), lrange=(0.5, 4.0), punit='bar'):
        m = get_isotherm_model(name)
        m.params = dict(params)
        m.pressure_range = prange
        m.loading_range = lrange
        if hasattr(m, 'minus_rt'):
            m.minus_rt = -8.314462618 * T
        uu = dict(U, pressure_unit=punit)
        return pygaps.ModelIsotherm(model=m, material='c04-M', adsorbate=ads, temperature=T, **uu)

    w['mL'] = mk_model('Langmuir', {'K': 8.0, 'n_m': 4.5})
    w['mT'] = mk_model('Toth', {'K': 12.0, 'n_m': 5.0, 't': 0.7})
    w['mL2'] = mk_model('Langmuir', {'K': 1.5, 'n_m': 3.0}, ads='CO2', T=298.0)
    w['mLpa'] = mk_model('Langmuir', {'K': 2e-4, 'n_m': 4.5}, prange=(1e3, 9e4), punit='Pa', T=250.0, ads='CO2')
    # a temperature set with a built-in enthalpy for the isosteric method
    w['Tset'] = []
    for T in (280.0, 300.0, 320.0):
        K = 5.0 * numpy.exp(20000.0 / 8.314462618 * (1 / T - 1 / 300.0))
        w['Tset'].append(mk_model('Langmuir', {'K': float(K), 'n_m': 4.0}, T=T, ads='CO2', prange=(0.01, 2.0), lrange=(0.2, 3.0)))
    df = pandas.DataFrame({'pressure': [0.01, 0.05, 0.1, 0.3, 0.6, 1.0], 'loading': [0.5, 1.2, 1.7, 2.4, 2.9, 3.2],
                           'enthalpy': [42.0, 35.0, 31.0, 28.0, 26.5, 25.0]})
    w['cal'] = pygaps.PointIsotherm(isotherm_data=df, pressure_key='pressure', loading_key='loading', material='c04-M', adsorbate='CO2',
                                    temperature=303.0, **U)
    w['pco2'] = pygaps.PointIsotherm(pressure=[0.05, 0.2, 0.5, 1.0, 2.0, 4.0], loading=[0.6, 1.7, 2.7, 3.4, 3.9, 4.2], material='c04-M',
                                     adsorbate='CO2', temperature=298.0, **U)
    prel = numpy.array([1e-5, 1e-4, 1e-3, 0.01, 0.05, 0.1, 0.2, 0.4, 0.7, 0.9])
    w['pdr'] = pygaps.PointIsotherm(pressure=prel, loading=6.0 * numpy.exp(-(-8.314462618 * 77.355 * numpy.log(prel) / 5500.0) ** 2), material='c04-M', adsorbate='N2',
                                    temperature=77.355, **dict(U, pressure_mode='relative', pressure_unit=None))
    w['pch4'] = pygaps.PointIsotherm(pressure=[0.05, 0.2, 0.5, 1.0, 2.0, 4.0], loading=[0.1, 0.4, 0.9, 1.5, 2.2, 2.9], material='c04-M',
                                     adsorbate='CH4', temperature=298.0, **U)
    # a second adsorbate object with the SAME name as a shipped one but its own thermodynamic data (no backend): a laboratory's own definition
    lab = pygaps.Adsorbate('nitrogen', saturation_pressure=97300.0, molar_mass=28.0, liquid_density=0.8, cross_sectional_area=0.162)
    w['plab'] = pygaps.PointIsotherm(pressure=P0, loading=L0, material='c04-M', adsorbate='N2', temperature=77.355, note='lab', **U)
    w['plab'].adsorbate = lab
    if w['plab'].adsorbate is not lab:
        raise core.HarnessError('the laboratory adsorbate was not attached')
    return w


def isotherms_of(w):
    out = []
    for k, v in w.items():
        if isinstance(v, list):
            out += [(f'{k}[{i}]', x) for i, x in enumerate(v)]
        else:
            out.append((k, v))
    return out


def snapshot(w):
    """Observable content of every object in the world (must never change)."""
    s = []
    for k, iso in isotherms_of(w):
        o = core.call(lambda: iso.iso_id)
        ent = [k, o.value if o.ok else o.brief(), repr(sorted(iso.units.items(), key=str)), repr(sorted(iso.properties.items(), key=str)),
               sig12(iso._temperature)]
        if hasattr(iso, 'data_raw'):
            ent.append(hashlib.md5(pandas.util.hash_pandas_object(iso.data_raw).values.tobytes()).hexdigest())
            ent.append(repr(list(iso.data_raw.columns)) + repr(list(iso.data_raw.index)))
        if hasattr(iso, 'model'):
            ent.append(vdigest(iso.model.to_dict()))
            ent.append(repr(getattr(iso.model, 'minus_rt', None)))
        ent.append(repr(sorted((a, repr(b)) for a, b in iso.adsorbate.properties.items())))
        ent.append(repr(sorted((a, repr(b)) for a, b in iso.material.properties.items())))
        s.append('|'.join(ent))
    import pygaps
    s.append(f'registries:{len(pygaps.ADSORBATE_LIST)},{len(pygaps.MATERIAL_LIST)}')
    return s


def private_state(w):
    parts = []
    for k, iso in isotherms_of(w):
        parts.append(k + '=' + deep({a: b for a, b in vars(iso).items() if a not in ('_adsorbate', '_material')}))
        parts.append(k + '.ads=' + deep(vars(iso.adsorbate)))
        parts.append(k + '.mat=' + deep(vars(iso.material)))
    parts += library_globals()
    return hashlib.md5('\n'.join(parts).encode()).hexdigest()


# ---------------------------------------------------------------------------
# the query alphabet

_KERNELS = {}


def user_kernels():
    """Two small user kernel files with the SAME file name in different folders (different pore widths)."""
    if 'paths' not in _KERNELS:
        from pygaps.data import KERNELS
        raw = pandas.read_csv(str(KERNELS['DFT-N2-77K-carbon-slit']), index_col=0)
        paths = []
        for i, cols in enumerate(([8, 20, 32, 44, 56], [12, 24, 36, 48, 60])):
            d = os.path.join(core.scratch(), f'c04-kernels-{i}')
            os.makedirs(d, exist_ok=True)
            f = os.path.join(d, 'carbon-slit.csv')
            raw[list(raw.columns[cols])].to_csv(f)
            paths.append(f)
        # a third kernel next to the first, under a name that differs from it in letter case only (two files on a case-sensitive file system)
        f = os.path.join(os.path.dirname(paths[0]), 'Carbon-Slit.csv')
        raw[list(raw.columns[[10, 22, 34, 46, 58, 66]])].to_csv(f)
        paths.append(f)
        _KERNELS['paths'] = paths
    return _KERNELS['paths']


def broken_kernel():
    if 'broken' not in _KERNELS:
        from pygaps.data import KERNELS
        raw = pandas.read_csv(str(KERNELS['DFT-N2-77K-carbon-slit']), index_col=0)
        sub = raw[list(raw.columns[[8, 20, 32, 44, 56, 68]])].astype(object)
        sub.iloc[7, 5] = '-'
        d = os.path.join(core.scratch(), 'c04-kernels-broken')
        os.makedirs(d, exist_ok=True)
        f = os.path.join(d, 'lab-kernel.csv')
        sub.to_csv(f)
        _KERNELS['broken'] = f
    return _KERNELS['broken']


def build_queries(tier):
    import pygaps.characterisation as pgc
    import pygaps.iast as pgi
    import pygaps.modelling as pgm
    Q = collections.OrderedDict()
    SUB = []   # cache-relevant sub-alphabet (Part B)

    def add(name, fn, sub=False):
        Q[name] = fn
        if sub:
            SUB.append(name)

    for br, pin, pout, lin in (('ads', 0.25, 0.95, 3.0), ('des', 0.25, 0.95, 3.0)):
        for kind in ('linear', 'slinear', 'cubic'):
            for fill in (None, 0.0, 'extrapolate'):
                if kind == 'slinear' and fill is not None:
                    continue
                add(f'loading_at[{br},{kind},{fill}]@in', lambda w, br=br, kind=kind, fill=fill: w['p'].loading_at(pin, branch=br, interpolation_type=kind, interp_fill=fill), True)
                add(f'loading_at[{br},{kind},{fill}]@out', lambda w, br=br, kind=kind, fill=fill: w['p'].loading_at(pout, branch=br, interpolation_type=kind, interp_fill=fill), True)
                add(f'pressure_at[{br},{kind},{fill}]@in', lambda w, br=br, kind=kind, fill=fill: w['p'].pressure_at(lin, branch=br, interpolation_type=kind, interp_fill=fill), True)
                add(f'pressure_at[{br},{kind},{fill}]@out', lambda w, br=br, kind=kind, fill=fill: w['p'].pressure_at(9.0, branch=br, interpolation_type=kind, interp_fill=fill), kind != 'slinear')
        for pq, tag in ((0.02, 'below'), (0.25, 'inside'), (0.9, 'edge'), (0.95, 'above')):
            for fill in (None, 4.1):
                add(f'spreading_pressure_at[{br},{fill}]@{tag}', lambda w, br=br, pq=pq, fill=fill: w['p'].spreading_pressure_at(pq, branch=br, interp_fill=fill), br == 'ads')
        add(f'pressure({br},kPa)', lambda w, br=br: w['p'].pressure(branch=br, pressure_unit='kPa'))
        add(f'loading({br},mass g)', lambda w, br=br: w['p'].loading(branch=br, loading_basis='mass', loading_unit='g'))
    add('loading_at(kPa in)', lambda w: w['p'].loading_at(25.0, pressure_unit='kPa'), True)
    add('loading_at(relative in, cm3 liquid out)', lambda w: w['p'].loading_at(0.25, pressure_mode='relative', loading_basis='volume_liquid', loading_unit='cm3'), True)
    add('pressure_at(relative out)', lambda w: w['p'].pressure_at(3.0, pressure_mode='relative'), True)
    add('spreading_pressure_at(kPa)', lambda w: w['p'].spreading_pressure_at(25.0, pressure_unit='kPa'), True)
    add('to_json', lambda w: w['p'].to_json())
    add('to_csv', lambda w: w['p'].to_csv())
    add('to_aif', lambda w: w['p'].to_aif())
    add('to_json(model)', lambda w: w['mT'].to_json())
    add('to_csv(model)', lambda w: w['mL'].to_csv())
    add('iso_id', lambda w: w['p'].iso_id, True)
    add('str', lambda w: str(w['p']) + repr(w['mL']))
    # adsorbate thermodynamics
    add('N2.saturation_pressure(77.355)', lambda w: w['p'].adsorbate.saturation_pressure(77.355), True)
    add('N2.saturation_pressure(90,bar)', lambda w: w['p'].adsorbate.saturation_pressure(90.0, unit='bar'), True)
    add('N2.gas_density(90)', lambda w: w['p'].adsorbate.gas_density(90.0), True)
    add('N2.liquid_density(77.355)', lambda w: w['p'].adsorbate.liquid_density(77.355), True)
    add('N2.liquid_molar_density(77.355)', lambda w: w['p'].adsorbate.liquid_molar_density(77.355), True)
    add('N2.surface_tension(77.355)', lambda w: w['p'].adsorbate.surface_tension(77.355), True)
    add('N2.enthalpy_vaporisation(T=77.355)', lambda w: w['p'].adsorbate.enthalpy_vaporisation(temp=77.355), True)
    add('N2.enthalpy_vaporisation(p=2e5)', lambda w: w['p'].adsorbate.enthalpy_vaporisation(press=2e5), True)
    add('N2.molar_mass', lambda w: w['p'].adsorbate.molar_mass(), True)
    add('N2.p_triple/critical', lambda w: (w['p'].adsorbate.p_triple(), w['p'].adsorbate.p_critical(), w['p'].adsorbate.t_critical()), True)
    # the optional `calculate` flag: stored value vs backend value are two different queries (either may be refused)
    for meth, args in (('p_triple', ()), ('t_triple', ()), ('p_critical', ()), ('t_critical', ()), ('molar_mass', ()), ('saturation_pressure', (77.355,)),
                       ('liquid_density', (77.355,)), ('surface_tension', (77.355,))):
        add(f'N2.{meth}(calculate=False)', lambda w, meth=meth, args=args: getattr(w['p'].adsorbate, meth)(*args, calculate=False), True)
        if f'N2.{meth}' not in ' '.join(Q) and meth in ('p_triple', 't_triple', 'p_critical', 't_critical'):
            add(f'N2.{meth}()', lambda w, meth=meth: getattr(w['p'].adsorbate, meth)(), True)
    add('convert-free unit read: loading(volume_liquid)', lambda w: w['p'].loading(loading_basis='volume_liquid', loading_unit='cm3'), True)
    add('pressure(relative)', lambda w: w['p'].pressure(pressure_mode='relative'), True)
    # the same queries on the isotherm whose adsorbate is another object of the same name
    add('lab adsorbate: pressure(relative)', lambda w: w['plab'].pressure(pressure_mode='relative'), True)
    add('lab adsorbate: loading_at(0.3 relative)', lambda w: w['plab'].loading_at(0.3, pressure_mode='relative'), True)
    add('lab adsorbate: area_BET', lambda w: pgc.area_BET(w['plab']), True)
    # model isotherm accessors
    add('mL.loading_at', lambda w: w['mL'].loading_at([0.1, 0.4]))
    add('mL.pressure_at(kPa)', lambda w: w['mL'].pressure_at(2.0, pressure_unit='kPa'))
    add('mT.spreading_pressure_at', lambda w: w['mT'].spreading_pressure_at(0.5), True)
    add('mT.spreading_pressure_at(0.2)', lambda w: w['mT'].spreading_pressure_at(0.2), True)
    add('mT.loading()', lambda w: w['mT'].loading(12))
    add('mL.pressure(rel)', lambda w: w['mL'].pressure(9, pressure_mode='relative'))
    # characterisation
    def strip(d, *keys):
        return {k: v for k, v in d.items() if k not in keys}
    add('area_BET', lambda w: pgc.area_BET(w['p']))
    add('area_BET(limits)', lambda w: pgc.area_BET(w['p'], p_limits=(0.04, 0.4)))
    add('area_langmuir', lambda w: pgc.area_langmuir(w['p']))
    add('t_plot', lambda w: strip(pgc.t_plot(w['p']), 't_curve'))
    add('t_plot(Halsey)', lambda w: pgc.t_plot(w['p'], thickness_model='Halsey')['t_curve'], True)
    add('t_plot(carbon black)', lambda w: pgc.t_plot(w['p'], thickness_model='carbon black Kruk/Jaroniec/Gadkaree')['t_curve'], True)
    add('t_plot(zeolite/des)', lambda w: pgc.t_plot(w['p'], branch='des', thickness_model='Harkins/Jura')['t_curve'])
    add('alpha_s', lambda w: strip(pgc.alpha_s(w['p'], w['ref']), 'alpha_curve'))
    add('alpha_s(des)', lambda w: pgc.alpha_s(w['p'], w['ref'], branch='des', t_limits=(0.3, 1.2))['alpha_curve'])
    add('dr_plot', lambda w: pgc.dr_plot(w['p']))
    add('da_plot', lambda w: pgc.da_plot(w['p'], exp=2.5))
    add('da_plot(search)', lambda w: pgc.da_plot(w['p']))
    for m in ('pygaps-DH', 'BJH', 'DH'):
        add(f'psd_mesoporous({m})', lambda w, m=m: pgc.psd_mesoporous(w['p'], psd_model=m, branch='des', pore_geometry='cylinder'))
    add('psd_mesoporous(ads,slit,Halsey)', lambda w: pgc.psd_mesoporous(w['p'], branch='ads', pore_geometry='slit', thickness_model='Halsey'))
    add('psd_microporous(HK)', lambda w: pgc.psd_microporous(w['p'], psd_model='HK', p_limits=(0, 0.6)))
    add('psd_microporous(HK-CY,cylinder)', lambda w: pgc.psd_microporous(w['p'], psd_model='HK-CY', pore_geometry='cylinder', p_limits=(0, 0.6), material_model='AlSiOxideIon'))
    add('initial_henry_slope', lambda w: pgc.initial_henry_slope(w['p']))
    add('initial_henry_virial', lambda w: pgc.initial_henry_virial(w['pch4']))
    add('whittaker(point)', lambda w: strip(pgc.enthalpy_sorption_whittaker(w['pco2'], model='Langmuir'), 'model_params'))
    add('whittaker(model)', lambda w: strip(pgc.enthalpy_sorption_whittaker(w['mLpa'], loading=[1.0, 2.0, 3.0]), 'model_params'), True)
    add('isosteric_enthalpy', lambda w: pgc.isosteric_enthalpy(w['Tset'], loading_points=[0.5, 1.0, 2.0]))
    add('isosteric_enthalpy(reversed)', lambda w: pgc.isosteric_enthalpy(w['Tset'][::-1], loading_points=[0.6, 1.5]))
    add('initial_enthalpy_point', lambda w: pgc.initial_enthalpy_point(w['cal'], 'enthalpy'))
    add('initial_enthalpy_comp', lambda w: strip(pgc.initial_enthalpy_comp(w['cal'], 'enthalpy'), 'bounds', 'initial_guess'))
    # fitting
    add('model_iso(Langmuir)', lambda w: pgm.model_iso(w['p'], model='Langmuir'), True)
    add('model_iso(Langmuir, tight bounds)', lambda w: pgm.model_iso(w['p'], model='Langmuir', param_bounds={'K': (0.1, 2.0), 'n_m': (0.5, 3.0)}), True)
    add('model_iso(Toth,des)', lambda w: pgm.model_iso(w['p'], model='Toth', branch='des'))
    add('model_iso(DR)', lambda w: pgm.model_iso(w['p'], model='DR'))
    add('model_iso([Henry,Langmuir,Toth])', lambda w: pgm.model_iso(w['p'], model=['Henry', 'Langmuir', 'Toth']))
    # automatic model selection: on an absolute-pressure and on a relative-pressure isotherm (the candidate list is global state)
    add("model_iso(guess) on absolute pressure", lambda w: pgm.model_iso(w['p'], model='guess'))
    add("model_iso(guess) on relative pressure", lambda w: pgm.model_iso(w['pdr'], model='guess'))
    add("ModelIsotherm.guess(relative, DR/DA/Langmuir)", lambda w: __import__('pygaps').ModelIsotherm.guess(
        pressure=w['pdr'].pressure(), loading=w['pdr'].loading(), models=['DR', 'DA', 'Langmuir'], material='c04-M', adsorbate='N2', temperature=77.355,
        **dict(pressure_mode='relative', loading_basis='molar', loading_unit='mmol', material_basis='mass', material_unit='g')))
    add('from_modelisotherm', lambda w: __import__('pygaps').PointIsotherm.from_modelisotherm(w['mL'], pressure_points=[0.1, 0.2, 0.4]))
    # IAST
    add('iast_point(models)', lambda w: pgi.iast_point([w['mL'], w['mT']], [0.2, 0.3]), True)
    add('iast_point(points)', lambda w: pgi.iast_point([w['pco2'], w['pch4']], [0.3, 1.2]), True)
    add('iast_point(points, other)', lambda w: pgi.iast_point([w['pco2'], w['pch4']], [0.2, 1.0]), True)
    add('iast_point_fraction', lambda w: pgi.iast_point_fraction([w['mL'], w['mT']], [0.4, 0.6], 0.5))
    add('reverse_iast', lambda w: pgi.reverse_iast([w['mL'], w['mT']], [0.5, 0.5], 0.6))
    add('iast_binary_svp', lambda w: pgi.iast_binary_svp([w['mL'], w['mT']], [0.5, 0.5], [0.2, 0.4, 0.8]))
    add('iast_binary_vle', lambda w: pgi.iast_binary_vle([w['mL'], w['mL2']], 0.5, npoints=4))
    # kernels given by path: two files with the same name are two kernels
    add('psd_dft(user kernel A)', lambda w: pgc.psd_dft(w['p'], kernel=user_kernels()[0], branch='ads', p_limits=(0.06, 0.85), bspline_order=0), True)
    add('psd_dft(user kernel B, same file name)', lambda w: pgc.psd_dft(w['p'], kernel=user_kernels()[1], branch='ads', p_limits=(0.06, 0.85), bspline_order=0), True)
    add('psd_dft(user kernel C, name differing from A in letter case)', lambda w: pgc.psd_dft(w['p'], kernel=user_kernels()[2], branch='ads', p_limits=(0.06, 0.85), bspline_order=0), True)
    # a kernel file that cannot be loaded (a bad cell in its last column): refused, and refused again
    add('ERR psd_dft(unloadable user kernel)', lambda w: pgc.psd_dft(w['p'], kernel=broken_kernel(), branch='ads', p_limits=(0.06, 0.85), bspline_order=0), True)
    # error paths: a query that is refused (possibly after it started working) must leave everything untouched as well
    add('ERR whittaker(point, unknown model)', lambda w: pgc.enthalpy_sorption_whittaker(w['pco2'], model='Tooth'))
    add('ERR whittaker(point, Henry)', lambda w: pgc.enthalpy_sorption_whittaker(w['pco2'], model='Henry'))
    add('ERR whittaker(model in bar)', lambda w: pgc.enthalpy_sorption_whittaker(w['mL2'], loading=[1.0]))
    add('ERR model_iso(unknown model)', lambda w: pgm.model_iso(w['p'], model='NoSuchModel'))
    add('ERR model_iso(unknown in list)', lambda w: pgm.model_iso(w['p'], model=['Henry', 'NoSuchModel']))
    add('ERR model_iso(bad bounds)', lambda w: pgm.model_iso(w['p'], model='Langmuir', param_bounds={'K': (5.0, 1.0), 'n_m': (0.5, 3.0)}))
    add('ERR area_BET(empty window)', lambda w: pgc.area_BET(w['p'], p_limits=(0.41, 0.42)))
    add('ERR area_langmuir(empty window)', lambda w: pgc.area_langmuir(w['p'], p_limits=(0.41, 0.42)))
    add('ERR t_plot(unknown thickness model)', lambda w: pgc.t_plot(w['p'], thickness_model='nope'))
    add('ERR alpha_s(bad reducing pressure)', lambda w: pgc.alpha_s(w['p'], w['ref'], reducing_pressure=5.0))
    add('ERR alpha_s(unknown reference area)', lambda w: pgc.alpha_s(w['p'], w['ref'], reference_area='nope'))
    add('ERR psd_mesoporous(unknown model)', lambda w: pgc.psd_mesoporous(w['p'], psd_model='nope'))
    add('ERR psd_mesoporous(unknown geometry)', lambda w: pgc.psd_mesoporous(w['p'], pore_geometry='nope'))
    add('ERR psd_microporous(unknown material)', lambda w: pgc.psd_microporous(w['p'], psd_model='HK', material_model='nope'))
    add('ERR psd_dft(no kernel file)', lambda w: pgc.psd_dft(w['p'], kernel='/nonexistent/kernel.csv'))
    add('ERR isosteric_enthalpy(points outside)', lambda w: pgc.isosteric_enthalpy(w['Tset'], loading_points=[0.5, 50.0]))
    add('ERR isosteric_enthalpy(one isotherm)', lambda w: pgc.isosteric_enthalpy(w['Tset'][:1], loading_points=[0.5]))
    add('ERR initial_enthalpy_point(no such column)', lambda w: pgc.initial_enthalpy_point(w['cal'], 'nokey'))
    add('ERR iast_point(wrong length)', lambda w: pgi.iast_point([w['pco2'], w['pch4']], [0.3, 1.2, 0.5]))
    add('ERR iast_point(points, outside range)', lambda w: pgi.iast_point([w['pco2'], w['pch4']], [30.0, 120.0]))
    add('ERR loading_at(unknown unit)', lambda w: w['p'].loading_at(0.25, loading_unit='bogus'))
    add('ERR pressure(unknown unit)', lambda w: w['p'].pressure(pressure_unit='bogus'))
    add('ERR loading(fraction, no material basis)', lambda w: w['p'].loading(loading_basis='fraction', material_basis='bogus'))
    add('ERR spreading_pressure_at(unknown mode)', lambda w: w['p'].spreading_pressure_at(0.25, pressure_mode='bogus'))
    add('ERR to_xl(unwritable path)', lambda w: w['p'].to_xl('/nonexistent/dir/x.xls'))
    heavy = collections.OrderedDict()
    heavy['psd_dft'] = lambda w: pgc.psd_dft(w['p'], branch='ads', p_limits=(0.06, 0.85))
    heavy['psd_microporous(RY,sphere)'] = lambda w: pgc.psd_microporous(w['p'], psd_model='RY', pore_geometry='sphere', p_limits=(0, 0.4))
    return Q, SUB, heavy


_Q = {}


def queries(tier):
    if tier not in _Q:
        _Q[tier] = build_queries(tier)
    return _Q[tier]


# ---------------------------------------------------------------------------
# Part A: all ordered pairs

def work_pairs(arg):
    tier, first, names2, base, base_snap = arg
    Q, SUB, heavy = queries(tier)
    allq = dict(Q)
    allq.update(heavy)
    out = {'ev': 0, 'viol': [], 'impure': [], 'rewritten': []}
    for second in names2:
        w = fresh_world()
        o1, raw1 = outcome(allq[first], w)
        s1 = snapshot(w)
        if s1 != base_snap:
            out['impure'].append((first, [a for a, b in zip(s1, base_snap) if a != b][:2], [b for a, b in zip(s1, base_snap) if a != b][:2]))
            break      # an impure query is reported once; outcomes after it are not meaningful
        o2, raw2 = outcome(allq[second], w)
        out['ev'] += 1
        if o2 != base[second][0]:
            out['viol'].append((first, second, base[second][1], raw2.brief()))
        # the result of the first query belongs to the caller: the second query has not written into it
        if raw1.ok and o1.startswith('val:'):
            again = core.call(lambda: 'val:' + hashlib.md5(vdigest(raw1.value).encode()).hexdigest()[:16])
            if not again.ok or again.value != o1:
                out['rewritten'].append((first, second))
    return out


def qclass(name):
    return name.split('[')[0].split('(')[0].split('@')[0]


def ut_pair(first, second):
    return None


# ---------------------------------------------------------------------------
# Part B: BFS over private states

def expand_factory(tier, base, base_snap, subnames):
    Q, SUB, heavy = queries(tier)

    def expand(snap):
        hist = snap[0]
        out = {'succ': [], 'transitions': 0, 'viol': [], 'outcomes': collections.Counter()}
        for q in subnames:
            w = fresh_world()
            for h in hist:
                outcome(Q[h], w)
            o, raw = outcome(Q[q], w)
            out['transitions'] += 1
            out['outcomes'][(qclass(q), o.split(':')[0])] += 1
            if o != base[q][0]:
                out['viol'].append(core.make_violation(
                    {'check': 'history-dependent-outcome', 'query': qclass(q), 'after': sorted({qclass(h) for h in hist})[-1] if hist else None},
                    f'{q} after {list(hist)}: {raw.brief()} but as first call on a fresh isotherm: {base[q][1]}',
                    {'history': list(hist), 'query': q}, base[q][1], raw.brief()))
                continue
            if snapshot(w) != base_snap:
                continue     # impurity is reported by part A
            out['succ'].append((q, (hist + (q,), private_state(w))))
        return out
    return expand


def run(ctx):
    tier = ctx.tier
    Q, SUB, heavy = queries(tier)
    allq = dict(Q)
    allq.update(heavy)
    names = list(Q)
    # baseline: every query first on a fresh world (+ purity of single calls)
    w0 = fresh_world()
    base_snap = snapshot(w0)
    base = {}
    single_impure = []
    for n in list(allq):
        w = fresh_world()
        o, raw = outcome(allq[n], w)
        base[n] = (o, raw.brief())
        s = snapshot(w)
        if s != base_snap:
            diff = [(a, b) for a, b in zip(s, base_snap) if a != b][:1]
            single_impure.append(n)
            ctx.violate(core.make_violation({'check': 'impure-query', 'query': qclass(n)},
                                            f'{n} changes the observable content of an object passed to it: {str(diff)[:500]}',
                                            {'query': n}, None, diff))
    # determinism of the harness: the baseline twice
    for n in names[:40]:
        w = fresh_world()
        o, raw = outcome(allq[n], w)
        if o != base[n][0]:
            raise core.HarnessError(f'query {n} is not reproducible on identical fresh worlds: {base[n][1]} vs {raw.brief()}')
    kinds = collections.Counter(v[0].split(':')[0] + (':' + v[0].split(':')[1] if v[0].startswith('err') else '') for v in base.values())
    ctx.cov['baseline_outcome_kinds'] = dict(kinds)
    pure_names = [n for n in names if n not in single_impure]
    heavy_names = [n for n in heavy if n not in single_impure]
    # Part A: ordered pairs.  quick: SUB x SUB plus (each query as first) x a probe set; thorough: all x all (+ heavy once each side)
    probe = [n for n in ('loading_at[ads,linear,None]@in', 'loading_at[ads,linear,None]@out', 'pressure_at[ads,linear,None]@in',
                         'spreading_pressure_at[ads,None]@below', 'spreading_pressure_at[ads,None]@above', 'N2.liquid_density(77.355)',
                         'N2.saturation_pressure(77.355)', 'model_iso(Langmuir)', 'iast_point(points)', 'iso_id', 'area_BET',
                         't_plot(Halsey)', 'mT.spreading_pressure_at', 'pressure(relative)', 'psd_mesoporous(BJH)', 'to_json',
                         'convert-free unit read: loading(volume_liquid)', 'whittaker(model)', 'psd_dft(user kernel A)') if n in pure_names]
    jobs = []
    if ctx.quick:
        sub = [n for n in SUB if n in pure_names]
        slow = [n for n in pure_names if n.startswith(('model_iso(guess)', 'ModelIsotherm.guess'))]       # seconds per call: paired among themselves
        for a in pure_names:
            seconds = sub if a in sub else [n for n in probe if n not in slow]
            if a in slow:
                seconds = slow + ['model_iso(Langmuir)', 'iso_id']
            jobs.append((tier, a, [n for n in seconds if n in pure_names], base, base_snap))
    else:
        # thorough: every query as first x every fast query as second; the slow ones (seconds per call: automatic model selection, kernel fit,
        # RY sphere) as second after every query of the cache-relevant sub-alphabet, the probes and each other
        slow = [n for n in pure_names if n.startswith(('model_iso(guess)', 'ModelIsotherm.guess'))] + heavy_names
        fast = [n for n in pure_names if n not in slow]
        close = set(n for n in SUB if n in pure_names) | set(probe) | set(slow)
        for a in pure_names + heavy_names:
            jobs.append((tier, a, fast + ([n for n in slow if n != a or a not in heavy_names] if a in close else []), base, base_snap))
    res = core.pmap(work_pairs, jobs, chunk=1)
    npairs = 0
    for r in res:
        npairs += r['ev']
        for first, second, want, got in r['viol']:
            ctx.violate(core.make_violation(
                {'check': 'history-dependent-outcome', 'query': qclass(second), 'after': qclass(first)},
                f'{second} after {first}: {got} but as first call on a fresh isotherm: {want}',
                {'history': [first], 'query': second}, want, got))
        for first, second in r.get('rewritten', []):
            ctx.violate(core.make_violation({'check': 'earlier-result-rewritten', 'query': qclass(first), 'by': qclass(second)},
                                            f'the result returned by {first} was rewritten by the later query {second}', {'history': [first], 'query': second}))
        for first, a, b in r['impure']:
            ctx.violate(core.make_violation({'check': 'impure-query', 'query': qclass(first)},
                                            f'{first} changes the observable content of an object passed to it', {'query': first}, b, a))
    ctx.add('ordered_pairs', npairs, npairs)
    # Part B: BFS over private states with the cache-relevant sub-alphabet
    sub = [n for n in SUB if n in pure_names]
    if ctx.quick:
        sub = [n for n in sub if 'slinear' not in n and '[des' not in n and 'extrapolate' not in n]
    w = fresh_world()
    init = ((), private_state(w))
    res = engine_states.explore([init], expand_factory(tier, base, base_snap, sub), lambda s: s[1], max_depth=4 if not ctx.quick else 3)
    ctx.violate(res.violations)
    ctx.cov.update(states=res.states, transitions=res.transitions, traces_validated_against_impl=res.transitions + npairs,
                   max_depth=res.max_depth, level_sizes=res.level_sizes, alphabet=len(allq), sub_alphabet=len(sub), exhaustive=True)
    ctx.cov['evaluations'] = res.transitions + npairs + len(allq)
    ctx.cov['distinct_nontrivial'] = res.states + npairs
    ctx.cov['rule'] = ('Part A: ordered pairs (q1, q2) of the query alphabet on freshly built objects (quick: cache-relevant sub-alphabet squared + every '
                       'query x 18 probe queries; thorough: all x all fast queries, the slow ones - automatic model selection, psd_dft, RY-sphere - after the sub-alphabet, the probes and each other); Part B: BFS to depth 4 (quick: depth 3) over the '
                       'private state of all objects (generic deep digest incl. interpolators, CoolProp state, module caches, lru_caches, class-level '
                       'containers) under the sub-alphabet. Oracle: outcome digest (12 significant digits / exception kind) equals the first-call '
                       'outcome; observable snapshot of every object unchanged.')
    if not ctx.violations:
        ctx.require('cache_states', res.states, 20)
        ctx.require('ordered_pairs', npairs, 1500)
    deep_keys = sorted(res.depth, key=lambda k: -res.depth[k])[:2]
    for k in deep_keys:
        ctx.sample({'history_to_a_deepest_private_state': res.history(k)})
    ctx.sample({'pair': ['loading_at[ads,linear,0.0]@out', 'spreading_pressure_at[ads,None]@below']})
    ctx.assumptions += ['the alphabet is a fixed list of calls (arguments not in it are not covered)',
                        'private state is observed generically through instance __dict__, module-level private containers, function caches and model-class attributes; state hidden in C extensions other than the CoolProp AbstractState (T,Q,p) is not seen by part B (part A does not depend on it)']
