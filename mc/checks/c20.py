"""C20 — shipped adsorbates resolve uniquely; their thermodynamic data are consistent (DESIGN §4 C20; engine E2, exhaustive over the registry).

All shipped adsorbates x name and every alias x 4 case variants; both sources (adsorbates.json, packaged default.db); isotherm
linkage, also across a registry replacement.  Backend-linked adsorbates x temperature lattice x pressure units: density identity,
p_triple <= p_sat <= p_crit, monotone p_sat, positive enthalpy, unit argument, each against CoolProp's high-level API; ordered pairs of
property calls (the shared thermodynamic state must not leak).  Fallback alphabet for adsorbates without a usable backend.
"""
import itertools
import json
import os
import shutil
import sqlite3

import numpy

from mc import core
from mc import ref_units as ru

LEVEL = 'exploration'

PROP_METHODS = ['saturation_pressure', 'surface_tension', 'liquid_density', 'liquid_molar_density', 'gas_density', 'gas_molar_density', 'enthalpy_vaporisation']
STATIC_METHODS = ['molar_mass', 'p_triple', 't_triple', 'p_critical', 't_critical']


def variants(s):
    return {s, s.lower(), s.upper(), s.title(), s.swapcase()}


def check_registry(ctx):
    import pygaps
    from pygaps.core.baseisotherm import BaseIsotherm
    ev = nt = 0
    ads = list(pygaps.ADSORBATE_LIST)
    ctx.cov['shipped_adsorbates'] = len(ads)
    owner = {}
    for a in ads:
        for al in set(a.alias) | {a.name.lower()}:
            owner.setdefault(al, []).append(a.name)
    for al, names in owner.items():
        ev += 1
        if len(set(names)) > 1:
            ctx.violate(core.make_violation({'check': 'alias-not-unique', 'alias': al}, f'the name/alias {al!r} designates several shipped adsorbates: {sorted(set(names))}',
                                            {'alias': al}, 'one adsorbate', sorted(set(names)),
                                            unit_test=("import logging, pygaps\npygaps.logger.setLevel(logging.CRITICAL)\n"
                                                       f"owners = [a.name for a in pygaps.ADSORBATE_LIST if {al!r} in a.alias]\nprint(owners)\nassert len(owners) == 1\n")))
    names = [a.name for a in ads]
    if len(names) != len(set(names)):
        ctx.violate(core.make_violation({'check': 'duplicate-name'}, f'duplicate adsorbate names: {[n for n in names if names.count(n) > 1][:5]}', {}))
    for a in ads:
        for al in set(a.alias) | {a.name}:
            for v in variants(al):
                o = core.call(pygaps.Adsorbate.find, v)
                ev += 1
                nt += 1
                if len(set(owner.get(al.lower(), []))) > 1:
                    continue      # reported once as alias-not-unique
                if not o.ok or o.value is not a:
                    ctx.violate(core.make_violation({'check': 'find-wrong', 'kind': 'raises' if not o.ok else 'other-adsorbate'},
                                                    f'Adsorbate.find({v!r}) -> {o.value.name if o.ok else o.brief()} instead of {a.name}', {'query': v}, a.name,
                                                    o.value.name if o.ok else o.brief()))
        # isotherm linkage by name and by first alias
        for s in {a.name, a.alias[0], a.name.upper()}:
            if len(set(owner.get(s.lower(), []))) > 1:
                continue
            o = core.call(BaseIsotherm, material='c20', adsorbate=s, temperature=300.0)
            ev += 1
            nt += 1
            if not o.ok or o.value.adsorbate is not a:
                ctx.violate(core.make_violation({'check': 'isotherm-not-linked'}, f'BaseIsotherm(adsorbate={s!r}) is linked to {o.value.adsorbate if o.ok else o.brief()} instead of the shipped {a.name}', {'string': s}))
    ctx.add('registry', ev, nt)


def check_sources(ctx):
    """adsorbates.json and the packaged default.db must describe the same registry."""
    import importlib.resources as ir
    import pygaps
    ev = 0
    js = json.loads((ir.files('pygaps.data') / 'adsorbates.json').read_text(encoding='utf8'))
    con = sqlite3.connect(str(pygaps.DATABASE))
    db = {}
    for aid, name in con.execute('select id, name from adsorbates'):
        props = {}
        for t, v in con.execute('select type, value from adsorbate_properties where ads_id=?', (aid,)):
            props.setdefault(t, []).append(v)
        db[name] = props
    con.close()
    jn = {d['name']: d for d in js}
    if set(jn) != set(db):
        ctx.violate(core.make_violation({'check': 'sources-differ', 'kind': 'names'}, f'adsorbates.json and default.db list different adsorbates: {sorted(set(jn) ^ set(db))[:6]}', {}))
    for n in sorted(set(jn) & set(db)):
        ev += 1
        ja = {x.lower() for x in jn[n].get('alias', [])} | {n.lower()}
        da = {x.lower() for x in db[n].get('alias', [])} | {n.lower()}
        if ja != da:
            ctx.violate(core.make_violation({'check': 'sources-differ', 'kind': 'alias'}, f'{n}: aliases differ between adsorbates.json and default.db: {sorted(ja ^ da)}', {'adsorbate': n}))
        for k, v in jn[n].items():
            if k in ('name', 'alias'):
                continue
            dv = db[n].get(k, [])
            jv = list(v) if isinstance(v, (list, tuple)) else [v]

            def eq(x, y):
                return x == y or (isinstance(x, (int, float)) and isinstance(y, (int, float)) and abs(x - y) <= 1e-9 * abs(x))
            same = len(jv) == len(dv) and all(any(eq(x, y) for y in dv) for x in jv)
            if not same:
                ctx.violate(core.make_violation({'check': 'sources-differ', 'kind': 'property'}, f'{n}.{k}: json {v!r} vs db {dv!r}', {'adsorbate': n, 'property': k}))
    ctx.add('sources', ev, ev)


def ref_props(backend, T):
    import CoolProp.CoolProp as CPP
    P = CPP.PropsSI
    r = {}
    r['saturation_pressure'] = P('P', 'T', T, 'Q', 0, backend)
    r['liquid_density'] = P('Dmass', 'T', T, 'Q', 0, backend) / 1000
    r['gas_density'] = P('Dmass', 'T', T, 'Q', 1, backend) / 1000
    r['liquid_molar_density'] = P('Dmolar', 'T', T, 'Q', 0, backend) / 1e6
    r['gas_molar_density'] = P('Dmolar', 'T', T, 'Q', 1, backend) / 1e6
    r['enthalpy_vaporisation'] = (P('Hmolar', 'T', T, 'Q', 1, backend) - P('Hmolar', 'T', T, 'Q', 0, backend)) / 1000
    try:
        r['surface_tension'] = P('I', 'T', T, 'Q', 0, backend) * 1000
    except Exception:
        r['surface_tension'] = None
    return r


def work_thermo(arg):
    import pygaps
    name, fracs = arg
    out = {'ev': 0, 'nt': 0, 'viol': [], 'skipped': 0, 'worst': 0.0}
    a = pygaps.Adsorbate.find(name)
    backend = a.backend_name
    seen = set()

    def v(check, what, exp=None, obs=None, extra=None):
        sig = {'check': check}
        if extra:
            sig.update(extra)
        k = core.sig_key(sig) + name
        if k in seen:
            return
        seen.add(k)
        out['viol'].append(core.make_violation(sig, f'{name}: {what}', {'adsorbate': name}, exp, obs))

    try:
        import CoolProp.CoolProp as CPP
        tt, tc = CPP.PropsSI('Ttriple', backend), CPP.PropsSI('Tcrit', backend)
        M = CPP.PropsSI('M', backend) * 1000
        pt, pc = CPP.PropsSI('ptriple', backend), CPP.PropsSI('pcrit', backend)
    except Exception:
        out['skipped'] += 1
        return out
    for meth, ref in (('t_triple', tt), ('t_critical', tc), ('molar_mass', M), ('p_triple', pt), ('p_critical', pc)):
        o = core.call(getattr(a, meth))
        out['ev'] += 1
        if not o.ok or abs(o.value - ref) > 1e-9 * abs(ref):
            v('static-property', f'{meth}() = {o.value if o.ok else o.brief()} but CoolProp gives {ref}', ref, o.value if o.ok else o.brief(), {'method': meth})
    # the environment of the numerical libraries: with warnings turned into errors (python -W error, pytest) and floating-point errors raised
    # (numpy.seterr(all='raise')) a getter returns what it returns by default - or raises; it does not silently return something else
    import warnings
    T_env = tt + 0.5 * (tc - tt)
    for meth, args in (('t_triple', ()), ('t_critical', ()), ('molar_mass', ()), ('p_triple', ()), ('p_critical', ()), ('saturation_pressure', (T_env,)),
                       ('liquid_density', (T_env,)), ('gas_density', (T_env,)), ('surface_tension', (T_env,)), ('enthalpy_vaporisation', (T_env,))):
        dflt = core.call(getattr(a, meth), *args)
        for env_name in ('warnings as errors', 'numpy errors raised'):
            # (called directly: core.call silences warnings around the call)
            with warnings.catch_warnings():
                try:
                    if env_name == 'warnings as errors':
                        warnings.simplefilter('error')
                        strict = getattr(a, meth)(*args)
                    else:
                        with numpy.errstate(all='raise'):
                            strict = getattr(a, meth)(*args)
                except Exception:       # noqa  (raising in a strict environment is that environment's doing)
                    strict = None
            out['ev'] += 1
            out['nt'] += 1
            if dflt.ok and strict is not None and strict != dflt.value:
                v('environment-dependent-value', f'{meth}{args} = {strict!r} with {env_name}, {dflt.value!r} by default', dflt.value, strict, {'method': meth, 'environment': env_name})
    prev = None
    for f in fracs:
        T = tt + f * (tc - tt)
        try:
            ref = ref_props(backend, T)
        except Exception:
            out['skipped'] += 1
            continue
        if not all(numpy.isfinite([x for x in ref.values() if x is not None])):
            out['skipped'] += 1
            continue
        got = {}
        for meth in PROP_METHODS:
            if ref[meth] is None:
                continue
            o = core.call(getattr(a, meth), T)
            out['ev'] += 1
            if not o.ok:
                v('property-raises', f'{meth}({T:.3f}) {o.brief()}', ref[meth], o.brief(), {'method': meth})
                continue
            got[meth] = float(o.value)
            e = abs(got[meth] - ref[meth]) / abs(ref[meth])
            out['worst'] = max(out['worst'], e)
            out['nt'] += 1
            if e > 1e-9:
                v('property-vs-coolprop', f'{meth}({T:.3f}) = {got[meth]!r} but CoolProp PropsSI gives {ref[meth]!r}', ref[meth], got[meth], {'method': meth})
        if len(got) >= 6:
            if abs(got['liquid_density'] - got['liquid_molar_density'] * M) > 1e-9 * got['liquid_density']:
                v('density-identity', f'liquid mass density {got["liquid_density"]} != molar density x M = {got["liquid_molar_density"] * M} at {T:.3f} K', None, None, {'phase': 'liquid'})
            if abs(got['gas_density'] - got['gas_molar_density'] * M) > 1e-9 * got['gas_density']:
                v('density-identity', f'vapour mass density {got["gas_density"]} != molar density x M at {T:.3f} K', None, None, {'phase': 'vapour'})
            ps = got['saturation_pressure']
            if not (pt * (1 - 1e-6) <= ps <= pc * (1 + 1e-6)):
                v('psat-range', f'p_sat({T:.3f}) = {ps} outside [p_triple {pt}, p_critical {pc}]')
            if prev is not None and not ps > prev:
                v('psat-monotone', f'p_sat does not rise with temperature at {T:.3f} K')
            prev = ps
            if not got['enthalpy_vaporisation'] > 0:
                v('enthalpy-sign', f'enthalpy of vaporisation {got["enthalpy_vaporisation"]} at {T:.3f} K')
            for unit, fac in ru.P_UNITS.items():
                o = core.call(a.saturation_pressure, T, unit=unit)
                out['ev'] += 1
                out['nt'] += 1
                if not o.ok or abs(o.value * fac - ps) > 1e-3 * ps:
                    v('unit-argument', f'saturation_pressure({T:.3f}, unit={unit!r}) = {o.value if o.ok else o.brief()} (p_sat = {ps} Pa)', ps / fac, o.value if o.ok else o.brief(), {'unit': unit})
                # the alias methods answer exactly like the methods they stand for, whatever the argument form
                if o.ok:
                    for form, call_ in (('positional', lambda: a.pressure_saturation(T, unit)), ('keyword', lambda: a.pressure_saturation(temp=T, unit=unit)),
                                        ('positional, calculate=True', lambda: a.pressure_saturation(T, unit, True))):
                        oa = core.call(call_)
                        out['ev'] += 1
                        out['nt'] += 1
                        if not oa.ok or oa.value != o.value:
                            v('alias-method', f'pressure_saturation({T:.3f}, unit={unit!r}) [{form}] = {oa.value if oa.ok else oa.brief()} but saturation_pressure gives {o.value}',
                              o.value, oa.value if oa.ok else oa.brief(), {'alias': 'pressure_saturation'})
            hv = core.call(a.enthalpy_vaporisation, T)
            for form, call_ in (('temp positional', lambda: a.enthalpy_liquefaction(T)), ('temp keyword', lambda: a.enthalpy_liquefaction(temp=T)),
                                ('press keyword', lambda: a.enthalpy_liquefaction(press=ps)), ('vaporisation, press keyword', lambda: a.enthalpy_vaporisation(press=ps)),
                                ('vaporisation, positional temp and press None', lambda: a.enthalpy_vaporisation(T, None, True))):
                oa = core.call(call_)
                out['ev'] += 1
                out['nt'] += 1
                tol_ = 1e-6 if 'press' in form and 'None' not in form else 0.0
                if hv.ok and (not oa.ok or abs(oa.value - hv.value) > tol_ * abs(hv.value)):
                    v('alias-method', f'enthalpy_liquefaction/vaporisation [{form}] at {T:.3f} K = {oa.value if oa.ok else oa.brief()} but enthalpy_vaporisation({T:.3f}) gives {hv.value}',
                      hv.value, oa.value if oa.ok else oa.brief(), {'alias': 'enthalpy'})
    # ordered pairs of property calls at one temperature: the shared thermodynamic state must not leak between calls
    T = tt + 0.5 * (tc - tt)
    T2 = tt + 0.8 * (tc - tt)
    try:
        ref, ref2 = ref_props(backend, T), ref_props(backend, T2)
        pmid = ref['saturation_pressure']
        import CoolProp.CoolProp as CPP
        hp = (CPP.PropsSI('Hmolar', 'P', pmid * 0.7, 'Q', 1, backend) - CPP.PropsSI('Hmolar', 'P', pmid * 0.7, 'Q', 0, backend)) / 1000
    except Exception:
        return out
    calls = [(m, (lambda m=m: getattr(a, m)(T)), ref[m]) for m in PROP_METHODS if ref[m] is not None]
    calls.append(('enthalpy_vaporisation(press)', lambda: a.enthalpy_vaporisation(press=pmid * 0.7), hp))
    calls.append(('saturation_pressure(T2)', lambda: a.saturation_pressure(T2), ref2['saturation_pressure']))
    calls.append(('gas_density(T2)', lambda: a.gas_density(T2), ref2['gas_density']))
    # all histories of length 2 and 3: after any one or two earlier calls every call must still give the CoolProp value
    for hist in list(itertools.product(calls, repeat=2)) + list(itertools.product(calls, repeat=3)):
        for attr in [k for k in vars(a) if k not in ('name', 'alias', 'properties', '_state', '_backend_mode')]:
            delattr(a, attr)
        a._state = None
        a._backend_mode = None
        for (n1, f1, r1) in hist[:-1]:
            core.call(f1)
        n2, f2, r2 = hist[-1]
        o = core.call(f2)
        out['ev'] += 1
        out['nt'] += 1
        if not o.ok or abs(float(o.value) - r2) > 1e-9 * abs(r2):
            v('property-depends-on-previous-call', f'{n2} after {[h[0] for h in hist[:-1]]} = {o.value if o.ok else o.brief()} but CoolProp gives {r2}', r2,
              o.value if o.ok else o.brief(), {'last': n2.split('(')[0]})
    return out


def check_fallback(ctx):
    """No usable backend: the user-supplied property is returned (documented unit conversions), otherwise CalculationError."""
    import pygaps
    ev = nt = 0
    supplied = {'molar_mass': 44.0, 'p_triple': 5.2, 't_triple': 216.0, 'p_critical': 73.8, 't_critical': 304.0, 'saturation_pressure': 6.0e6,
                'surface_tension': 4.5, 'liquid_density': 0.77, 'liquid_molar_density': 0.0175, 'gas_density': 0.19, 'gas_molar_density': 0.0043,
                'enthalpy_liquefaction': 10.3}
    kinds = {
        'no backend, no properties': lambda: pygaps.Adsorbate('c20-a'),
        'no backend, all properties': lambda: pygaps.Adsorbate('c20-b', **supplied),
        'bogus backend, all properties': lambda: pygaps.Adsorbate('c20-c', backend_name='NOT_A_FLUID', **supplied),
        'bogus backend, no properties': lambda: pygaps.Adsorbate('c20-d', backend_name='NOT_A_FLUID'),
    }
    meths = [('molar_mass', (), 'molar_mass', 1), ('p_triple', (), 'p_triple', 1e5), ('t_triple', (), 't_triple', 1), ('p_critical', (), 'p_critical', 1e5),
             ('t_critical', (), 't_critical', 1), ('saturation_pressure', (250.0,), 'saturation_pressure', 1), ('surface_tension', (250.0,), 'surface_tension', 1),
             ('liquid_density', (250.0,), 'liquid_density', 1), ('liquid_molar_density', (250.0,), 'liquid_molar_density', 1), ('gas_density', (250.0,), 'gas_density', 1),
             ('gas_molar_density', (250.0,), 'gas_molar_density', 1), ('enthalpy_vaporisation', (250.0,), 'enthalpy_liquefaction', 1),
             ('enthalpy_liquefaction', (250.0,), 'enthalpy_liquefaction', 1)]
    for kname, mk in kinds.items():
        has = 'all properties' in kname
        for meth, args, key, fac in meths:
            for calc in (True, False):
                a = mk()
                o = core.call(getattr(a, meth), *args, calculate=calc)
                ev += 1
                nt += 1
                if has:
                    exp = supplied[key] * fac
                    if not o.ok or abs(o.value - exp) > 1e-12 * abs(exp):
                        ctx.violate(core.make_violation({'check': 'fallback-value', 'method': meth}, f'[{kname}] {meth}(calculate={calc}) = {o.value if o.ok else o.brief()} instead of the supplied {exp}',
                                                        {'kind': kname, 'method': meth}, exp, o.value if o.ok else o.brief()))
                else:
                    if o.ok or o.kind != 'CalculationError':
                        ctx.violate(core.make_violation({'check': 'fallback-not-refused', 'method': meth, 'outcome': 'returned' if o.ok else o.kind},
                                                        f'[{kname}] {meth}(calculate={calc}) {o.brief()} instead of CalculationError', {'kind': kname, 'method': meth}))
    # the unit argument is honoured on the fallback path too (all 8 units; stored value is in Pa)
    from mc import ref_units as ru
    mk_super = lambda: pygaps.Adsorbate('c20-e', backend_name='Nitrogen', saturation_pressure=6.0e6)     # noqa: E731  (queried above its critical point)
    for kname, mk, T in (('no backend, all properties', kinds['no backend, all properties'], 250.0), ('bogus backend, all properties', kinds['bogus backend, all properties'], 250.0),
                         ('backend above the critical temperature, stored value', mk_super, 300.0)):
        for unit in ru.P_UNITS:
            for calc in (True, False):
                o = core.call(mk().saturation_pressure, T, unit=unit, calculate=calc)
                ev += 1
                nt += 1
                exp = 6.0e6 / ru.P_UNITS[unit]
                if not o.ok or abs(o.value - exp) > 1e-3 * abs(exp):
                    ctx.violate(core.make_violation({'check': 'fallback-unit', 'calculate': calc},
                                                    f'[{kname}] saturation_pressure({T}, unit={unit!r}, calculate={calc}) = {o.value if o.ok else o.brief()} but the stored 6e6 Pa is {exp} {unit}',
                                                    {'kind': kname, 'unit': unit}, exp, o.value if o.ok else o.brief()))
    # super-critical temperature for a backend-linked adsorbate: no saturation state exists
    n2 = pygaps.Adsorbate.find('N2')
    for meth in ('saturation_pressure', 'liquid_density', 'gas_density', 'surface_tension', 'enthalpy_vaporisation'):
        o = core.call(getattr(n2, meth), 300.0)
        ev += 1
        nt += 1
        if o.ok or o.kind != 'CalculationError':
            ctx.violate(core.make_violation({'check': 'supercritical-not-refused', 'method': meth}, f'N2.{meth}(300 K, above the critical point) {o.brief()}', {}))
    ctx.add('fallback', ev, nt)


def check_copies(ctx):
    """A copy of a shipped adsorbate (copy.copy; deepcopy / pickle where they are supported at all) answers like the original, used or not."""
    import copy
    import pickle
    import pygaps
    ev = nt = 0
    meths = [('molar_mass', ()), ('saturation_pressure', None), ('liquid_density', None), ('gas_density', None), ('surface_tension', None), ('enthalpy_vaporisation', None),
             ('p_critical', ()), ('t_triple', ())]
    for name in ('nitrogen', 'carbon dioxide', 'difluoromethane', 'n-heptane'):
        for used in (False, True):
            for how, cp in (('copy.copy', copy.copy), ('copy.deepcopy', copy.deepcopy), ('pickle round trip', lambda x: pickle.loads(pickle.dumps(x)))):
                a = pygaps.Adsorbate.find(name)
                a._state = None
                a._backend_mode = None
                T = 0.5 * (a.t_triple() + a.t_critical())
                a._state = None
                a._backend_mode = None
                if used:
                    a.saturation_pressure(T)
                    a.enthalpy_vaporisation(press=0.5 * a.saturation_pressure(T))
                c = core.call(cp, a)
                ev += 1
                if not c.ok:
                    continue        # copying by this route is refused: nothing to compare
                nt += 1
                for meth, args in meths:
                    args = (T,) if args is None else args
                    want, got = core.call(getattr(a, meth), *args), core.call(getattr(c.value, meth), *args)
                    if want.ok != got.ok or (want.ok and abs(got.value - want.value) > 1e-12 * abs(want.value)):
                        ctx.violate(core.make_violation({'check': 'copy-answers-differently', 'how': how, 'used_before': used},
                                                        f'{how} of the shipped {name!r} ({"after it was used" if used else "never used"}): {meth}{args} = '
                                                        f'{got.value if got.ok else got.brief()[:100]} but the original gives {want.value if want.ok else want.brief()[:100]}',
                                                        {'adsorbate': name, 'method': meth}))
                        break
    ctx.add('copies', ev, nt)


def check_replacement(ctx):
    """A string designates the adsorbate that is registered NOW, also after the registry entry was replaced."""
    import pygaps
    from pygaps.core.baseisotherm import BaseIsotherm
    from pygaps.parsing import sqlite as q
    ev = nt = 0
    base = list(pygaps.ADSORBATE_LIST)
    work = os.path.join(core.scratch(), 'c20.db')
    try:
        for s in ('N2', 'nitrogen', 'CO2'):
            pygaps.ADSORBATE_LIST[:] = base
            first = BaseIsotherm(material='c20', adsorbate=s, temperature=300.0)
            old = pygaps.Adsorbate.find(s)
            for how in ('list replacement', 'adsorbate_to_db(overwrite=True) on a copy of the database'):
                pygaps.ADSORBATE_LIST[:] = base
                BaseIsotherm(material='c20', adsorbate=s, temperature=300.0)
                custom = pygaps.Adsorbate(old.name, alias=list(old.alias), molar_mass=999.0)
                if how == 'list replacement':
                    pygaps.ADSORBATE_LIST[pygaps.ADSORBATE_LIST.index(old)] = custom
                else:
                    shutil.copyfile(str(pygaps.DATABASE), work)
                    o = core.call(q.adsorbate_to_db, custom, db_path=work, overwrite=True, verbose=False)
                    if not o.ok:
                        continue
                fnd = core.call(pygaps.Adsorbate.find, s)
                ev += 1
                nt += 1
                if not fnd.ok:
                    ctx.violate(core.make_violation({'check': 'name-no-longer-resolves', 'how': how},
                                                    f'after the registered {old.name!r} was replaced ({how}) Adsorbate.find({s!r}) {fnd.brief()}', {'string': s}))
                    continue
                now = fnd.value
                second = BaseIsotherm(material='c20', adsorbate=s, temperature=300.0)
                if second.adsorbate is not now:
                    ctx.violate(core.make_violation({'check': 'isotherm-linked-to-stale-adsorbate', 'how': how},
                                                    f'after the registered {old.name!r} was replaced ({how}) an isotherm created with {s!r} is linked to an object that is not Adsorbate.find({s!r})', {'string': s}))
        # storing a SHIPPED adsorbate in another database (directly or with an isotherm) leaves the registry as it was
        from mc import ref_store as rs
        for how in ('adsorbate_to_db', 'isotherm_to_db(autoinsert_adsorbate=True)'):
            for name in ('nitrogen', 'carbon dioxide', 'n-butane'):
                pygaps.ADSORBATE_LIST[:] = base
                ads = pygaps.Adsorbate.find(name)
                strings = sorted({v for al in [ads.name] + list(ads.alias) for v in variants(al)})
                alias_before = list(ads.alias)
                rs.create_template(work)      # schema only
                if how == 'adsorbate_to_db':
                    up = core.call(q.adsorbate_to_db, ads, db_path=work, verbose=False)
                else:
                    up = core.call(q.isotherm_to_db, BaseIsotherm(material='c20', adsorbate=name, temperature=300.0), db_path=work, autoinsert_material=True,
                                   autoinsert_adsorbate=True, verbose=False)
                ev += 1
                if not up.ok:
                    ctx.violate(core.make_violation({'check': 'upload-of-shipped-adsorbate-fails', 'how': how},
                                                    f'{how} of the shipped {name!r} into an empty database (schema only) {up.brief()[:160]}', {'adsorbate': name}))
                    continue
                for st in strings:
                    fnd = core.call(pygaps.Adsorbate.find, st)
                    ev += 1
                    nt += 1
                    if not fnd.ok or fnd.value is not ads:
                        ctx.violate(core.make_violation({'check': 'upload-changes-registry', 'how': how},
                                                        f'after {how} of the shipped {ads.name!r} into another database Adsorbate.find({st!r}) '
                                                        f'{"returns another object" if fnd.ok else fnd.brief()[:120]} (aliases before {alias_before[:4]}.., now {list(ads.alias)[:4]}..)',
                                                        {'string': st}))
                        break
                iso = core.call(BaseIsotherm, material='c20', adsorbate=ads.name, temperature=300.0)
                if not iso.ok or iso.value.adsorbate is not ads:
                    ctx.violate(core.make_violation({'check': 'upload-changes-registry', 'how': how, 'via': 'isotherm'},
                                                    f'after {how} of the shipped {ads.name!r} an isotherm created with {ads.name!r} is not linked to it', {}))
        # a NEW adsorbate with a property type the file does not know yet, stored in a copy of the packaged database: afterwards
        # every name and alias in that file still designates exactly one adsorbate and the shipped entries are untouched
        before_db = {a.name: a.to_dict() for a in q.adsorbates_from_db(db_path=str(pygaps.DATABASE), verbose=False)}
        for props in ({'isotope': 15}, {'isotope': 15, 'supplier': 'x', 'purity': 0.999}, {}):
            pygaps.ADSORBATE_LIST[:] = base
            shutil.copyfile(str(pygaps.DATABASE), work)
            new = pygaps.Adsorbate('nitrogen-15', formula='N_{2}', alias=['15n2', 'heavy nitrogen'], molar_mass=30.0002, **props)
            up = core.call(q.adsorbate_to_db, new, db_path=work, verbose=False)
            ev += 1
            if not up.ok:
                ctx.violate(core.make_violation({'check': 'new-adsorbate-upload-fails'}, f'adsorbate_to_db of a new adsorbate with properties {props} into a copy of the packaged database {up.brief()[:150]}', {}))
                continue
            nt += 1
            pygaps.ADSORBATE_LIST[:] = base
            after = core.call(q.adsorbates_from_db, db_path=work, verbose=False)
            if not after.ok:
                ctx.violate(core.make_violation({'check': 'new-adsorbate-breaks-file'}, f'after storing a new adsorbate the file cannot be read: {after.brief()[:150]}', {}))
                continue
            owners = {}
            for a in after.value:
                for al in {a.name.lower()} | {x.lower() for x in a.alias}:
                    owners.setdefault(al, set()).add(a.name)
            amb = {al: sorted(o) for al, o in owners.items() if len(o) > 1}
            changed = [n for n, d in before_db.items() if next((x.to_dict() for x in after.value if x.name == n), None) != d]
            mine = next((x for x in after.value if x.name == 'nitrogen-15'), None)
            want = new.to_dict()
            if amb or changed or mine is None or {k: v for k, v in mine.to_dict().items() if k != 'alias'} != {k: v for k, v in want.items() if k != 'alias'} \
                    or {x.lower() for x in mine.alias} != {x.lower() for x in new.alias}:
                ctx.violate(core.make_violation({'check': 'new-adsorbate-corrupts-registry-file'},
                                                f'after adsorbate_to_db of a new adsorbate (properties {props}) into a copy of the packaged database: ambiguous names {dict(list(amb.items())[:3])}, '
                                                f'shipped entries changed {changed[:3]}, stored entry {mine.to_dict() if mine else None} (uploaded {want})', {'properties': props}))
        # a REFUSED deletion (adsorbate absent from that database / still referenced by an isotherm) leaves the registry as it was
        for why in ('not in that database', 'referenced by an isotherm'):
            for name in ('nitrogen', 'carbon dioxide'):
                for arg_kind in ('object', 'name'):
                    pygaps.ADSORBATE_LIST[:] = base
                    ads = pygaps.Adsorbate.find(name)
                    rs.create_template(work)
                    if why == 'referenced by an isotherm':
                        up = core.call(q.isotherm_to_db, BaseIsotherm(material='c20', adsorbate=name, temperature=300.0), db_path=work, autoinsert_material=True,
                                       autoinsert_adsorbate=True, verbose=False)
                        if not up.ok:
                            ctx.violate(core.make_violation({'check': 'upload-of-shipped-adsorbate-fails', 'how': 'isotherm_to_db(autoinsert_adsorbate=True)'},
                                                            f'isotherm_to_db with automatic insertion of the shipped {name!r} into an empty database {up.brief()[:160]}', {'adsorbate': name}))
                            continue
                    n0 = len(pygaps.ADSORBATE_LIST)
                    d = core.call(q.adsorbate_delete_db, ads if arg_kind == 'object' else ads.name, db_path=work, verbose=False)
                    ev += 1
                    if d.ok:
                        continue        # a successful deletion is C08's business
                    nt += 1
                    fnd = core.call(pygaps.Adsorbate.find, name)
                    iso = core.call(BaseIsotherm, material='c20', adsorbate=name, temperature=300.0)
                    if len(pygaps.ADSORBATE_LIST) != n0 or not fnd.ok or fnd.value is not ads or not iso.ok or iso.value.adsorbate is not ads:
                        ctx.violate(core.make_violation({'check': 'refused-deletion-changes-registry', 'why': why},
                                                        f'adsorbate_delete_db({name!r} as {arg_kind}) on a database where it is {why} was refused ({d.brief()[:60]}) but the registry changed: '
                                                        f'{n0} -> {len(pygaps.ADSORBATE_LIST)} adsorbates, find({name!r}) {"ok" if fnd.ok else fnd.brief()[:80]}', {'name': name}))
    finally:
        pygaps.ADSORBATE_LIST[:] = base
    ctx.add('replacement', ev, nt)


def check_backend_switch(ctx):
    """All histories of {property query, switch to REFPROP (not installed here), switch back to CoolProp} on ONE adsorbate object.

    Whatever happened before, once the CoolProp backend is selected again a calculated property is what a fresh object gives.  While the
    unavailable backend is selected a query returns the user-supplied value or refuses with CalculationError (never another exception).
    """
    import pygaps
    from pygaps.utilities import coolprop_utilities as cu
    ev = nt = 0
    depth = 4 if ctx.quick else 6
    kinds = {
        'shipped nitrogen': lambda: pygaps.Adsorbate.find('N2'),
        'custom, backend-linked, one user value': lambda: pygaps.Adsorbate('c20-sw', backend_name='CarbonDioxide', saturation_pressure=6.0e6),
        'adsorbate of an isotherm': lambda: pygaps.PointIsotherm(pressure=[0.1, 0.5, 1.0], loading=[1.0, 2.0, 2.5], material='c20', adsorbate='CO2', temperature=250.0,
                                                                  pressure_mode='absolute', pressure_unit='bar', loading_basis='molar', loading_unit='mmol',
                                                                  material_basis='mass', material_unit='g', temperature_unit='K').adsorbate,
    }
    queries = {'q1': ('saturation_pressure', (100.0 if True else 0,)), 'q2': ('liquid_density', (0,)), 'q3': ('molar_mass', ())}
    base_state = {}
    try:
        for kname, mk in kinds.items():
            T = 100.0 if 'nitrogen' in kname else 250.0
            cu.backend_use_coolprop()
            fresh = mk()
            if hasattr(fresh, '_state'):
                fresh._state, fresh._backend_mode = None, None
            want = {'q1': fresh.saturation_pressure(T), 'q2': fresh.liquid_density(T), 'q3': fresh.molar_mass()}
            for hist in itertools.product(('q1', 'q2', 'q3', 'R', 'C'), repeat=depth):
                if 'R' not in hist:
                    continue
                cu.backend_use_coolprop()
                a = mk()
                a._state, a._backend_mode = None, None        # (shipped objects are shared: every history starts from an unused object)
                mode = 'HEOS'
                bad = None
                for step in hist:
                    if step == 'R':
                        cu.backend_use_refprop(); mode = 'REFPROP'
                        continue
                    if step == 'C':
                        cu.backend_use_coolprop(); mode = 'HEOS'
                        continue
                    meth, _ = queries[step]
                    o = core.call(getattr(a, meth), *(() if step == 'q3' else (T,)))
                    ev += 1
                    if mode == 'HEOS':
                        nt += 1
                        if not o.ok or abs(o.value - want[step]) > 1e-12 * abs(want[step]):
                            bad = f'{meth} under CoolProp = {o.value if o.ok else o.brief()[:100]} but a fresh object gives {want[step]}'
                            break
                    elif not o.ok and o.kind != 'CalculationError':
                        bad = f'{meth} while the unavailable backend is selected {o.brief()[:120]}'
                        break
                if bad is None:
                    cu.backend_use_coolprop()
                    for step, (meth, _) in queries.items():
                        o = core.call(getattr(a, meth), *(() if step == 'q3' else (T,)))
                        ev += 1
                        nt += 1
                        if not o.ok or abs(o.value - want[step]) > 1e-12 * abs(want[step]):
                            bad = f'after the history, back on CoolProp: {meth} = {o.value if o.ok else o.brief()[:100]} but a fresh object gives {want[step]}'
                            break
                if bad:
                    ctx.violate(core.make_violation({'check': 'backend-switch-history', 'adsorbate': kname.split(',')[0]},
                                                    f'[{kname}] history {list(hist)} (R = backend_use_refprop, C = backend_use_coolprop): {bad}', {'history': list(hist), 'kind': kname}))
                    break
    finally:
        cu.backend_use_coolprop()
        for a in pygaps.ADSORBATE_LIST:
            if getattr(a, '_backend_mode', None) == 'REFPROP':
                a._state, a._backend_mode = None, None
    ctx.add('backend_switch_histories', ev, nt)


def check_overwrite_removed(ctx):
    """adsorbate_to_db(overwrite=True) replaces ALL fields: a property the new definition no longer carries is gone after a reload."""
    import pygaps
    from pygaps.parsing import sqlite as q
    from mc import ref_store as rs
    ev = nt = 0
    base = list(pygaps.ADSORBATE_LIST)
    work = os.path.join(core.scratch(), 'c20-ow.db')
    full = dict(formula='X_{2}', molar_mass=44.0, saturation_pressure=6.0e6, enthalpy_liquefaction=10.3, p_triple=5.2, backend_name='CarbonDioxide')
    try:
        for start in ('schema only', 'copy of the packaged database'):
            for removed in (['saturation_pressure'], ['enthalpy_liquefaction', 'p_triple'], ['backend_name'], ['formula', 'molar_mass'], list(full)):
                pygaps.ADSORBATE_LIST[:] = base
                if start == 'schema only':
                    rs.create_template(work)
                else:
                    shutil.copyfile(str(pygaps.DATABASE), work)
                first = pygaps.Adsorbate('c20-ow', alias=['ow'], **full)
                kept = {k: v for k, v in full.items() if k not in removed}
                second = pygaps.Adsorbate('c20-ow', alias=['ow'], **kept)
                o1 = core.call(q.adsorbate_to_db, first, db_path=work, verbose=False)
                o2 = core.call(q.adsorbate_to_db, second, db_path=work, overwrite=True, verbose=False)
                pygaps.ADSORBATE_LIST[:] = base
                got = core.call(q.adsorbates_from_db, db_path=work, verbose=False)
                ev += 1
                if not (o1.ok and o2.ok and got.ok):
                    ctx.violate(core.make_violation({'check': 'overwrite-removed-property', 'what': 'raises'},
                                                    f'[{start}] upload / overwrite / reload: {[x.brief()[:80] for x in (o1, o2, got) if not x.ok]}', {'removed': removed}))
                    continue
                nt += 1
                re_ = [a for a in got.value if a.name == 'c20-ow']
                props = {k: v for k, v in (re_[0].properties if re_ else {}).items()}
                left = [k for k in removed if k in props]
                wrong = [k for k, v in kept.items() if props.get(k) != v]
                if len(re_) != 1 or left or wrong:
                    ctx.violate(core.make_violation({'check': 'overwrite-removed-property', 'what': 'left behind' if left else 'wrong'},
                                                    f'[{start}] adsorbate stored with {sorted(full)}, overwritten by a definition without {removed}: after reloading the file '
                                                    f'{"it still has " + str({k: props[k] for k in left}) if left else "properties " + str(wrong) + " differ"}', {'removed': removed}, kept, props))
    finally:
        pygaps.ADSORBATE_LIST[:] = base
    ctx.add('overwrite_removed_property', ev, nt)


def run(ctx):
    import pygaps
    check_registry(ctx)
    check_sources(ctx)
    backends = [a.name for a in pygaps.ADSORBATE_LIST if a.properties.get('backend_name')]
    ctx.cov['backend_linked'] = len(backends)
    fr = [0.1, 0.3, 0.5, 0.7, 0.9] if ctx.quick else [0.02 + 0.04 * i for i in range(25)]
    fr = [min(0.985, f * (1 + 0.02 * (ctx.phase - 3.5) / 3.5)) for f in fr]
    res = core.pmap(work_thermo, [(n, fr) for n in backends], chunk=1)
    sk = 0
    for r in res:
        ctx.add('thermodynamics', r['ev'], r['nt'])
        ctx.violate(r['viol'])
        sk += r['skipped']
        ctx.track('pygaps_vs_PropsSI', r['worst'], 1e-9)
    ctx.cov['reference_unavailable'] = sk
    check_fallback(ctx)
    check_copies(ctx)
    check_replacement(ctx)
    check_backend_switch(ctx)
    check_overwrite_removed(ctx)
    ctx.require('shipped_adsorbates', ctx.cov['shipped_adsorbates'], 170)
    ctx.require('backend_linked', len(backends), 75)
    ctx.cov['rule'] = ('every shipped adsorbate x name and every alias x {as is, lower, UPPER, Title, sWAPCASE} through Adsorbate.find and the isotherm constructor; json vs packaged db; '
                       'every backend-linked adsorbate x temperature lattice across (T_triple, T_critical) x 7 property methods against PropsSI, identities, 8 pressure units, and all '
                       'ordered pairs of 10 property calls on a reset adsorbate; fallback alphabet 4 adsorbate kinds x 13 methods x calculate flag; registry replacement sequences.')
    ctx.sample({'find': ['N2', 'NITROGEN', 'nItRoGeN'], 'expected': 'the one shipped nitrogen object'})
    ctx.sample({'adsorbate': 'CO2', 'pair_of_calls': ['enthalpy_vaporisation(press)', 'liquid_density'], 'oracle': 'second call equals PropsSI'})
    ctx.assumptions += ['CoolProp trusted; pygaps (low-level AbstractState) compared with PropsSI (high-level API)']
