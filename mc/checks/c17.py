"""C17 — Horvath-Kawazoe pore widths solve the method's potential equation (DESIGN §4 C17; engine E2).

4 models (HK, HK-CY, RY, RY-CY) x 3 geometries x adsorbent parameter sets (3 built-in + a user dictionary) x adsorbate sets x temperatures x
a width lattice x loading profiles.  The solver's inputs (potential closure, bracket) and raw outputs are observed by rebinding
psd_micro._solve_hk / _solve_hk_cy to recording wrappers at run time (no source hook).
Oracles: (i) the published slit-pore HK equation implemented independently maps chosen widths to pressures and back; (ii) every solved
width is a global minimiser of |exp(phi(L) [- correction]) - p| on a dense scan of the bracket; (iii) widths non-decreasing, cumulative
volume = n M / rho / 1000, distribution = finite difference of volume over width, reported widths = midpoints of solved widths.
"""
import math

import numpy
from scipy import constants

from mc import core
from mc import ref_units as ru

LEVEL = 'exploration'

ADSORBATES = {
    'N2': dict(molecular_diameter=0.3, polarizability=1.7403e-3, magnetic_susceptibility=3.6e-8, surface_density=6.71e18, liquid_density=0.8064, adsorbate_molar_mass=28.0134),
    'Ar': dict(molecular_diameter=0.336, polarizability=1.6411e-3, magnetic_susceptibility=3.24e-8, surface_density=8.52e18, liquid_density=1.3954, adsorbate_molar_mass=39.948),
    'CO2-like': dict(molecular_diameter=0.323, polarizability=2.911e-3, magnetic_susceptibility=5.0e-8, surface_density=7.68e18, liquid_density=1.10, adsorbate_molar_mass=44.01),
    # light gases: magnetic susceptibilities an order of magnitude smaller (in nm3, like the others)
    'H2-like': dict(molecular_diameter=0.29, polarizability=0.8e-3, magnetic_susceptibility=6.6e-9, surface_density=9.0e18, liquid_density=0.071, adsorbate_molar_mass=2.016),
    'He-like': dict(molecular_diameter=0.26, polarizability=0.2e-3, magnetic_susceptibility=3.1e-9, surface_density=1.1e19, liquid_density=0.125, adsorbate_molar_mass=4.0026),
}
USER_ADSORBENT = dict(molecular_diameter=0.3, polarizability=1.5e-3, magnetic_susceptibility=5.0e-8, surface_density=2.0e19)


def ref_hk_slit_lnp(l, T, ads, mat):
    """Published Horvath-Kawazoe slit equation (J. Chem. Eng. Japan 16 (1983) 470), SI units; l = distance between the nuclei of the two layers [nm]."""
    me, c0, NA, Rg = constants.electron_mass, constants.speed_of_light, constants.Avogadro, constants.gas_constant
    aa, xa = ads['polarizability'] * 1e-27, ads['magnetic_susceptibility'] * 1e-27
    am, xm = mat['polarizability'] * 1e-27, mat['magnetic_susceptibility'] * 1e-27
    A_a = 1.5 * me * c0 ** 2 * aa * xa                                   # Kirkwood-Mueller, adsorbate-adsorbate
    A_s = 6 * me * c0 ** 2 * aa * am / (aa / xa + am / xm)              # adsorbate-adsorbent
    d0 = (ads['molecular_diameter'] + mat['molecular_diameter']) / 2 * 1e-9
    sigma = (2 / 5) ** (1 / 6) * d0
    L = l * 1e-9
    pref = NA * (ads['surface_density'] * A_a + mat['surface_density'] * A_s) / (sigma ** 4 * (L - 2 * d0))
    br = sigma ** 4 / (3 * (L - d0) ** 3) - sigma ** 10 / (9 * (L - d0) ** 9) - sigma ** 4 / (3 * d0 ** 3) + sigma ** 10 / (9 * d0 ** 9)
    return pref * br / (Rg * T)


class Recorder:
    def __init__(self):
        self.calls = []

    def install(self):
        from pygaps.characterisation import psd_micro
        self.mod = psd_micro
        self.orig = (psd_micro._solve_hk, psd_micro._solve_hk_cy)
        rec = self

        def solve_hk(pressure, hk_fun, bound, geo):
            out = rec.orig[0](pressure, hk_fun, bound, geo)
            rec.calls.append(dict(cy=False, pressure=numpy.array(pressure, dtype=float), loading=None, fun=hk_fun, bound=bound, geo=geo, widths=numpy.array(out, dtype=float)))
            return out

        def solve_hk_cy(pressure, loading, hk_fun, bound, geo):
            out = rec.orig[1](pressure, loading, hk_fun, bound, geo)
            rec.calls.append(dict(cy=True, pressure=numpy.array(pressure, dtype=float), loading=numpy.array(loading, dtype=float), fun=hk_fun, bound=bound, geo=geo,
                                  widths=numpy.array(out, dtype=float)))
            return out
        psd_micro._solve_hk, psd_micro._solve_hk_cy = solve_hk, solve_hk_cy

    def remove(self):
        self.mod._solve_hk, self.mod._solve_hk_cy = self.orig


def work(arg):
    from pygaps.characterisation import psd_micro
    from pygaps.characterisation.models_hk import get_hk_model
    model, geometry, mat_name, ads_name, T, profile, scale = arg
    out = {'ev': 0, 'nt': 0, 'viol': [], 'worst_pub': 0.0, 'worst_scan': 0.0}
    ads = dict(ADSORBATES[ads_name])
    mat = USER_ADSORBENT if mat_name == 'user dictionary' else dict(get_hk_model(mat_name))
    use_cy = model.endswith('CY')
    fn = psd_micro.psd_horvath_kawazoe if model.startswith('HK') else psd_micro.psd_horvath_kawazoe_ry
    seen = set()

    def v(check, what, exp=None, obs=None, extra=None):
        sig = {'check': check, 'model': model, 'geometry': geometry}
        if extra:
            sig.update(extra)
        k = core.sig_key(sig)
        if k in seen:
            return
        seen.add(k)
        out['viol'].append(core.make_violation(sig, f'{model}/{geometry}/{mat_name}/{ads_name}/{T} K/{profile}: {what}',
                                               {'model': model, 'geometry': geometry, 'adsorbent': mat_name, 'adsorbate': ads_name, 'T': T}, exp, obs))

    d_eff = (ads['molecular_diameter'] + mat['molecular_diameter']) / 2
    npts = 12
    if model == 'HK' and geometry == 'slit':
        # pressures generated from chosen widths by the independent published equation
        lmin = 2 * d_eff * 1.05
        ls = numpy.geomspace(lmin, 3.0 * scale ** 0.2 + mat['molecular_diameter'], npts)
        pressure = numpy.exp([ref_hk_slit_lnp(l, T, ads, mat) for l in ls])
        chosen = ls - mat['molecular_diameter']
    else:
        pressure = numpy.geomspace(2e-7, 0.2 * min(1.0, scale), npts)
        chosen = None
    if profile == 'tied':
        # repeated pressure readings (a gauge at its resolution limit) that carry different loadings: every point is solved for itself
        pressure = numpy.repeat(pressure[::2], 2)
        if chosen is not None:
            chosen = numpy.repeat(chosen[::2], 2)
    if profile in ('linear', 'tied'):
        loading = numpy.linspace(0.5, 6.0, npts) * scale
    else:
        loading = 6.5 * scale * (pressure / pressure[-1]) ** 0.25 / (1 + 0.08 * (pressure / pressure[-1]) ** 0.25)
    keep = pressure < 0.9
    pressure, loading = pressure[keep], loading[keep]
    if chosen is not None:
        chosen = chosen[keep]
    rec = Recorder()
    rec.install()
    try:
        pc, lc = pressure.copy(), loading.copy()
        o = core.call(fn, pc, lc, T, geometry, ads, mat, use_cy, timeout=600)
        again = core.call(fn, pc, lc, T, geometry, ads, mat, use_cy, timeout=600) if o.ok else None
    finally:
        rec.remove()
    out['ev'] += 1
    if not (numpy.array_equal(pc, pressure) and numpy.array_equal(lc, loading)):
        v('inputs-modified', 'the function changed the arrays passed to it')
    if not o.ok:
        v('raises', o.brief(), None, o.brief(), {'kind': o.kind})
        return out
    if again is not None and (not again.ok or not all(numpy.shape(a) == numpy.shape(b) and numpy.allclose(a, b, rtol=1e-12, atol=0, equal_nan=True)
                                                      for a, b in zip(o.value, again.value))):
        v('second-call-differs', 'calling the function a second time with the same arrays gives another result')
    if profile == 'linear':
        # parameter dictionaries are keyed by name: the order in which a user wrote the keys (reversed here; sorted order is the reverse of neither) is immaterial
        for who, a2, m2 in (('adsorbate', dict(reversed(list(ads.items()))), mat), ('adsorbent', ads, dict(reversed(list(mat.items())))),
                            ('both, sorted keys', dict(sorted(ads.items())), dict(sorted(mat.items())))):
            o4 = core.call(fn, pressure.copy(), loading.copy(), T, geometry, a2, m2, use_cy, timeout=600)
            out['ev'] += 1
            if not o4.ok or not all(numpy.shape(a) == numpy.shape(b) and numpy.allclose(a, b, rtol=1e-12, atol=0, equal_nan=True) for a, b in zip(o.value, o4.value)):
                v('dictionary-key-order', f'the same {who} parameters written in another key order give another result'
                  + (f' (first widths {numpy.asarray(o4.value[0])[:3]} instead of {numpy.asarray(o.value[0])[:3]})' if o4.ok else f': {o4.brief()}'), None, None, {'which': who.split(',')[0]})
    widths_rep, dist, cum = [numpy.asarray(x, dtype=float) for x in o.value]
    call = rec.calls[0]
    raw = call['widths']
    k = len(raw)
    out['nt'] += 1
    # geometric mapping from solved quantity to reported width
    d_mat = mat['molecular_diameter']
    w_solved = raw - d_mat if geometry == 'slit' else 2 * raw - d_mat
    # (iii) bookkeeping identities
    if len(widths_rep) != k - 1 or core.relerr(widths_rep, (w_solved[:-1] + w_solved[1:]) / 2) > 1e-12:
        v('reported-widths', 'reported pore widths are not the mid-points of successive solved widths')
    vol = loading[:k] * ads['adsorbate_molar_mass'] / ads['liquid_density'] / 1000
    if core.relerr(cum, vol[1:]) > 1e-12:
        v('cumulative-volume', f'cumulative pore volume {cum[:3]} is not the adsorbed amount as liquid volume {vol[1:4]}', vol[1:], cum)
    with numpy.errstate(divide='ignore', invalid='ignore'):
        fd = numpy.diff(vol) / numpy.diff(w_solved)
    okfd = numpy.isfinite(fd)
    if core.relerr(dist[okfd], fd[okfd]) > 1e-9:
        v('distribution', 'pore distribution is not the finite-difference derivative of the cumulative volume with respect to width')
    # (i) published slit equation
    if chosen is not None:
        e = core.relerr(w_solved, chosen[:k])
        out['worst_pub'] = e
        if e > 1e-6:
            v('published-hk-equation', f'pressures computed from the published slit HK equation for widths {chosen[:4]} are mapped back to {w_solved[:4]} (rel. dev. {e:.3g})', chosen[:k], w_solved)
    # (ii) global minimiser on a dense scan of the bracket
    cov = None
    if call['cy']:
        cov = call['loading'] / (call['loading'].max() * 1.01)
    scan = numpy.geomspace(call['bound'] * (1 + 1e-6), 50.0, 1500 if geometry != 'cylinder' or model.startswith('HK') is False else 600)
    if model.startswith('RY') and geometry == 'cylinder':
        scan = numpy.geomspace(call['bound'] * (1 + 1e-6), 50.0, 250)
    phi = numpy.array([call['fun'](x) for x in scan])
    # The potential is repulsive next to the wall, passes through its minimum at l* and rises to zero for wide pores. The method
    # inverts the ATTRACTIVE branch (l >= l*): pressures below exp(phi(l*)) or above exp(phi(50 nm)) correspond to no pore width
    # at all and lie outside the property's domain. Roots are bracketed by sign changes on the scan and refined by bisection.
    istar = int(numpy.nanargmin(phi))
    worst = 0.0
    in_domain = numpy.zeros(k, dtype=bool)
    no_root = 0
    for i in range(k):
        corr = 0.0
        if cov is not None:
            corr = 1 + 1 / cov[i] * math.log(1 - cov[i])
        target = call['pressure'][i]
        if not target > 0:
            continue
        g = phi - corr - math.log(target)
        roots = []
        for j in range(istar + 1, len(scan) - 1):      # strictly beyond the (scan-resolved) potential minimum
            if not (numpy.isfinite(g[j]) and numpy.isfinite(g[j + 1])):
                continue
            if g[j] == 0 or g[j] * g[j + 1] < 0:
                lo_, hi_, glo = scan[j], scan[j + 1], g[j]
                for _ in range(60):
                    mid_ = 0.5 * (lo_ + hi_)
                    gm = call['fun'](mid_) - corr - math.log(target)
                    if (gm < 0) == (glo < 0):
                        lo_, glo = mid_, gm
                    else:
                        hi_ = mid_
                r_ = 0.5 * (lo_ + hi_)
                if abs(call['fun'](r_) - corr - math.log(target)) < 1e-6:      # a true root, not a jump of a piecewise potential
                    roots.append(r_)
        if not roots:
            no_root += 1
            continue
        in_domain[i] = True
        with numpy.errstate(over='ignore'):
            res_rep = abs(math.exp(min(700.0, call['fun'](raw[i]) - corr)) - target)
        near = min(abs(raw[i] - r_) for r_ in roots)
        worst = max(worst, min(res_rep / target, near))
        # (the library refines a bracketed root with brentq)
        if not (near <= 1e-6 or res_rep <= 1e-5 * target):
            r_best = min(roots, key=lambda r_: abs(raw[i] - r_))
            extra = {'corrected': use_cy}
            if model.startswith('RY') and geometry == 'slit':
                # the RY slit potential switches expression where the pore holds two adsorbate layers
                nl_rep = (raw[i] - d_mat) / ads['molecular_diameter']
                nl_best = (r_best - d_mat) / ads['molecular_diameter']
                extra['across_layer_count_discontinuity'] = bool((nl_rep < 2) != (nl_best < 2))
            else:
                extra['case'] = f'{mat_name}/{ads_name}/{T:g} K'
            v('not-a-solution', f'solved width {raw[i]:.6g} nm for p={target:.4g} predicts p={math.exp(min(700.0, call["fun"](raw[i]) - corr)):.4g} (residual {res_rep:.3g}) while the attractive '
              f'branch of the potential has its root(s) at {[round(float(r_), 6) for r_ in roots]} nm: the reported width does not solve the potential equation',
              [float(r_) for r_ in roots], float(raw[i]), extra)
            break
    # (iv) a lattice of WIDTHS on the attractive branch, dense next to the potential minimum (the smallest pores the method resolves):
    # the pressures the potential equation gives for them are mapped back to those widths
    if not (model.startswith('RY') and geometry == 'cylinder' and profile != 'linear') and profile != 'tied':
        # the attractive branch proper: from wide pores inwards for as long as the potential deepens (next to the geometric minimum some
        # potentials are singular, and the Rege-Yang slit potential jumps where a pore holds one more layer: the lattice stays outside)
        jst = len(scan) - 1
        while jst > 0 and phi[jst - 1] <= phi[jst]:
            jst -= 1
        l_lat = scan[min(jst + 1, len(scan) - 1)] + numpy.geomspace(2e-3, 2.5, 30)
        # the property speaks about pore widths up to ~3 nm
        l_lat = l_lat[(l_lat - d_mat if geometry == 'slit' else 2 * l_lat - d_mat) <= 3.2]
        n_lat = numpy.linspace(0.5, 6.0, max(len(l_lat), 1)) * scale
        cov_lat = n_lat / (n_lat.max() * 1.01)
        lnp_lat = numpy.array([call['fun'](x) for x in l_lat]) - (numpy.array([1 + 1 / c_ * math.log(1 - c_) for c_ in cov_lat]) if call['cy'] else 0.0)
        with numpy.errstate(over='ignore', under='ignore'):
            p_lat = numpy.exp(lnp_lat)
        sel = [0] if len(p_lat) else []
        for j in range(1, len(p_lat)):
            if p_lat[j] > p_lat[sel[-1]] * (1 + 1e-9):
                sel.append(j)
        sel = [j for j in sel if 1e-300 < p_lat[j] < 0.9]
        if call['cy']:
            sel = sel if (len(sel) and sel[-1] == len(p_lat) - 1) else []     # the coverage is normalised by the last loading passed
        if len(sel) >= 5:
            rec2 = Recorder()
            rec2.install()
            try:
                o2 = core.call(fn, p_lat[sel].copy(), n_lat[sel].copy(), T, geometry, ads, mat, use_cy, timeout=600)
            finally:
                rec2.remove()
            out['ev'] += 1
            if o2.ok and rec2.calls:
                out['nt'] += 1
                raw2 = rec2.calls[0]['widths']
                p2 = p_lat[sel][:len(raw2)]
                want2 = l_lat[sel][:len(raw2)]
                out['worst_lattice'] = float(numpy.abs(raw2 - want2).max())
                extra = {'corrected': use_cy, 'part': 'width lattice'}
                if not (model.startswith('RY') and geometry == 'slit'):
                    extra['case'] = f'{mat_name}/{ads_name}/{T:g} K'
                # each returned width solves the equation (the equation may have other roots than the lattice width) ...
                corr2 = (numpy.array([1 + 1 / c_ * math.log(1 - c_) for c_ in cov_lat]) if call['cy'] else numpy.zeros(len(l_lat)))[sel][:len(raw2)]
                with numpy.errstate(over='ignore'):
                    res2 = numpy.array([abs(math.exp(min(700.0, call['fun'](raw2[j]) - corr2[j])) - p2[j]) / p2[j] for j in range(len(raw2))])
                notroot = numpy.flatnonzero((res2 > 1e-5) & (numpy.abs(raw2 - want2) > 1e-6))
                if len(notroot):
                    j = int(notroot[0])
                    ex_ns = dict(extra)
                    if model.startswith('RY') and geometry == 'slit':
                        # (same signature as in part (ii): the Rege-Yang slit potential switches expression where the pore holds two layers)
                        ex_ns = {'corrected': use_cy, 'across_layer_count_discontinuity':
                                 bool(((raw2[j] - d_mat) / ads['molecular_diameter'] < 2) != ((want2[j] - d_mat) / ads['molecular_diameter'] < 2))}
                    v('not-a-solution', f'the pressure {p2[j]:.6g} which the potential equation gives for a solved size of {want2[j]:.6g} nm ({want2[j] - scan[jst]:.3g} nm above the potential '
                      f'minimum) is mapped to {raw2[j]:.6g} nm, where the equation predicts p={p2[j] * (1 + res2[j]):.6g} ({len(notroot)} of {len(raw2)} lattice points)', want2, raw2, ex_ns)
                # ... and the widths do not decrease along the increasing pressures
                dec2 = numpy.flatnonzero(numpy.diff(raw2) < -1e-7)
                if len(dec2):
                    j = int(dec2[0])
                    cov_j = float(cov_lat[sel][j + 1]) if call['cy'] else None
                    if cov_j is not None and cov_j > 0.9:
                        ex_wd = {'corrected': use_cy, 'high_coverage': True}       # (same signature as in the main part: the Cheng-Yang term diverges)
                    elif model.startswith('RY') and geometry == 'slit':
                        ex_wd = {'corrected': use_cy, 'high_coverage': False}
                    else:
                        ex_wd = dict(extra, high_coverage=False)
                    v('widths-decrease', f'along the increasing pressures {p2[j]:.6g} -> {p2[j + 1]:.6g} (generated from solved sizes {want2[j]:.6g} -> {want2[j + 1]:.6g} nm, '
                      f'{want2[j] - scan[jst]:.3g} nm above the potential minimum) the solved size decreases: {raw2[j]:.6g} -> {raw2[j + 1]:.6g} nm', None, raw2, ex_wd)
            elif not o2.ok:
                v('raises', 'width lattice: ' + o2.brief(), None, o2.brief(), {'kind': o2.kind, 'part': 'width lattice'})
    # (v) long measurements (continuous dosing): hundreds to thousands of points, each solved like any other
    if model == 'HK' and geometry == 'slit' and profile == 'linear':
        for nlong in (150, 600, 2000):
            ls_l = numpy.geomspace(2 * d_eff * 1.05, 3.0 + d_mat, nlong)
            p_l = numpy.exp([ref_hk_slit_lnp(l, T, ads, mat) for l in ls_l])
            keep_l = p_l < 0.9
            n_l = numpy.linspace(0.5, 6.0, nlong) * scale
            rec3 = Recorder()
            rec3.install()
            try:
                o3 = core.call(fn, p_l[keep_l].copy(), n_l[keep_l].copy(), T, geometry, ads, mat, use_cy, timeout=600)
            finally:
                rec3.remove()
            out['ev'] += 1
            if not o3.ok or not rec3.calls:
                v('raises', f'{nlong} points: {o3.brief()}', None, o3.brief(), {'kind': o3.kind, 'part': 'long input'})
                continue
            out['nt'] += 1
            raw3 = rec3.calls[0]['widths']
            e3 = core.relerr(raw3 - d_mat, (ls_l[keep_l] - d_mat)[:len(raw3)])
            if e3 > 1e-6:
                v('published-hk-equation', f'{nlong} pressures computed from the published slit HK equation: widths mapped back with rel. dev. {e3:.3g} (12 such points: {out["worst_pub"]:.3g})',
                  None, None, {'part': 'long input'})
    out['no_root_in_domain'] = no_root
    out['worst_scan'] = worst
    # widths non-decreasing in pressure
    dec = numpy.diff(w_solved) < -1e-7
    dec = dec & in_domain[:-1] & in_domain[1:] if len(dec) == len(in_domain) - 1 else dec      # pressures without a pore width say nothing
    if len(dec) == len(pressure[:len(w_solved)]) - 1:
        dec = dec & (numpy.diff(pressure[:len(w_solved)]) > 0)      # the order of widths is stated along increasing pressures only
    if dec.any():
        i = int(numpy.argmax(dec))
        covi = float(cov[i + 1]) if cov is not None else None
        v('widths-decrease', f'pore widths decrease with pressure: {w_solved[i]:.5g} -> {w_solved[i + 1]:.5g} nm at p={pressure[i + 1]:.4g}' + (f' (coverage {covi:.3f})' if covi else ''),
          None, w_solved, dict({'corrected': use_cy, 'high_coverage': bool(covi is not None and covi > 0.9)},
                               **({} if (covi is not None and covi > 0.9) or (model.startswith('RY') and geometry == 'slit') else {'case': f'{mat_name}/{ads_name}/{T:g} K'})))
    return out


def check_entry(ctx):
    """psd_microporous on an isotherm: limits and agreement with the low-level function."""
    import pygaps
    import pygaps.characterisation as pgc
    from pygaps.characterisation import psd_micro
    from pygaps.characterisation.models_hk import get_hk_model
    ev = nt = 0
    p = numpy.geomspace(1e-6, 0.3, 18)
    n = numpy.linspace(0.5, 6.0, 18) * ctx.scale
    iso = pygaps.PointIsotherm(pressure=p, loading=n, material='c17', adsorbate='N2', temperature=77.355, pressure_mode='relative', loading_basis='molar',
                               loading_unit='mmol', material_basis='mass', material_unit='g')
    a = pygaps.Adsorbate.find('N2')
    ads = dict(molecular_diameter=a.get_prop('molecular_diameter'), polarizability=a.get_prop('polarizability'), magnetic_susceptibility=a.get_prop('magnetic_susceptibility'),
               surface_density=a.get_prop('surface_density'), liquid_density=a.liquid_density(77.355), adsorbate_molar_mass=a.molar_mass())
    for model, geom in (('HK', 'slit'), ('HK-CY', 'slit'), ('HK', 'cylinder'), ('RY', 'slit'), ('HK', 'sphere')):
        for lim in (None, (1e-5, 0.1), (None, None), (0, 0.05)):
            o = core.call(pgc.psd_microporous, iso, psd_model=model, pore_geometry=geom, p_limits=lim, timeout=600)
            ev += 1
            lo, hi = (None, 0.2) if lim is None else lim
            idx = [i for i, x in enumerate(p) if (not lo or x >= lo) and (not hi or x < hi)]
            if not o.ok:
                ctx.violate(core.make_violation({'check': 'entry-raises', 'model': model, 'kind': o.kind}, f'psd_microporous({model},{geom},{lim}) {o.brief()}', {}))
                continue
            nt += 1
            if tuple(o.value['limits']) != (idx[0], idx[-1]):
                ctx.violate(core.make_violation({'check': 'entry-limits', 'model': model}, f'psd_microporous limits {lim}: used {o.value["limits"]}, points inside {(idx[0], idx[-1])}', {}))
                continue
            fn = psd_micro.psd_horvath_kawazoe if model.startswith('HK') else psd_micro.psd_horvath_kawazoe_ry
            low = core.call(fn, p[idx], n[idx], 77.355, geom, ads, get_hk_model('Carbon(HK)'), model.endswith('CY'))
            if low.ok and (core.relerr(o.value['pore_widths'], low.value[0]) > 1e-9 or core.relerr(o.value['pore_volume_cumulative'], low.value[2]) > 1e-9):
                ctx.violate(core.make_violation({'check': 'entry-vs-lowlevel', 'model': model}, f'psd_microporous({model},{geom},{lim}) differs from the low-level function on the same points', {}))
    # data that start with the measured (0, 0) origin: the positive-pressure points keep their widths and their volumes
    for model, geom in (('HK', 'slit'), ('HK', 'cylinder'), ('HK', 'sphere'), ('RY', 'slit')):
        for lim in (None, (None, None), (0, 0.05)):
            without = core.call(pgc.psd_microporous, iso, psd_model=model, pore_geometry=geom, p_limits=lim, timeout=600)
            iso0 = pygaps.PointIsotherm(pressure=numpy.concatenate([[0.0], p]), loading=numpy.concatenate([[0.0], n]), material='c17', adsorbate='N2',
                                        temperature=77.355, pressure_mode='relative', loading_basis='molar', loading_unit='mmol', material_basis='mass', material_unit='g')
            with_o = core.call(pgc.psd_microporous, iso0, psd_model=model, pore_geometry=geom, p_limits=lim, timeout=600)
            ev += 1
            if not without.ok:
                continue
            nt += 1
            ww, wo = (numpy.asarray(with_o.value['pore_widths']), numpy.asarray(without.value['pore_widths'])) if with_o.ok else (None, None)
            bad = not with_o.ok or len(ww) != len(wo) + 1 or core.relerr(ww[1:], wo) > 1e-6 or \
                core.relerr(numpy.asarray(with_o.value['pore_volume_cumulative'])[1:], without.value['pore_volume_cumulative']) > 1e-9
            if bad:
                ctx.violate(core.make_violation(
                    {'check': 'origin-point-shifts-results', 'model': model},
                    f'psd_microporous({model},{geom},{lim}) on data starting with the (0, 0) point: widths {list(numpy.round(ww, 4)) if with_o.ok else with_o.brief()} / volumes '
                    f'{list(numpy.round(with_o.value["pore_volume_cumulative"], 5)) if with_o.ok else ""}; the same data without that point give widths {list(numpy.round(wo, 4)) if with_o.ok else ""} / volumes '
                    f'{list(numpy.round(without.value["pore_volume_cumulative"], 5))} (expected: identical for the positive-pressure points)', {}))
    # an explicit adsorbate parameter set given to the entry point is the one used (another density / molar-mass convention than the database's)
    for tag, over in (('other liquid density', dict(liquid_density=0.70)), ('other density and molar mass', dict(liquid_density=1.05, adsorbate_molar_mass=30.0)),
                      ('other diameter', dict(molecular_diameter=0.34))):
        ads2 = dict(ads, **over)
        o = core.call(pgc.psd_microporous, iso, psd_model='HK', pore_geometry='slit', p_limits=(None, None), adsorbate_model=dict(ads2), timeout=600)
        low = core.call(psd_micro.psd_horvath_kawazoe, p, n, 77.355, 'slit', ads2, get_hk_model('Carbon(HK)'), False)
        ev += 1
        if not low.ok:
            continue
        nt += 1
        if not o.ok or core.relerr(o.value['pore_widths'], low.value[0]) > 1e-9 or core.relerr(o.value['pore_volume_cumulative'], low.value[2]) > 1e-9:
            ctx.violate(core.make_violation({'check': 'explicit-adsorbate-model-not-used', 'what': tag},
                                            f'psd_microporous(HK, slit, adsorbate_model=<{tag}>): volumes {list(o.value["pore_volume_cumulative"][:3]) if o.ok else o.brief()[:100]} / widths '
                                            f'{list(o.value["pore_widths"][:3]) if o.ok else ""} but the low-level function with that parameter set gives {list(low.value[2][:3])} / {list(low.value[0][:3])}', {}))
    # a ModelIsotherm as input, stored in relative or in absolute pressure: each reported cumulative volume belongs to the reported width
    from pygaps.modelling import get_isotherm_model
    cN2 = ru.ads_consts(a.backend_name, 77.355)
    for pmode, punit in (('relative', None), ('absolute', 'bar'), ('absolute', 'kPa'), ('absolute', 'Pa')):
        m = get_isotherm_model('Langmuir')
        fac = 1.0 if pmode == 'relative' else cN2['ps'] / ru.P_UNITS[punit]      # pressure in stored units = relative pressure x fac
        m.params = {'K': 4000.0 / fac, 'n_m': 6.0 * ctx.scale}
        m.pressure_range = (1e-7 * fac, 0.9 * fac)
        m.loading_range = (0.0, 6.0 * ctx.scale)
        m.rmse = 0.0
        miso = pygaps.ModelIsotherm(model=m, material='c17', adsorbate='N2', temperature=77.355, pressure_mode=pmode, pressure_unit=punit, loading_basis='molar',
                                    loading_unit='mmol', material_basis='mass', material_unit='g')
        o = core.call(pgc.psd_microporous, miso, psd_model='HK', pore_geometry='slit', p_limits=(None, None), timeout=600)
        ev += 1
        if not o.ok:
            ctx.violate(core.make_violation({'check': 'entry-raises', 'model': 'HK', 'kind': o.kind, 'input': 'ModelIsotherm'}, f'psd_microporous(HK, slit) on a Langmuir ModelIsotherm stored in {pmode} {punit}: {o.brief()}', {}))
            continue
        nt += 1
        # invert each cumulative volume to its relative pressure through the model, and that pressure to its HK width through the published equation
        vol = numpy.asarray(o.value['pore_volume_cumulative'], dtype=float)
        wid = numpy.asarray(o.value['pore_widths'], dtype=float)
        nload = vol * 1000.0 * cN2['dl'] / cN2['M']
        nm, K_rel = m.params['n_m'], 4000.0
        prel = nload / (K_rel * (nm - nload))
        mat = dict(get_hk_model('Carbon(HK)'))
        w_from_p = []
        for q in prel:
            # bisection on the published slit equation (ln p increases with width)
            lo_, hi_ = (ads['molecular_diameter'] + mat['molecular_diameter']) * 1.0001, 60.0
            for _ in range(80):
                mid_ = 0.5 * (lo_ + hi_)
                if ref_hk_slit_lnp(mid_, 77.355, ads, mat) < math.log(q):
                    lo_ = mid_
                else:
                    hi_ = mid_
            w_from_p.append(0.5 * (lo_ + hi_) - mat['molecular_diameter'])
        w_from_p = numpy.array(w_from_p)
        # reported widths are mid-points of successive solved widths, volumes belong to the upper point of each interval
        okw = numpy.isfinite(w_from_p) & (prel > 0) & (prel < 0.9)
        if okw.sum() >= 5:
            bad = [(float(wid[i]), float(w_from_p[i - 1]) if i > 0 else None, float(w_from_p[i])) for i in range(1, len(wid))
                   if okw[i] and okw[i - 1] and not (min(w_from_p[i - 1], w_from_p[i]) * (1 - 2e-3) <= wid[i] <= max(w_from_p[i - 1], w_from_p[i]) * (1 + 2e-3))]
            if len(bad) > 0:
                ctx.violate(core.make_violation({'check': 'model-isotherm-volume-vs-width', 'stored': pmode if pmode == 'relative' else 'absolute'},
                                                f'psd_microporous(HK, slit) on a Langmuir ModelIsotherm stored in {pmode} {punit}: {len(bad)} reported widths do not lie between the HK widths '
                                                f'of the pressures at which the model reaches the neighbouring cumulative volumes, e.g. (reported, lower, upper) = {bad[0]}', {'stored': [pmode, punit]}))
    # the same adsorbate analysed at several temperatures in one process: volumes use the liquid density at EACH temperature
    for aname, temps in (('N2', (77.355, 90.0, 70.0, 77.355)),):     # the only shipped adsorbate with HK parameters and a backend
        a2 = pygaps.Adsorbate.find(aname)
        for T in temps:
            isoT = pygaps.PointIsotherm(pressure=p, loading=n, material='c17', adsorbate=aname, temperature=T, pressure_mode='relative', loading_basis='molar',
                                        loading_unit='mmol', material_basis='mass', material_unit='g')
            o = core.call(pgc.psd_microporous, isoT, psd_model='HK', pore_geometry='slit', p_limits=(None, None), timeout=600)
            ev += 1
            if not o.ok:
                ctx.violate(core.make_violation({'check': 'entry-raises', 'model': 'HK', 'kind': o.kind}, f'psd_microporous(HK, slit) for {aname} at {T} K {o.brief()}', {}))
                continue
            nt += 1
            c = ru.ads_consts(a2.backend_name, T)
            want = n[1:] * c['M'] / c['dl'] / 1000.0
            got = numpy.asarray(o.value['pore_volume_cumulative'])
            if len(got) != len(want) or core.relerr(got, want) > 1e-6:
                ctx.violate(core.make_violation({'check': 'volume-at-each-temperature', 'model': 'HK'},
                                                f'psd_microporous(HK, slit) for {aname} at {T} K (after analyses at {temps[:temps.index(T)]} K in the same process): cumulative volumes '
                                                f'{list(got[:3])} but loading x M / rho_liquid({T} K) = {list(want[:3])}', {'temperatures': temps}, want, got))
    ctx.add('isotherm_entry', ev, nt)


def run(ctx):
    jobs = []
    mats = ['Carbon(HK)', 'AlSiOxideIon', 'AlPhOxideIon', 'user dictionary']
    temps = [77.355, 87.3, 195.0, 298.0]
    for model in ('HK', 'HK-CY', 'RY', 'RY-CY'):
        for geom in ('slit', 'cylinder', 'sphere'):
            heavy = model.startswith('RY') and geom == 'cylinder'
            if heavy and ctx.quick:
                continue
            for mi, mat in enumerate(mats):
                for ai, ads in enumerate(ADSORBATES):
                    for ti, T in enumerate(temps):
                        # quick: a Latin-square style thinning (every value of every dimension occurs with every model x geometry)
                        if ctx.quick and (mi + ai + ti) % 4 != 0:
                            continue
                        if heavy and (mi + ai + ti) % 4 != 0:
                            continue
                        for prof in ('linear', 'concave', 'tied'):
                            jobs.append((model, geom, mat, ads, T, prof, ctx.scale))
    res = core.pmap(work, jobs, chunk=1)
    for r in res:
        ctx.add('hk_analyses', r['ev'], r['nt'])
        ctx.violate(r['viol'])
        ctx.track('published_slit_equation', r['worst_pub'], 1e-6)
    check_entry(ctx)
    ctx.cov['domain_sizes'] = {'analyses': len(jobs), 'models': 4, 'geometries': 3, 'adsorbents': 4, 'adsorbates': 5, 'temperatures': 4, 'profiles': 3, 'points_per_analysis': 12}
    ctx.cov['rule'] = ('4 models x 3 geometries x 4 adsorbent sets x 5 adsorbate sets x 4 temperatures x 3 loading profiles (linear, concave, linear over pairwise repeated pressures) x 12 pressures (quick: a quarter of the '
                       'adsorbent x adsorbate x temperature product per model x geometry, RY-cylinder only in thorough); for HK-slit the pressures are generated from a width lattice by '
                       'the independently implemented published equation; every solved width is compared with a 250-1500 point scan of the solver bracket.')
    ctx.require('analyses', len(jobs), 100)
    ctx.sample({'model': 'HK', 'geometry': 'slit', 'adsorbent': 'Carbon(HK)', 'adsorbate': 'N2', 'T': 77.355,
                'oracle': 'widths chosen on a lattice -> pressures by the published equation -> mapped back within 1e-6'})
    ctx.sample({'model': 'RY-CY', 'geometry': 'sphere', 'oracle': 'no scanned width in the bracket solves exp(phi - correction) = p better than the reported one'})
    ctx.assumptions += ['solver inputs/outputs observed by run-time rebinding of psd_micro._solve_hk(_cy); the potential closures themselves are the library\'s (only the slit HK potential has an independent reference)',
                        'the library refines bracketed roots with brentq: published-equation round trip judged at 1e-6 (the reference and the library differ by 8e-8 through their physical constants), roots at 1e-6 nm, monotonicity at 1e-7 nm']
