"""C08 — the SQLite store is a keyed collection over any operation history (DESIGN §4 C08; engine E1).

Explicit-state exploration of real database files: a state is (file, dict model); a transition
is a real public store call executed on a copy of the file, in two session modes (registries as at
import time / every universe item already registered in memory).  After every transition the
outcome kind, the raw tables (independent connection) and every retrieval are compared with the
dictionary model.
"""
import collections
import hashlib
import os
import shutil

from mc import core
from mc import engine_states
from mc import ref_store as rs

LEVEL = 'model_checking'

_BASE = {}


def base_registries():
    import pygaps
    if not _BASE:
        _BASE['ads'] = list(pygaps.ADSORBATE_LIST)
        _BASE['mat'] = list(pygaps.MATERIAL_LIST)
    return _BASE


def universe(mode):
    """Fresh universe objects; `mode` = 'fresh' (registries as at import) or 'registered' (items known in memory)."""
    import pygaps
    from pygaps.core.baseisotherm import BaseIsotherm
    base = base_registries()
    pygaps.ADSORBATE_LIST[:] = base['ads']
    pygaps.MATERIAL_LIST[:] = base['mat']
    u = {}
    u['a1'] = pygaps.Adsorbate('gasA', formula='A_{2}', molar_mass=10.5, alias=['ga', 'g-a'])
    u['a1b'] = pygaps.Adsorbate('gasA', formula='A_{3}', t_critical=123.25)
    u['a2'] = pygaps.Adsorbate('gasB')
    u['m1'] = pygaps.Material('matA', density=2.5, comment='hello')
    u['m1b'] = pygaps.Material('matA', density=3.5, batch='b-two')
    u['m2'] = pygaps.Material('matB')
    u['m1c'] = pygaps.Material('matA')          # the same item re-defined WITHOUT any property
    u['a1c'] = pygaps.Adsorbate('gasA')
    u['m1d'] = pygaps.Material('matA', density=9.75, comment='changed')     # ... with other VALUES of the same property types
    u['a1d'] = pygaps.Adsorbate('gasA', formula='A_{4}', molar_mass=11.5, alias=['ga'])
    if mode == 'registered':
        pygaps.ADSORBATE_LIST.extend([u['a1'], u['a2']])
        pygaps.MATERIAL_LIST.extend([u['m1'], u['m2']])
    mat1 = {'name': 'matA', 'density': 2.5, 'comment': 'hello'}
    u['i1'] = BaseIsotherm(material=dict(mat1), adsorbate='gasA', temperature=300.0, note='n1', val=1.5, **rs.UNITS)
    import pandas
    u['i2'] = pygaps.PointIsotherm(material='matB', adsorbate='gasA', temperature=310.5,
                                   isotherm_data=pandas.DataFrame({'pressure': [1.0, 2.0, 3.0, 2.0], 'loading': [1.0, 2.0, 3.0, 2.5],
                                                                   'enth': [5.0, 4.0, 3.0, 2.5]}),
                                   pressure_key='pressure', loading_key='loading',
                                   flag=True, operator='me', **rs.UNITS)
    u['i3'] = pygaps.ModelIsotherm(material='matB', adsorbate='gasB', temperature=77.5, model='Langmuir',
                                   pressure=[0.1, 0.5, 1.0, 2.0, 4.0], loading=[0.9, 3.3, 5.0, 6.7, 8.0],
                                   comment='fit', **rs.UNITS)
    # the material properties each isotherm was created with (a later retrieval may update a REGISTERED material object in place)
    u['_own_mat_rows'] = {k: rs.mat_rows(u[k].material) for k in ('i1', 'i2', 'i3')}
    return u


# ---------------------------------------------------------------------------
# alphabet: (label, implementation call, model transition)

def _ops():
    from pygaps.parsing import sqlite as q
    ops = []

    def add(label, fn, model):
        ops.append((label, fn, model))

    for k, ow, auto in [('a1', False, True), ('a2', False, True), ('a1', False, False), ('a1b', True, True), ('a2', True, True), ('a1c', True, True), ('a1d', True, True)]:
        add(f'adsorbate_to_db({k}, overwrite={ow}, autoinsert_properties={auto})',
            lambda u, p, k=k, ow=ow, auto=auto: q.adsorbate_to_db(u[k], db_path=p, overwrite=ow, autoinsert_properties=auto, verbose=False),
            lambda s, u, k=k, ow=ow, auto=auto: s.adsorbate_to(u[k].name, rs.ads_rows(u[k]), ow, auto))
    add('adsorbate_delete_db(a1 object)', lambda u, p: q.adsorbate_delete_db(u['a1'], db_path=p, verbose=False),
        lambda s, u: s.adsorbate_delete('gasA'))
    add("adsorbate_delete_db('gasB')", lambda u, p: q.adsorbate_delete_db('gasB', db_path=p, verbose=False),
        lambda s, u: s.adsorbate_delete('gasB'))
    for k, ow, auto in [('m1', False, True), ('m2', False, True), ('m1', False, False), ('m1b', True, True), ('m2', True, True), ('m1c', True, True), ('m1d', True, True)]:
        add(f'material_to_db({k}, overwrite={ow}, autoinsert_properties={auto})',
            lambda u, p, k=k, ow=ow, auto=auto: q.material_to_db(u[k], db_path=p, overwrite=ow, autoinsert_properties=auto, verbose=False),
            lambda s, u, k=k, ow=ow, auto=auto: s.material_to(u[k].name, rs.mat_rows(u[k]), ow, auto))
    add('material_delete_db(m1 object)', lambda u, p: q.material_delete_db(u['m1'], db_path=p, verbose=False),
        lambda s, u: s.material_delete('matA'))
    add("material_delete_db('matB')", lambda u, p: q.material_delete_db('matB', db_path=p, verbose=False),
        lambda s, u: s.material_delete('matB'))
    # the isotherm_property_type_* family addresses a table that the schema does not create: see check_iso_property_types
    fams = [('adsorbate', 'atypes', 'formula'), ('material', 'mtypes', 'density')]
    for fam, attr, referenced in fams:
        to = getattr(q, f'{fam}_property_type_to_db')
        de = getattr(q, f'{fam}_property_type_delete_db')
        t1 = {'type': 't1', 'unit': 'u', 'description': 'first'}
        t1b = {'type': 't1', 'unit': 'v', 'description': 'second'}
        add(f'{fam}_property_type_to_db(t1)', lambda u, p, to=to, t=t1: to(dict(t), db_path=p, verbose=False),
            lambda s, u, attr=attr, t=t1: s.type_to(attr, t))
        add(f'{fam}_property_type_to_db(t1 changed, overwrite=True)',
            lambda u, p, to=to, t=t1b: to(dict(t), db_path=p, overwrite=True, verbose=False),
            lambda s, u, attr=attr, t=t1b: s.type_to(attr, t, overwrite=True))
        t1c = {'type': 't1', 'unit': 'w'}          # an overwrite replaces the whole record: the description becomes empty
        add(f'{fam}_property_type_to_db(t1 unit only, overwrite=True)',
            lambda u, p, to=to, t=t1c: to(dict(t), db_path=p, overwrite=True, verbose=False),
            lambda s, u, attr=attr, t=t1c: s.type_to(attr, t, overwrite=True))
        add(f"{fam}_property_type_delete_db('t1')", lambda u, p, de=de: de('t1', db_path=p, verbose=False),
            lambda s, u, attr=attr: s.type_delete(attr, 't1'))
        if referenced:
            add(f"{fam}_property_type_delete_db('{referenced}')",
                lambda u, p, de=de, r=referenced: de(r, db_path=p, verbose=False),
                lambda s, u, attr=attr, r=referenced: s.type_delete(attr, r))
    for k in ('i1', 'i2', 'i3'):
        for am, aa in ([(True, True), (False, False), (True, False), (False, True)] if k == 'i1' else [(True, True), (False, False)]):
            add(f'isotherm_to_db({k}, autoinsert_material={am}, autoinsert_adsorbate={aa})',
                lambda u, p, k=k, am=am, aa=aa: q.isotherm_to_db(u[k], db_path=p, autoinsert_material=am,
                                                                autoinsert_adsorbate=aa, verbose=False),
                lambda s, u, k=k, am=am, aa=aa: s.isotherm_to(u[k].iso_id, rs.iso_record(u[k]), rs.mat_rows(u[k].material),
                                                              rs.ads_rows(u[k].adsorbate), am, aa))
    add('isotherm_delete_db(i1 object)', lambda u, p: q.isotherm_delete_db(u['i1'], db_path=p, verbose=False),
        lambda s, u: s.isotherm_delete(u['i1'].iso_id))
    add('isotherm_delete_db(i2.iso_id)', lambda u, p: q.isotherm_delete_db(u['i2'].iso_id, db_path=p, verbose=False),
        lambda s, u: s.isotherm_delete(u['i2'].iso_id))
    add('isotherm_delete_db(i3 object)', lambda u, p: q.isotherm_delete_db(u['i3'], db_path=p, verbose=False),
        lambda s, u: s.isotherm_delete(u['i3'].iso_id))

    def del_retrieved(u, p, k):
        got = sorted(q.isotherms_from_db(db_path=p, verbose=False), key=lambda i: (i.adsorbate.name, i.material.name, i.temperature))
        if k >= len(got):
            raise _NotEnabled()
        return q.isotherm_delete_db(got[k], db_path=p, verbose=False)

    def del_retrieved_model(s, u, k):
        recs = sorted(s.isos.items(), key=lambda kv: (kv[1]['adsorbate'], kv[1]['material'], kv[1]['temperature']))
        if k >= len(recs):
            return 'disabled'
        # identity includes the material's properties: if the material was overwritten in the file after the upload,
        # what "the stored isotherm" is becomes ambiguous -> not in the alphabet
        stored = {u[x].iso_id: x for x in ('i1', 'i2', 'i3')}
        own = rs.mat_rows(u[stored[recs[k][0]]].material)
        if own and not rs.rows_equal(s.mats.get(recs[k][1]['material'], []), own):
            return 'disabled'
        return s.isotherm_delete(recs[k][0])

    for k in (0, 1):
        add(f'isotherm_delete_db(retrieved[{k}])', lambda u, p, k=k: del_retrieved(u, p, k),
            lambda s, u, k=k: del_retrieved_model(s, u, k))
    return ops


class _NotEnabled(Exception):
    pass


OPS = None


def ops():
    global OPS
    if OPS is None:
        OPS = _ops()
    return OPS


# ---------------------------------------------------------------------------
# retrieval oracle

def retrieval_diffs(path, model, u, mode):
    """Compare every *_from_db with the dict model; returns list of (kind, text)."""
    from pygaps.parsing import sqlite as q
    out = []
    o = core.call(q.adsorbates_from_db, db_path=path, verbose=False)
    if not o.ok:
        out.append(('adsorbates_from_db-raises', o.brief()))
    else:
        got = {a.name: rs.ads_rows(a) for a in o.value}
        if set(got) != set(model.ads) or len(o.value) != len(model.ads):
            out.append(('adsorbates_from_db-keys', f'{sorted(got)} vs model {sorted(model.ads)}'))
        else:
            for n in got:
                if not rs.rows_equal(got[n], model.ads[n]):
                    out.append(('adsorbates_from_db-content', f'{n}: {got[n]} vs model {model.ads[n]}'))
    o = core.call(q.materials_from_db, db_path=path, verbose=False)
    if not o.ok:
        out.append(('materials_from_db-raises', o.brief()))
    else:
        got = {m.name: rs.mat_rows(m) for m in o.value}
        if set(got) != set(model.mats) or len(o.value) != len(model.mats):
            out.append(('materials_from_db-keys', f'{sorted(got)} vs model {sorted(model.mats)}'))
        else:
            for n in got:
                if not rs.rows_equal(got[n], model.mats[n]):
                    out.append(('materials_from_db-content', f'{n}: {got[n]} vs model {model.mats[n]}'))
    for fam, attr in (('adsorbate', 'atypes'), ('material', 'mtypes')):
        o = core.call(getattr(q, f'{fam}_property_types_from_db'), db_path=path, verbose=False)
        if not o.ok:
            out.append((f'{fam}_property_types_from_db-raises', o.brief()))
        else:
            got = {d['type']: (d.get('unit'), d.get('description')) for d in o.value}
            if got != getattr(model, attr) or len(o.value) != len(got):
                out.append((f'{fam}_property_types_from_db-content', f'{got} vs model {getattr(model, attr)}'))
    stored = {u[k].iso_id: k for k in u if k[0] == 'i' and hasattr(u[k], 'iso_id')}
    crits = [None, {'material': 'matB'}, {'adsorbate': 'gasA'}, {'material': 'matB', 'adsorbate': 'gasB'}, {'material': 'nope'}]
    for crit in crits:
        o = core.call(q.isotherms_from_db, criteria=crit, db_path=path, verbose=False)
        exp = {i for i, r in model.isos.items() if not crit or all(r[k] == v for k, v in crit.items())}
        if not o.ok:
            out.append(('isotherms_from_db-raises', f'criteria={crit}: {o.brief()}'))
            continue
        # a retrieved isotherm must EQUAL the stored one: same identifier
        for iso in o.value:
            rec = None
            # which stored record is it? match by the immutable key (adsorbate, material, temperature)
            for i, r in model.isos.items():
                if r['adsorbate'] == iso.adsorbate.name and r['material'] == iso.material.name \
                        and abs(r['temperature'] - iso._temperature) < 1e-9:
                    rec = i
            if rec is None:
                out.append(('isotherms_from_db-unknown-item', f'criteria={crit}: {iso!r}'))
                continue
            # the material properties held by the file may legitimately differ from the isotherm's own (overwrite)
            k = stored.get(rec)
            if k is None:       # an item outside the shared universe (C09's large upload): identifier only
                if iso.iso_id != rec:
                    out.append(('retrieved-isotherm-not-equal', f'{iso!r} (criteria={crit}): identifier {iso.iso_id} != stored {rec}'))
                continue
            own_rows = u.get('_own_mat_rows', {}).get(k, rs.mat_rows(u[k].material))
            same_mat = rs.rows_equal(model.mats.get(iso.material.name, []), own_rows) or not own_rows
            if iso.iso_id != rec and same_mat:
                d_g, d_e = iso.to_dict(), u[k].to_dict()
                diff = {kk: (d_g.get(kk), d_e.get(kk)) for kk in set(d_g) | set(d_e) if d_g.get(kk) != d_e.get(kk)}
                out.append(('retrieved-isotherm-not-equal', f'{k} (criteria={crit}): differing fields {diff}'))
        got_keys = sorted((i.adsorbate.name, i.material.name, round(i._temperature, 6)) for i in o.value)
        exp_keys = sorted((model.isos[i]['adsorbate'], model.isos[i]['material'], round(model.isos[i]['temperature'], 6)) for i in exp)
        if got_keys != exp_keys:
            out.append(('isotherms_from_db-selection', f'criteria={crit}: {got_keys} vs model {exp_keys}'))
    return out


# ---------------------------------------------------------------------------
# transitions

def state_dir():
    d = os.path.join(core.scratch(), 'states')
    os.makedirs(d, exist_ok=True)
    return d


_PARENT_DIR = None


def canon_of(model):
    return model.canon()


def expand_factory(parent_dir, modes, oplist=None, universe=None):
    universe = universe or globals()['universe']

    def expand(snap):
        path, model = snap
        out = {'succ': [], 'transitions': 0, 'viol': [], 'outcomes': collections.Counter()}
        work = os.path.join(core.scratch(), 'work.db')
        seen_sig = set()

        def report(kind, label, mode, what, exp=None, obs=None):
            sig = {'check': kind, 'op': label.split('(')[0], 'mode': mode}
            k = core.sig_key(sig) + what[:60]
            if k in seen_sig:
                return
            seen_sig.add(k)
            out['viol'].append(core.make_violation(sig, f'{label} [{mode} session]: {what}',
                                                   {'op': label, 'session_mode': mode}, exp, obs))

        for label, fn, mfn in (oplist if oplist is not None else ops()):
            results = {}
            for mode in modes:
                for ext in ('', '-journal', '-wal', '-shm'):
                    if os.path.exists(work + ext):
                        os.remove(work + ext)
                shutil.copyfile(path, work)
                u = universe(mode)
                m2 = model.copy()
                exp = mfn(m2, u)
                if exp == 'disabled':
                    continue
                o = core.call(fn, u, work)
                out['transitions'] += 1
                kind = 'ok' if o.ok else ('refused' if o.kind == 'ParsingError' else o.kind)
                out['outcomes'][(label.split('(')[0], kind)] += 1
                if exp != 'ok':
                    m2 = model.copy()
                bad = False
                if exp == 'either':
                    if kind not in ('ok', 'refused'):
                        report('wrong-outcome', label, mode, f'expected no-op or ParsingError, {o.brief()}'); bad = True
                elif kind != exp:
                    report('wrong-outcome', label, mode,
                           f'dictionary model says {exp!r}, implementation {o.brief()}', exp, o.brief()); bad = True
                raw = rs.read_raw(work)
                d = m2.diff(raw)
                if d and not bad:
                    report('tables-differ-from-model' if exp == 'ok' else 'refused-but-changed', label, mode,
                           '; '.join(d)[:600], None, d); bad = True
                if bad:
                    continue
                for rk, txt in retrieval_diffs(work, m2, universe(mode), mode):
                    report(rk, label, mode, txt[:600]); bad = True
                if bad:
                    continue
                results[mode] = m2.canon()
                if exp == 'ok':
                    h = hashlib.sha1(repr(m2.canon()).encode()).hexdigest()
                    dst = os.path.join(parent_dir, h + '.db')
                    if not os.path.exists(dst):
                        tmp = dst + f'.{os.getpid()}.tmp'
                        shutil.copyfile(work, tmp)
                        os.replace(tmp, dst)
                    out['succ'].append((label, (dst, m2)))
        return out
    return expand


def canon(snap):
    return snap[1].canon()


# ---------------------------------------------------------------------------
# keys that resemble one another: the store is keyed by the EXACT name

def universe_keys(mode):
    """The shared universe plus items whose names collide with other names under case folding or with an alias."""
    import pygaps
    from pygaps.core.baseisotherm import BaseIsotherm
    u = universe(mode)
    u['aU'] = pygaps.Adsorbate('GASA', formula='U_{2}')                 # differs from 'gasA' in capitalisation only
    u['aAl'] = pygaps.Adsorbate('ga', molar_mass=3.25)                  # named like an ALIAS of 'gasA'
    u['mU'] = pygaps.Material('MATA', density=7.5)
    u['mL'] = pygaps.Material('mata', comment='lower')
    if mode == 'registered':
        pygaps.ADSORBATE_LIST.extend([u['aU'], u['aAl']])
        pygaps.MATERIAL_LIST.extend([u['mU'], u['mL']])
    # (an isotherm's adsorbate NAME is resolved through the session's aliases, case-insensitively, by design: the isotherms here
    #  refer to resembling MATERIAL names only, which are exact keys)
    u['iU'] = BaseIsotherm(material={'name': 'MATA', 'density': 7.5}, adsorbate='gasB', temperature=300.0, note='upper', **rs.UNITS)
    u['iAl'] = BaseIsotherm(material={'name': 'mata', 'comment': 'lower'}, adsorbate='gasB', temperature=301.0, note='lower', **rs.UNITS)
    u['_own_mat_rows'].update({k: rs.mat_rows(u[k].material) for k in ('iU', 'iAl')})
    return u


def _ops_keys():
    from pygaps.parsing import sqlite as q
    out = []
    for k in ('a1', 'aU', 'aAl'):
        for ow in (False, True):
            out.append((f'adsorbate_to_db({k}, overwrite={ow})',
                        lambda u, p, k=k, ow=ow: q.adsorbate_to_db(u[k], db_path=p, overwrite=ow, verbose=False),
                        lambda s, u, k=k, ow=ow: s.adsorbate_to(u[k].name, rs.ads_rows(u[k]), ow, True)))
        out.append((f'adsorbate_delete_db({k} object)', lambda u, p, k=k: q.adsorbate_delete_db(u[k], db_path=p, verbose=False),
                    lambda s, u, k=k: s.adsorbate_delete(u[k].name)))
        out.append((f'adsorbate_delete_db({k} by name)', lambda u, p, k=k: q.adsorbate_delete_db(u[k].name, db_path=p, verbose=False),
                    lambda s, u, k=k: s.adsorbate_delete(u[k].name)))
    for k in ('m1', 'mU', 'mL'):
        for ow in (False, True):
            out.append((f'material_to_db({k}, overwrite={ow})',
                        lambda u, p, k=k, ow=ow: q.material_to_db(u[k], db_path=p, overwrite=ow, verbose=False),
                        lambda s, u, k=k, ow=ow: s.material_to(u[k].name, rs.mat_rows(u[k]), ow, True)))
        out.append((f'material_delete_db({k} object)', lambda u, p, k=k: q.material_delete_db(u[k], db_path=p, verbose=False),
                    lambda s, u, k=k: s.material_delete(u[k].name)))
        out.append((f'material_delete_db({k} by name)', lambda u, p, k=k: q.material_delete_db(u[k].name, db_path=p, verbose=False),
                    lambda s, u, k=k: s.material_delete(u[k].name)))
    for k in ('i1', 'iU', 'iAl'):
        for auto in (True, False):
            out.append((f'isotherm_to_db({k}, autoinsert_material={auto}, autoinsert_adsorbate={auto})',
                        lambda u, p, k=k, auto=auto: q.isotherm_to_db(u[k], db_path=p, autoinsert_material=auto,
                                                                      autoinsert_adsorbate=auto, verbose=False),
                        lambda s, u, k=k, auto=auto: s.isotherm_to(u[k].iso_id, rs.iso_record(u[k]), rs.mat_rows(u[k].material),
                                                                    rs.ads_rows(u[k].adsorbate), auto, auto)))
        out.append((f'isotherm_delete_db({k} object)', lambda u, p, k=k: q.isotherm_delete_db(u[k], db_path=p, verbose=False),
                    lambda s, u, k=k: s.isotherm_delete(u[k].iso_id)))
    return out


def check_keys(ctx, tpl):
    """BFS over histories of operations on keys that collide under case folding or with an alias of another item."""
    d = os.path.join(state_dir(), 'keys')
    os.makedirs(d, exist_ok=True)
    md = 3 if ctx.quick else 4
    oplist = _ops_keys()
    res = engine_states.explore([(tpl, rs.Store())], expand_factory(d, ['fresh', 'registered'], oplist, universe_keys), canon, max_depth=md)
    for v in res.violations:
        v['sig'] = dict(v['sig'], part='resembling-keys')
    ctx.violate(res.violations)
    ok = sum(n for (a, b), n in res.outcomes.items() if b == 'ok')
    ctx.add('resembling-keys', res.transitions, ok)
    ctx.cov['resembling_keys'] = {'states': res.states, 'transitions': res.transitions, 'depth_bound': md, 'alphabet_size': len(oplist),
                                  'outcomes': {f'{a}:{b}': n for (a, b), n in sorted(res.outcomes.items())}}
    if not res.violations:
        ctx.require('resembling-keys states', res.states, 60)


def check_iso_property_types(ctx, tpl):
    """The third property-type family on a freshly created database: upload, retrieve, duplicate, delete."""
    from pygaps.parsing import sqlite as q
    work = os.path.join(core.scratch(), 'ipt.db')
    shutil.copyfile(tpl, work)
    steps = [
        ('isotherm_property_type_to_db', lambda: q.isotherm_property_type_to_db({'type': 't1', 'unit': 'u', 'description': 'd'}, db_path=work, verbose=False), 'ok'),
        ('isotherm_property_types_from_db', lambda: q.isotherm_property_types_from_db(db_path=work, verbose=False), 'ok'),
        ('isotherm_property_type_to_db', lambda: q.isotherm_property_type_to_db({'type': 't1'}, db_path=work, verbose=False), 'refused'),
        ('isotherm_property_type_delete_db', lambda: q.isotherm_property_type_delete_db('t1', db_path=work, verbose=False), 'ok'),
        ('isotherm_property_type_delete_db', lambda: q.isotherm_property_type_delete_db('t1', db_path=work, verbose=False), 'refused'),
    ]
    n = 0
    for name, fn, exp in steps:
        o = core.call(fn)
        n += 1
        kind = 'ok' if o.ok else ('refused' if o.kind == 'ParsingError' else o.kind)
        if kind != exp:
            ctx.violate(core.make_violation(
                {'check': 'isotherm-property-types', 'op': name, 'outcome': kind},
                f'{name} on a freshly created database: dictionary model says {exp}, implementation {o.brief()}',
                {'op': name}, exp, o.brief(),
                unit_test=("import os, tempfile, logging, pygaps\npygaps.logger.setLevel(logging.CRITICAL)\n"
                           "from pygaps.utilities.sqlite_db_creator import db_create\nfrom pygaps.parsing import sqlite as q\n"
                           "p = os.path.join(tempfile.mkdtemp(), 'x.db'); db_create(p)\n"
                           "q.isotherm_property_type_to_db({'type': 't1'}, db_path=p, verbose=False)\n"
                           "assert [d['type'] for d in q.isotherm_property_types_from_db(db_path=p, verbose=False)] == ['t1']\n")))
            break
        if name.endswith('from_db') and o.ok and [d.get('type') for d in o.value] != ['t1']:
            ctx.violate(core.make_violation({'check': 'isotherm-property-types', 'op': name, 'outcome': 'content'},
                                            f'{name}: {o.value}', {'op': name}, ['t1'], o.value))
    ctx.add('isotherm_property_types', n, n)


def check_population(ctx, tpl):
    """A linear history beyond the retrieval batch size: N isotherms uploaded, all retrievable (with and without criteria)."""
    from pygaps.core.baseisotherm import BaseIsotherm
    from pygaps.parsing import sqlite as q
    universe('fresh')
    work = os.path.join(core.scratch(), 'population.db')
    shutil.copyfile(tpl, work)
    n = 230
    ids = set()
    for i in range(n):
        iso = BaseIsotherm(material='matP' if i % 2 else 'matQ', adsorbate='gasP', temperature=200.0 + i, seq=float(i), **rs.UNITS)
        o = core.call(q.isotherm_to_db, iso, db_path=work, verbose=False)
        if not o.ok:
            ctx.violate(core.make_violation({'check': 'population-upload', 'kind': o.kind}, f'upload number {i + 1} of distinct isotherms {o.brief()}', {'i': i}))
            return
        ids.add(iso.iso_id)
    for crit, exp in ((None, n), ({'material': 'matP'}, n // 2), ({'adsorbate': 'gasP'}, n), ({'material': 'matQ', 'adsorbate': 'gasP'}, n - n // 2)):
        universe('fresh')
        o = core.call(q.isotherms_from_db, criteria=crit, db_path=work, verbose=False)
        got = {i.iso_id for i in o.value} if o.ok else set()
        if not o.ok or len(o.value) != exp or not got <= ids:
            ctx.violate(core.make_violation({'check': 'population-retrieval', 'criteria': sorted(crit) if crit else None},
                                            f'{n} isotherms uploaded; isotherms_from_db(criteria={crit}) returned {len(o.value) if o.ok else o.brief()} instead of {exp}',
                                            {'uploaded': n, 'criteria': crit}, exp, len(o.value) if o.ok else o.brief()))
    raw = rs.read_raw(work)
    if len(raw['isos']) != n or raw['orphans'] or raw['dangling']:
        ctx.violate(core.make_violation({'check': 'population-tables'}, f'raw tables hold {len(raw["isos"])} isotherms, orphans {raw["orphans"][:2]}', {}))
    ctx.add('population', n + 4, n + 4)


def check_value_alphabet(ctx, tpl):
    """Storable property values: an uploaded item comes back with equal content (value alphabet outside the BFS universe)."""
    import pandas
    import pygaps
    from pygaps.core.baseisotherm import BaseIsotherm
    from pygaps.parsing import sqlite as q
    ev = nt = 0
    work = os.path.join(core.scratch(), 'values.db')
    values = [('float', 2.5), ('negative float', -0.125), ('text', 'plain text'), ('unicode', 'µ-pore ✓'), ('bool', True), ('bool false', False),
              ('int', 5), ('big int', 12345678901), ('numeric text', '5'), ('numeric text sci', '1e3'), ('text true', 'TRUE'),
              # texts that merely resemble the store's own spelling of booleans / missing values
              ('text True', 'True'), ('text false', 'false'), ('text true with blank', 'true '), ('text None', 'None'), ('text nan', 'nan'), ('text yes', 'yes'),
              ('text with blanks', '  padded  '), ('empty text', '')]
    for vname, val in values:
        universe('fresh')
        shutil.copyfile(tpl, work)
        iso = BaseIsotherm(material='matV', adsorbate='gasV', temperature=300.0, prop=val, **rs.UNITS)
        o = core.call(q.isotherm_to_db, iso, db_path=work, verbose=False)
        ev += 1
        if not o.ok:
            if o.kind != 'ParsingError':
                ctx.violate(core.make_violation({'check': 'value-upload', 'value': vname, 'kind': o.kind}, f'isotherm with metadata {val!r} ({vname}): upload {o.brief()[:150]}', {'value': val}))
            continue
        universe('fresh')
        g = core.call(q.isotherms_from_db, db_path=work, verbose=False)
        nt += 1
        if not g.ok or len(g.value) != 1 or g.value[0].iso_id != iso.iso_id or type(g.value[0].properties.get('prop')) is not type(val):
            got = g.value[0].properties.get('prop') if g.ok and g.value else g.brief()
            ctx.violate(core.make_violation({'check': 'value-not-preserved', 'item': 'isotherm metadata', 'value': vname},
                                            f'isotherm metadata {val!r} ({vname}) comes back from the database as {got!r}: the retrieved isotherm is not equal to the stored one',
                                            {'value': val}, val, got))
        elif core.call(q.isotherm_delete_db, g.value[0], db_path=work, verbose=False).ok is False:
            ctx.violate(core.make_violation({'check': 'value-delete-through-retrieved', 'value': vname}, f'isotherm with metadata {val!r} cannot be deleted through the retrieved object', {}))
    # list-valued properties of materials and adsorbates
    for kind, mk, up, down in (('material', lambda: pygaps.Material('matL', density=1.5, tags=['a', 'b', 'c']), q.material_to_db, q.materials_from_db),
                               ('adsorbate', lambda: pygaps.Adsorbate('gasL', formula='X', alias=['x1', 'x2'], tags=['a', 'b']), q.adsorbate_to_db, q.adsorbates_from_db)):
        universe('fresh')
        shutil.copyfile(tpl, work)
        item = mk()
        o = core.call(up, item, db_path=work, verbose=False)
        g = core.call(down, db_path=work, verbose=False)
        ev += 1
        nt += 1
        ok = o.ok and g.ok and len(g.value) == 1 and rs.rows_equal(rs.prop_rows({k: v for k, v in g.value[0].to_dict().items() if k != 'name'}),
                                                                     rs.prop_rows({k: v for k, v in item.to_dict().items() if k != 'name'}))
        if not ok:
            ctx.violate(core.make_violation({'check': 'value-not-preserved', 'item': f'{kind} list property', 'value': 'list'},
                                            f'{kind} with a list-valued property comes back as {g.value[0].to_dict() if g.ok and g.value else g.brief()} instead of {item.to_dict()}', {}))
    # user-assigned branch marks of a point isotherm
    universe('fresh')
    shutil.copyfile(tpl, work)
    df = pandas.DataFrame({'pressure': [0.1, 0.4, 0.3, 0.2], 'loading': [1.0, 2.5, 2.0, 1.8], 'branch': [0, 0, 0, 0]})
    iso = pygaps.PointIsotherm(isotherm_data=df, pressure_key='pressure', loading_key='loading', material='matV', adsorbate='gasV', temperature=300.0, **rs.UNITS)
    o = core.call(q.isotherm_to_db, iso, db_path=work, verbose=False)
    universe('fresh')
    g = core.call(q.isotherms_from_db, db_path=work, verbose=False)
    ev += 1
    nt += 1
    if o.ok and (not g.ok or len(g.value) != 1 or g.value[0].data_raw['branch'].tolist() != [0, 0, 0, 0] or g.value[0].iso_id != iso.iso_id):
        ctx.violate(core.make_violation({'check': 'value-not-preserved', 'item': 'point isotherm branch marks', 'value': 'user-assigned'},
                                        f'user-assigned branch marks [0,0,0,0] on non-monotonic pressures come back as {g.value[0].data_raw["branch"].tolist() if g.ok and g.value else g.brief()}', {}))
    # content alphabet of whole isotherms: class x temperature (unit, non-integer values) x data columns with text / missing cells
    def pt(**kw):
        extra = kw.pop('extra', {})
        d = {'pressure': [0.1, 0.2, 0.3, 0.4], 'loading': [1.0, 2.0, 2.5, 2.75]}
        d.update(extra)
        return pygaps.PointIsotherm(isotherm_data=pandas.DataFrame(d), pressure_key='pressure', loading_key='loading', material='matV', adsorbate='gasV', **dict(rs.UNITS, **kw))
    contents = [
        ('base, 25.2 °C', lambda: BaseIsotherm(material='matV', adsorbate='gasV', **dict(rs.UNITS, temperature=25.2, temperature_unit='°C'))),
        ('base, -127.8 °C', lambda: BaseIsotherm(material='matV', adsorbate='gasV', **dict(rs.UNITS, temperature=-127.8, temperature_unit='°C'))),
        ('base, 0.1 °C', lambda: BaseIsotherm(material='matV', adsorbate='gasV', **dict(rs.UNITS, temperature=0.1, temperature_unit='°C'))),
        ('base, 298.35 K', lambda: BaseIsotherm(material='matV', adsorbate='gasV', **dict(rs.UNITS, temperature=298.35))),
        ('point, 25.2 °C', lambda: pt(temperature=25.2, temperature_unit='°C')),
        ('point, text column with a missing cell in the middle', lambda: pt(temperature=300.0, extra={'note': ['start', None, 'ok', 'end']})),
        ('point, text column with a missing first cell', lambda: pt(temperature=300.0, extra={'note': [None, 'a', 'b', 'c']})),
        ('point, numeric column with missing cells', lambda: pt(temperature=300.0, extra={'enth': [5.0, float('nan'), 3.0, float('nan')]})),
        ('point, text and numeric columns', lambda: pt(temperature=300.0, extra={'note': ['a', 'b', 'c', 'd'], 'enth': [5.0, 4.0, 3.0, 2.0], 'alpha': [0.1, 0.2, 0.3, 0.4]})),
        ('model, 25.2 °C', lambda: pygaps.ModelIsotherm(pressure=[0.1, 0.5, 1.0, 2.0, 4.0], loading=[0.9, 3.3, 5.0, 6.7, 8.0], model='Langmuir', material='matV', adsorbate='gasV',
                                                        **dict(rs.UNITS, temperature=25.2, temperature_unit='°C'))),
    ]
    for cname, mk in contents:
        universe('fresh')
        shutil.copyfile(tpl, work)
        iso = mk()
        o = core.call(q.isotherm_to_db, iso, db_path=work, verbose=False)
        ev += 1
        if not o.ok:
            if o.kind != 'ParsingError':
                ctx.violate(core.make_violation({'check': 'content-upload', 'content': cname.split(',')[0], 'kind': o.kind}, f'isotherm ({cname}): upload {o.brief()[:150]}', {}))
            continue
        nt += 1
        universe('fresh')
        g = core.call(q.isotherms_from_db, db_path=work, verbose=False)
        same = g.ok and len(g.value) == 1 and g.value[0].iso_id == iso.iso_id and g.value[0] == iso
        if not same:
            got = g.value[0] if g.ok and g.value else None
            detail = g.brief()[:120] if got is None else {k: (iso.to_dict().get(k), got.to_dict().get(k)) for k in set(iso.to_dict()) | set(got.to_dict())
                                                           if repr(iso.to_dict().get(k)) != repr(got.to_dict().get(k))}
            if got is not None and hasattr(iso, 'data_raw') and not detail:
                detail = {c: (iso.data_raw[c].tolist(), got.data_raw[c].tolist() if c in got.data_raw else None) for c in iso.data_raw.columns
                          if c not in got.data_raw or repr(iso.data_raw[c].tolist()) != repr(got.data_raw[c].tolist())}
            ctx.violate(core.make_violation({'check': 'content-not-preserved', 'content': cname},
                                            f'isotherm ({cname}) comes back from the database different from the stored one: {core.short(detail, 300)}', {'content': cname}))
            continue
        if core.call(q.isotherm_delete_db, g.value[0], db_path=work, verbose=False).ok is False:
            ctx.violate(core.make_violation({'check': 'content-delete-through-retrieved', 'content': cname}, f'isotherm ({cname}) cannot be deleted through the retrieved object', {}))
        # selection by temperature uses the value as stored
        crit = core.call(q.isotherms_from_db, criteria={'temperature': iso._temperature}, db_path=work, verbose=False) if False else None
    ctx.add('value_alphabet', ev, nt)


def run(ctx):
    import pygaps
    base_registries()
    d = state_dir()
    tpl = os.path.join(d, 'template.db')
    rs.create_template(tpl)
    init = (tpl, rs.Store())
    modes = ['fresh', 'registered']
    md = 3 if ctx.quick else 6
    res = engine_states.explore([init], expand_factory(d, modes), canon, max_depth=md)
    ctx.violate(res.violations)
    check_iso_property_types(ctx, tpl)
    check_population(ctx, tpl)
    check_value_alphabet(ctx, tpl)
    check_keys(ctx, tpl)
    ctx.cov.update(states=res.states, transitions=res.transitions, traces_validated_against_impl=res.transitions,
                   max_depth=res.max_depth, level_sizes=res.level_sizes,
                   outcomes={f'{a}:{b}': n for (a, b), n in sorted(res.outcomes.items())},
                   alphabet_size=len(ops()), session_modes=modes,
                   exhaustive=True, depth_bound=md)
    ctx.cov['evaluations'] = res.transitions
    ctx.cov['distinct_nontrivial'] = sum(n for (a, b), n in res.outcomes.items() if b == 'ok')
    ctx.cov['rule'] = ('BFS over database-file states (canonical = logical table contents); every public store operation of the '
                       'alphabet is executed from every state on a copy of the file in two session modes; outcome kind, raw tables '
                       'and all retrievals compared with the dictionary model. Non-trivial = operation accepted.')
    if not res.violations:
        ctx.require('states', res.states, 100 if ctx.quick else 1000)
        for (opn, kind), n in res.outcomes.items():
            pass
        names = {a for (a, b) in res.outcomes}
        for a in names:
            if kind_count(res.outcomes, a, 'ok') == 0 or kind_count(res.outcomes, a, 'refused') == 0:
                ctx.notes.append(f'operation {a} was never both accepted and refused')
    deep = sorted(res.depth, key=lambda k: -res.depth[k])[:2]
    for k in deep:
        ctx.sample({'history_to_a_deepest_state': res.history(k)})
    ctx.sample({'operation': ops()[0][0], 'modes': modes})
    ctx.assumptions += [
        'universe: 2 adsorbates (one with alias list + 2 properties, overwrite variant), 2 materials, 3 isotherms (base, point with extra column, model), property types t1/formula/density',
        'property values are cleanly storable (floats, non-numeric text, booleans); the value alphabet is a separate part',
        f'history depth bound {md} (states at the bound are checked but not expanded)',
    ]


def kind_count(outcomes, op, kind):
    return sum(n for (a, b), n in outcomes.items() if a == op and b == kind)
