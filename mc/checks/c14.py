"""C14 — linearised characterisation methods recover their generating parameters (DESIGN §4 C14; engine E2).

BET, Langmuir, t-plot, alpha-s, Dubinin-Radushkevich/Astakhov on data generated exactly from their own governing equation:
generating parameter lattices x sampling grids x cross-sections x manual limits (two-sided off-grid, one-sided) x raw-array and
isotherm entry points (two stored representations); window selection; refusal below three points; the automatic BET window.
"""
import itertools
import math

import numpy

from mc import core
from mc import ref_units as ru

LEVEL = 'exploration'
NA = 6.02214076e23
R = 8.314462618
TOL = 1e-8


def grids(scale):
    g = {}
    for n in (5, 12, 40, 100):
        for end in (0.3, 0.6, 0.95):
            g[(n, 'lin', end)] = numpy.linspace(0.004 * scale, end, n)
            g[(n, 'log', end)] = numpy.geomspace(0.002 * scale, end, n)
    return g


def bet_n(p, nm, C):
    return nm * C * p / ((1 - p) * (1 - p + C * p))


def rel(a, b):
    return abs(a - b) / max(abs(b), 1e-300)


def unchanged(arrs, copies):
    return all(numpy.array_equal(a, b) for a, b in zip(arrs, copies))


def window_expected(p, lo, hi):
    """Indices (first, last) of the points strictly inside the limits (None = open side)."""
    idx = [i for i, x in enumerate(p) if (lo is None or x > lo) and (hi is None or x < hi)]
    return (idx[0], idx[-1]) if idx else None, len(idx)


def limit_pairs(p):
    """Off-grid limits from a 6-value lattice of positions between data points, + one-sided."""
    n = len(p)
    pos = sorted({max(0, min(n - 2, int(f * (n - 1)))) for f in (0.0, 0.15, 0.35, 0.55, 0.75, 0.95)})
    mids = [(p[i] + p[i + 1]) / 2 for i in pos]
    pairs = [(a, b) for a, b in itertools.combinations(mids, 2)]
    pairs += [(None, mids[-2]), (mids[1], None), (None, None), (0, mids[-1])]
    return pairs


# --------------------------------------------------------------------------------------------------------------------
def work_bet(arg):
    from pygaps.characterisation.area_bet import area_BET_raw
    nm, C, gkey, scale, sigma = arg
    p = grids(scale)[gkey]
    n = bet_n(p, nm, C)
    out = {'ev': 0, 'nt': 0, 'viol': [], 'worst': 0.0}
    seen = set()

    def v(check, what, exp=None, obs=None, extra=None):
        sig = {'check': check, 'method': 'BET'}
        if extra:
            sig.update(extra)
        k = core.sig_key(sig)
        if k in seen:
            return
        seen.add(k)
        out['viol'].append(core.make_violation(sig, f'BET n_m={nm} C={C} grid={gkey}: {what}', {'n_m': nm, 'C': C, 'grid': gkey}, exp, obs))

    for lim in [None] + limit_pairs(p):
        pc, nc = p.copy(), n.copy()
        o = core.call(area_BET_raw, pc, nc, sigma, lim)
        out['ev'] += 1
        if not unchanged((pc, nc), (p, n)):
            v('inputs-modified', 'the raw function changed its input arrays')
        if lim is None:
            # the Rouquerol transform of exact BET data keeps increasing: window ends at the last point, starts at 0.1 * that pressure
            exp_last = len(p) - 1
            exp_first = int(numpy.searchsorted(p, 0.1 * p[exp_last]))
            npts = exp_last - exp_first + 1
        else:
            lo = lim[0] if lim[0] else None
            hi = lim[1] if lim[1] else None
            w, npts = window_expected(p, lo, hi)
            exp_first, exp_last = w if w else (None, None)
        if npts < 3:
            if o.ok or o.kind != 'CalculationError':
                v('few-points-not-refused', f'limits {lim} leave {npts} points but the call {o.brief()}', 'CalculationError', o.brief())
            continue
        if not o.ok:
            v('raises', f'limits {lim}: {o.brief()}', None, o.brief(), {'kind': o.kind})
            continue
        area, c_const, n_mono, p_mono, slope, intercept, mn, mx, cc = o.value
        out['nt'] += 1
        if (int(mn), int(mx)) != (exp_first, exp_last):
            v('window', f'limits {lim}: fitted region is indices {(int(mn), int(mx))} but the points strictly inside the limits are {(exp_first, exp_last)}',
              (exp_first, exp_last), (int(mn), int(mx)), {'limits': 'automatic' if lim is None else ('one-sided' if (not lim[0] or not lim[1]) else 'two-sided')})
            continue
        errs = [rel(n_mono, nm), rel(c_const, C), rel(p_mono, 1 / (math.sqrt(C) + 1)), rel(area, nm * sigma * NA * 1e-18)]
        out['worst'] = max(out['worst'], max(errs))
        if max(errs) > 1e-6:
            v('recovery', f'limits {lim}: n_m={n_mono}, C={c_const}, p_m={p_mono}, area={area} (generator n_m={nm}, C={C}, area={nm * sigma * NA * 1e-18})',
              [nm, C], [n_mono, c_const], {})
    return out


def work_bet_auto(arg):
    """Automatic window on data whose Rouquerol transform n(1-p) has an interior maximum."""
    from pygaps.characterisation.area_bet import area_BET_raw
    nm, C, npts, scale = arg
    out = {'ev': 0, 'nt': 0, 'viol': []}
    p = numpy.linspace(0.01 * scale, 0.9, npts)
    cap = bet_n(numpy.array(0.35), nm, C)
    n = numpy.minimum(bet_n(p, nm, C), cap * (1 + 0.2 * (p - 0.35)))       # BET up to 0.35, then a slowly rising plateau
    roq = n * (1 - p)
    first_dec = next((i for i in range(len(roq) - 1) if roq[i] > roq[i + 1]), None)
    o = core.call(area_BET_raw, p, n, 0.162, None)
    out['ev'] += 1
    if first_dec is None or not o.ok:
        return out
    out['nt'] += 1
    mn, mx = int(o.value[6]), int(o.value[7])
    ok_last = mx == first_dec + 1          # the reported end index is the first point after the maximum of n(1-p) (exclusive end)
    ok_first = mn == int(numpy.searchsorted(p, 0.1 * p[mx]))
    if not ok_last or not ok_first:
        out['viol'].append(core.make_violation({'check': 'automatic-window', 'method': 'BET', 'side': 'end' if not ok_last else 'start'},
                                               f'BET automatic window {(mn, mx)}: n(1-p) stops increasing at index {first_dec}; start must be the first point >= 0.1 p[end]',
                                               {'n_m': nm, 'C': C, 'points': npts}, [first_dec, first_dec + 1], [mn, mx]))
    return out


def check_bet_auto_family(ctx):
    """Automatic window on every regular grid of 20..100 points for low-capacity Langmuir-type data: the first decrease of n(1-p) can be
    arbitrarily small (two points almost symmetric around the maximum) and still ends the window there."""
    from pygaps.characterisation.area_bet import area_BET_raw
    ev = nt = 0
    for nm, K in ((1e-4, 100.0), (3e-5, 40.0), (2e-3, 400.0)):
        for npts in range(20, 101):
            p = numpy.linspace(0.005, 0.9, npts)
            n = nm * ctx.scale * K * p / (1 + K * p)
            roq = n * (1 - p)
            fd = next((i for i in range(len(roq) - 1) if roq[i] > roq[i + 1]), None)
            o = core.call(area_BET_raw, p, n, 0.162, None)
            ev += 1
            if fd is None or not o.ok:
                continue
            nt += 1
            mn, mx = int(o.value[6]), int(o.value[7])
            if mx != fd + 1 or mn != int(numpy.searchsorted(p, 0.1 * p[mx])):
                ctx.violate(core.make_violation({'check': 'automatic-window', 'method': 'BET', 'side': 'end' if mx != fd + 1 else 'start', 'data': 'Langmuir family'},
                                                f'BET automatic window {(mn, mx)} on a {npts}-point grid (Langmuir n_m={nm * ctx.scale:g} mol/g, K={K}): n(1-p) first decreases after index {fd} '
                                                f'(by {roq[fd] - roq[fd + 1]:.3g}), expected end {fd + 1}', {'points': npts, 'n_m': nm, 'K': K}, fd + 1, mx))
    ctx.add('bet_automatic_window_family', ev, nt)


def work_langmuir(arg):
    from pygaps.characterisation.area_lang import area_langmuir_raw
    nm, K, gkey, scale, sigma = arg
    p = grids(scale)[gkey]
    n = nm * K * p / (1 + K * p)
    out = {'ev': 0, 'nt': 0, 'viol': [], 'worst': 0.0}
    seen = set()

    def v(check, what, exp=None, obs=None, extra=None):
        sig = {'check': check, 'method': 'Langmuir'}
        if extra:
            sig.update(extra)
        k = core.sig_key(sig)
        if k in seen:
            return
        seen.add(k)
        out['viol'].append(core.make_violation(sig, f'Langmuir n_m={nm} K={K} grid={gkey}: {what}', {'n_m': nm, 'K': K, 'grid': gkey}, exp, obs))

    for lim in [None] + limit_pairs(p):
        o = core.call(area_langmuir_raw, p.copy(), n.copy(), sigma, lim)
        out['ev'] += 1
        if lim is None:
            lo, hi = p[-1] * 0.05, p[-1] * 0.9
            exp_first = int(numpy.searchsorted(p, lo))
            exp_last = int(numpy.searchsorted(p, hi)) - 1
            npts = exp_last - exp_first + 1
        else:
            w, npts = window_expected(p, lim[0] if lim[0] else None, lim[1] if lim[1] else None)
            exp_first, exp_last = w if w else (None, None)
        if npts < 3:
            if o.ok or o.kind != 'CalculationError':
                v('few-points-not-refused', f'limits {lim} leave {npts} points but the call {o.brief()}', 'CalculationError', o.brief())
            continue
        if not o.ok:
            v('raises', f'limits {lim}: {o.brief()}', None, o.brief(), {'kind': o.kind})
            continue
        area, kc, n_mono, slope, intercept, mn, mx, cc = o.value
        out['nt'] += 1
        if lim is not None and (int(mn), int(mx)) != (exp_first, exp_last):
            v('window', f'limits {lim}: fitted region {(int(mn), int(mx))}, points strictly inside {(exp_first, exp_last)}', (exp_first, exp_last), (int(mn), int(mx)),
              {'limits': 'one-sided' if (not lim[0] or not lim[1]) else 'two-sided'})
            continue
        errs = [rel(n_mono, nm), rel(kc, K), rel(area, nm * sigma * NA * 1e-18)]
        out['worst'] = max(out['worst'], max(errs))
        if max(errs) > 1e-6:
            v('recovery', f'limits {lim}: n_m={n_mono}, K={kc}, area={area} (generator n_m={nm}, K={K})', [nm, K], [n_mono, kc])
    return out


def work_tplot(arg):
    from pygaps.characterisation.models_thickness import get_thickness_model
    from pygaps.characterisation.t_plots import t_plot_raw
    slope, intercept, model, gkey, scale = arg
    p = grids(scale)[gkey]
    tm = (lambda x: 0.3 + 1.1 * numpy.sqrt(x)) if model == 'callable' else get_thickness_model(model)
    t = tm(p)
    n = slope * t + intercept
    M, rho = 28.0134, 0.8064
    out = {'ev': 0, 'nt': 0, 'viol': [], 'worst': 0.0}
    seen = set()

    def v(check, what, exp=None, obs=None, extra=None):
        sig = {'check': check, 'method': 't-plot'}
        if extra:
            sig.update(extra)
        k = core.sig_key(sig)
        if k in seen:
            return
        seen.add(k)
        out['viol'].append(core.make_violation(sig, f't-plot slope={slope} intercept={intercept} model={model} grid={gkey}: {what}', {'model': model, 'grid': gkey}, exp, obs))

    ts = numpy.sort(t)
    lims = [None]
    if len(p) >= 12:
        mids = [(ts[i] + ts[i + 1]) / 2 for i in (1, len(ts) // 3, 2 * len(ts) // 3, len(ts) - 3)]
        lims += [(a, b) for a, b in itertools.combinations(mids, 2)]
    for lim in lims:
        o = core.call(t_plot_raw, n.copy(), p.copy(), tm, rho, M, lim)
        out['ev'] += 1
        if not o.ok:
            v('raises', f'limits {lim}: {o.brief()}', None, o.brief(), {'kind': o.kind})
            continue
        results, curve = o.value
        if core.relerr(curve, t) > 1e-12:
            v('thickness-curve', 'the returned thickness curve is not the thickness model evaluated at the pressures')
        if lim is not None:
            inside = [i for i, x in enumerate(t) if lim[0] < x < lim[1]]
            if len(results) != 1:
                if len(inside) >= 2:
                    v('no-result', f'limits {lim} contain {len(inside)} points but {len(results)} results were returned')
                continue
            if list(results[0]['section']) != inside:
                v('window', f'limits {lim}: fitted section {list(results[0]["section"])} but the points strictly inside are {inside}', inside, list(results[0]['section']))
                continue
        for r in results:
            out['nt'] += 1
            nscale = abs(slope * t.max()) + abs(intercept)          # size of the loadings: the natural scale for the intercept
            errs = [rel(r['slope'], slope), abs(r['intercept'] - intercept) / nscale,
                    rel(r['area'], slope * M / rho), abs(r['adsorbed_volume'] - intercept * M / rho / 1000) / (nscale * M / rho / 1000)]
            out['worst'] = max(out['worst'], max(errs[:1] + errs[2:3]))
            if errs[0] > 1e-7 or errs[2] > 1e-7 or errs[1] > 1e-6 or errs[3] > 1e-6:
                v('recovery', f'limits {lim}: {dict((k, r[k]) for k in ("slope", "intercept", "area", "adsorbed_volume"))} (generator slope {slope}, intercept {intercept}, '
                              f'area {slope * M / rho}, volume {intercept * M / rho / 1000})', [slope, intercept], [r['slope'], r['intercept']])
    if len(lims) > 2:
        e2, n2 = _tplot_orders(slope, intercept, tm, p, lims[2], rho, M, v)
        out['ev'] += e2
        out['nt'] += n2
    return out


def _tplot_orders(slope, intercept, tm, p, lim, rho, M, v):
    """Points handed over in another order (a desorption run in instrument order, adsorption followed by desorption, shuffled):
    the fitted section is still exactly the set of points strictly inside the limits."""
    from pygaps.characterisation.t_plots import t_plot_raw
    ev = nt = 0
    perm = numpy.array([(7 * i + 3) % len(p) for i in range(len(p))]) if numpy.gcd(7, len(p)) == 1 else numpy.arange(len(p))[::-1]
    orders = {'descending': numpy.arange(len(p))[::-1], 'up then down': numpy.concatenate([numpy.arange(len(p)), numpy.arange(len(p))[::-1][1:]]), 'shuffled': perm}
    for oname, idx in orders.items():
        pp = p[idx]
        tt = tm(pp)
        nn = slope * tt + intercept
        o = core.call(t_plot_raw, nn.copy(), pp.copy(), tm, rho, M, lim)
        ev += 1
        inside = [i for i, x in enumerate(tt) if lim[0] < x < lim[1]]
        if len(inside) < 3:
            continue
        nt += 1
        if not o.ok or len(o.value[0]) != 1:
            v('window', f'points in {oname} order, limits {lim}: {o.brief()[:120] if not o.ok else "%d results" % len(o.value[0])}', None, None, {'order': oname})
            continue
        r = o.value[0][0]
        if sorted(int(i) for i in r['section']) != inside:
            v('window', f'points in {oname} order, limits {lim}: fitted section {sorted(int(i) for i in r["section"])[:12]} but the points strictly inside are {inside[:12]}', inside,
              list(r['section']), {'order': oname})
        elif rel(r['slope'], slope) > 1e-7:
            v('recovery', f'points in {oname} order, limits {lim}: slope {r["slope"]} (generator {slope})', slope, r['slope'], {'order': oname})
    return ev, nt


def work_alphas(arg):
    from pygaps.characterisation.alphas_plots import alpha_s_raw
    kfac, refarea, gkey, scale = arg
    p = grids(scale)[gkey]
    out = {'ev': 0, 'nt': 0, 'viol': []}
    ref = 2.0 * 30.0 * p / (1 + 30.0 * p) + 1.5 * p          # a reference curve
    a04 = float(numpy.interp(0.4, p, ref)) if p[-1] >= 0.4 else float(ref[len(ref) // 2])
    M, rho = 28.0134, 0.8064
    alpha = ref / a04
    s = numpy.sort(alpha)
    lims = [None]
    if len(p) >= 12:
        lims += [((s[2] + s[3]) / 2, (s[-3] + s[-2]) / 2), ((s[len(s) // 3] + s[len(s) // 3 + 1]) / 2, (s[-2] + s[-1]) / 2)]
    for lim, offset in [(l, off) for l in lims for off in (0.0, 0.35 * a04, 1.2 * a04)]:
        # loading = k * ref + offset = (k a04) alpha + offset: a filled-micropore offset shows as the intercept (pore volume)
        load = kfac * ref + offset
        lc, rc = load.copy(), ref.copy()
        o = core.call(alpha_s_raw, lc, rc, a04, refarea, rho, M, lim)
        out['ev'] += 1
        if not (numpy.array_equal(lc, load) and numpy.array_equal(rc, ref)):
            out['viol'].append(core.make_violation({'check': 'inputs-modified', 'method': 'alpha-s'}, 'alpha_s_raw changed its input arrays (a second analysis with the same reference differs)',
                                                   {'grid': gkey}))
        if not o.ok:
            out['viol'].append(core.make_violation({'check': 'raises', 'method': 'alpha-s', 'kind': o.kind}, f'alpha_s_raw limits {lim}: {o.brief()}', {'grid': gkey}))
            continue
        results, curve = o.value
        if core.relerr(curve, alpha) > 1e-12:
            out['viol'].append(core.make_violation({'check': 'alpha-curve', 'method': 'alpha-s'}, 'alpha curve is not reference / reference(reducing pressure)', {'grid': gkey}, alpha, curve))
        for r in results:
            out['nt'] += 1
            # loading = k * ref = k * a04 * alpha: slope = k a04, area = refarea / a04 * slope = refarea * k
            nscale = abs(kfac * a04) + abs(offset)
            vol = offset * M / rho / 1000
            if rel(r['slope'], kfac * a04) > 1e-7 or rel(r['area'], refarea * kfac) > 1e-7 or abs(r['intercept'] - offset) > 1e-7 * nscale \
                    or abs(r['adsorbed_volume'] - vol) > 1e-7 * nscale * M / rho / 1000:
                out['viol'].append(core.make_violation({'check': 'recovery', 'method': 'alpha-s', 'limits': 'manual' if lim else 'automatic', 'offset': bool(offset)},
                                                       f'alpha-s of {"a curve" if not offset else f"a curve + {offset:.4g}"} against {"itself" if kfac == 1 else f"the reference scaled by 1/{kfac}"} (limits {lim}): slope {r["slope"]}, intercept {r["intercept"]}, area {r["area"]}, '
                                                       f'volume {r["adsorbed_volume"]}; expected slope {kfac * a04}, intercept {offset}, area {refarea * kfac}, volume {vol}',
                                                       {'grid': gkey, 'scale': kfac}, [refarea * kfac, vol], [r['area'], r['adsorbed_volume']]))
    return out


def work_da(arg):
    from pygaps.characterisation.dr_da_plots import da_plot_raw
    V0, E, m, gkey, search, scale = arg
    p = grids(scale)[gkey]
    T, M, rho = 77.355, 28.0134, 0.8064
    n = V0 * rho / M * numpy.exp(-((R * T * numpy.log(1 / p)) / (E * 1000)) ** m)
    out = {'ev': 0, 'nt': 0, 'viol': [], 'worst': 0.0}
    seen = set()

    def v(check, what, exp=None, obs=None, extra=None):
        sig = {'check': check, 'method': 'DA' if m != 2 or search else 'DR'}
        if extra:
            sig.update(extra)
        k = core.sig_key(sig)
        if k in seen:
            return
        seen.add(k)
        out['viol'].append(core.make_violation(sig, f'DA V0={V0} E={E} m={m} grid={gkey} search={search}: {what}', {'grid': gkey}, exp, obs))

    lims_da = [None] + limit_pairs(p)[:6] + limit_pairs(p)[-4:]
    if search:
        # the exponent search is only well-conditioned on a window spanning most of the curve
        lims_da = [None, (None, None)]
    for lim in lims_da:
        o = core.call(da_plot_raw, p.copy(), n.copy(), T, M, rho, None if search else m, lim)
        out['ev'] += 1
        if lim is None:
            npts, w = len(p), (0, len(p) - 1)
        else:
            w, npts = window_expected(p, lim[0] if lim[0] else None, lim[1] if lim[1] else None)
        if npts < 3:
            if o.ok or o.kind != 'CalculationError':
                v('few-points-not-refused', f'limits {lim} leave {npts} points but the call {o.brief()}', 'CalculationError', o.brief())
            continue
        if not o.ok:
            v('raises', f'limits {lim}: {o.brief()}', None, o.brief(), {'kind': o.kind})
            continue
        vol, pot, ex, slope, intercept, mn, mx, cc = o.value
        out['nt'] += 1
        if (int(mn), int(mx)) != tuple(w):
            v('window', f'limits {lim}: fitted region {(int(mn), int(mx))}, points strictly inside {tuple(w)}', tuple(w), (int(mn), int(mx)),
              {'limits': 'automatic' if lim is None else ('one-sided' if (not lim[0] or not lim[1]) else 'two-sided')})
            continue
        tol = 1e-3 if search else 1e-7
        errs = [rel(vol, V0), rel(pot, E), rel(ex, m)]
        if search and npts < 8:
            continue          # the exponent search on a handful of points is ill-conditioned: not judged
        out['worst'] = max(out['worst'], max(errs) if not search else 0.0)
        if max(errs) > tol:
            extra = {'exponent': 'searched' if search else 'fixed'}
            if search and (abs(ex - 3) < 1e-4 or abs(ex - 1) < 1e-4):
                extra['search_ended_at_bound'] = True
            v('recovery', f'limits {lim}: volume {vol}, energy {pot}, exponent {ex} (generator {V0}, {E}, {m})', [V0, E, m], [vol, pot, ex], extra)
    # the exponent is searched on the points inside the limits only: exact DA data inside, other (external-surface) uptake outside
    if search and len(p) >= 20:
        for frac in (0.6, 0.8):
            cut = (p[int(frac * len(p))] + p[int(frac * len(p)) + 1]) / 2
            n2 = n + 0.5 * n.max() * numpy.maximum(0.0, p - cut) / max(p[-1] - cut, 1e-12)
            lim = (None, cut)
            w, npts = window_expected(p, None, cut)
            ref = core.call(da_plot_raw, p[:w[1] + 1].copy(), n[:w[1] + 1].copy(), T, M, rho, None, (None, None))
            o = core.call(da_plot_raw, p.copy(), n2.copy(), T, M, rho, None, lim)
            out['ev'] += 1
            if not ref.ok or npts < 8:
                continue
            out['nt'] += 1
            # differential: the same points alone (nothing outside) give the reference exponent
            if not o.ok or rel(o.value[2], ref.value[2]) > 1e-3 or rel(o.value[0], ref.value[0]) > 1e-3 or rel(o.value[1], ref.value[1]) > 1e-3:
                v('search-uses-points-outside-limits', f'upper limit {cut:.4g} with non-DA uptake above it: volume/energy/exponent {o.value[:3] if o.ok else o.brief()} but the points inside the '
                  f'limits alone give {ref.value[:3]} (generator {V0}, {E}, {m})', list(ref.value[:3]), list(o.value[:3]) if o.ok else o.brief())
    return out


def check_isotherm_entry(ctx):
    """The isotherm entry points on exact data stored in two representations."""
    import pygaps
    import pygaps.characterisation as pgc
    ev = nt = 0
    T = 77.355
    N2 = pygaps.Adsorbate.find('N2')
    c = ru.ads_consts(N2.backend_name, T)
    sigma = N2.get_prop('cross_sectional_area')
    p = numpy.linspace(0.01, 0.6, 40)
    reps = [dict(pressure_mode='relative', loading_basis='molar', loading_unit='mmol', material_basis='mass', material_unit='g'),
            dict(pressure_mode='absolute', pressure_unit='kPa', loading_basis='molar', loading_unit='cm3(STP)', material_basis='mass', material_unit='g'),
            dict(pressure_mode='absolute', pressure_unit='torr', loading_basis='mass', loading_unit='mg', material_basis='mass', material_unit='g')]

    def mk(n_mmol, rep):
        iso = pygaps.PointIsotherm(pressure=p, loading=n_mmol, material='c14', adsorbate='N2', temperature=T, pressure_mode='relative', loading_basis='molar',
                                   loading_unit='mmol', material_basis='mass', material_unit='g')
        iso.convert(**rep)
        return iso

    for nm, C in ((2.0, 80.0), (0.4, 900.0), (7.0, 8.0)):
        n = bet_n(p, nm, C)
        for rep in reps:
            o = core.call(pgc.area_BET, mk(n, rep), p_limits=(0.03, 0.31))
            ev += 1
            nt += 1
            exp_area = nm * 1e-3 * sigma * NA * 1e-18
            if not o.ok or rel(o.value['n_monolayer'], nm * 1e-3) > 1e-5 or rel(o.value['c_const'], C) > 1e-5 or rel(o.value['area'], exp_area) > 1e-5:
                ctx.violate(core.make_violation({'check': 'isotherm-entry', 'method': 'BET'}, f'area_BET on exact BET data (n_m={nm} mmol/g, C={C}) stored as {rep}: '
                                                f'{ {k: o.value[k] for k in ("area", "c_const", "n_monolayer")} if o.ok else o.brief()} (expected area {exp_area})', {'rep': rep}))
    for nm, K in ((3.0, 25.0), (0.8, 4.0)):
        n = nm * K * p / (1 + K * p)
        for rep in reps:
            o = core.call(pgc.area_langmuir, mk(n, rep), p_limits=(0.03, 0.55))
            ev += 1
            nt += 1
            if not o.ok or rel(o.value['n_monolayer'], nm * 1e-3) > 1e-5 or rel(o.value['langmuir_const'], K) > 1e-5:
                ctx.violate(core.make_violation({'check': 'isotherm-entry', 'method': 'Langmuir'}, f'area_langmuir on exact data (n_m={nm}, K={K}) stored as {rep}: '
                                                f'{ {k: o.value[k] for k in ("area", "langmuir_const", "n_monolayer")} if o.ok else o.brief()}', {'rep': rep}))
    from pygaps.characterisation.models_thickness import thickness_harkins_jura
    for s, i in ((1.5, 0.3), (4.0, 0.0)):
        n = s * thickness_harkins_jura(p) + i
        for rep in reps:
            o = core.call(pgc.t_plot, mk(n, rep), t_limits=(0.25, 0.7))
            ev += 1
            nt += 1
            M, rho = c['M'], c['dl']
            good = o.ok and len(o.value['results']) == 1 and rel(o.value['results'][0]['slope'], s) < 1e-5 and rel(o.value['results'][0]['area'], s * M / rho) < 1e-5
            if not good:
                ctx.violate(core.make_violation({'check': 'isotherm-entry', 'method': 't-plot'}, f't_plot on exact data (slope {s}, intercept {i}) stored as {rep}: '
                                                f'{o.value["results"] if o.ok else o.brief()}', {'rep': rep}))
    for V0, E, m in ((0.3, 6.0, 2.0), (0.55, 9.0, 1.6)):
        n = V0 * c['dl'] / c['M'] * numpy.exp(-((R * T * numpy.log(1 / p)) / (E * 1000)) ** m) * 1000      # mmol/g
        for rep in reps:
            o = core.call(pgc.da_plot, mk(n, rep), exp=m)
            ev += 1
            nt += 1
            if not o.ok or rel(o.value['pore_volume'], V0) > 1e-5 or rel(o.value['adsorption_potential'], E) > 1e-5:
                ctx.violate(core.make_violation({'check': 'isotherm-entry', 'method': 'DA'}, f'da_plot on exact data (V0={V0}, E={E}, m={m}) stored as {rep}: '
                                                f'{ {k: o.value[k] for k in ("pore_volume", "adsorption_potential")} if o.ok else o.brief()}', {'rep': rep}))
    # alpha-s of an isotherm against itself / a scaled copy (relative-pressure isotherms)
    ref_n = 2.0 * 30.0 * p / (1 + 30.0 * p) + 1.5 * p
    for k in (1.0, 2.5):
        iso, ref = mk(k * ref_n, reps[0]), mk(ref_n, reps[0])
        ra = core.call(pgc.area_BET, ref)
        o = core.call(pgc.alpha_s, iso, ref, reference_area='BET', t_limits=(0.4, 1.2))
        ev += 1
        nt += 1
        if ra.ok and (not o.ok or len(o.value['results']) != 1 or rel(o.value['results'][0]['area'], ra.value['area'] * k) > 1e-6):
            ctx.violate(core.make_violation({'check': 'isotherm-entry', 'method': 'alpha-s'}, f'alpha_s of a curve against a copy scaled by {k}: {o.value["results"] if o.ok else o.brief()} (expected area {ra.value["area"] * k})', {}))
    # any cross-sectional area / adsorbate: analyse, change the cross-section, analyse again (same process)
    nB = bet_n(p, 2.0, 80.0)
    nL = 3.0 * 25.0 * p / (1 + 25.0 * p)
    for fname, fn, n_exact, nm, kw in (('area_BET', pgc.area_BET, nB, 2.0, dict(p_limits=(0.03, 0.31))), ('area_langmuir', pgc.area_langmuir, nL, 3.0, dict(p_limits=(0.03, 0.55)))):
        for how in ('properties edited', 'adsorbate re-registered', 'other adsorbate object of the same name on the isotherm'):
            probe = pygaps.Adsorbate('c14-probe', cross_sectional_area=0.162, molar_mass=28.0, saturation_pressure=1.0, store=True)
            try:
                def mkp():
                    return pygaps.PointIsotherm(pressure=p, loading=n_exact, material='c14', adsorbate='c14-probe', temperature=T, pressure_mode='relative',
                                                loading_basis='molar', loading_unit='mmol', material_basis='mass', material_unit='g')
                first = core.call(fn, mkp(), **kw)
                if how == 'properties edited':
                    probe.properties['cross_sectional_area'] = 0.21
                elif how == 'adsorbate re-registered':
                    pygaps.ADSORBATE_LIST.remove(probe)
                    probe = pygaps.Adsorbate('c14-probe', cross_sectional_area=0.21, molar_mass=28.0, saturation_pressure=1.0, store=True)
                else:
                    pygaps.ADSORBATE_LIST.remove(probe)
                    probe = pygaps.Adsorbate('c14-probe', cross_sectional_area=0.21, molar_mass=28.0, saturation_pressure=1.0, store=True)
                second = core.call(fn, mkp(), **kw)
                ev += 1
                nt += 1
                e1, e2 = nm * 1e-3 * 0.162 * NA * 1e-18, nm * 1e-3 * 0.21 * NA * 1e-18
                if not first.ok or not second.ok or rel(first.value['area'], e1) > 1e-5 or rel(second.value['area'], e2) > 1e-5:
                    ctx.violate(core.make_violation(
                        {'check': 'cross-section-sequence', 'method': fname},
                        f'{fname} with cross-section 0.162 nm2 gives {first.value["area"] if first.ok else first.brief()} (expected {e1}); after the cross-section became 0.21 nm2 '
                        f'({how}) it gives {second.value["area"] if second.ok else second.brief()} (expected {e2})', {'how': how}, [e1, e2],
                        [first.value['area'] if first.ok else None, second.value['area'] if second.ok else None]))
            finally:
                if probe in pygaps.ADSORBATE_LIST:
                    pygaps.ADSORBATE_LIST.remove(probe)
    # alpha-s through the isotherm entry point with a filled-pore offset: manual and automatic limits agree with the generator
    for k, off in ((1.0, 0.8), (2.5, 0.3)):
        iso, ref = mk(k * ref_n + off, reps[0]), mk(ref_n, reps[0])
        a04 = float(numpy.interp(0.4, p, ref_n))
        vol = off * c['M'] / c['dl'] / 1000
        for lim in ((0.4, 1.2), None):
            o = core.call(pgc.alpha_s, iso, ref, reference_area='BET', t_limits=lim)
            ev += 1
            if not o.ok or not o.value['results']:
                if lim is not None:
                    ctx.violate(core.make_violation({'check': 'isotherm-entry', 'method': 'alpha-s', 'what': 'no result'}, f'alpha_s with limits {lim}: {o.brief() if not o.ok else "no result"}', {}))
                continue
            nt += 1
            for r in o.value['results']:
                full = lim is not None or (len(r['section']) >= 0.8 * len(p))
                if full and (rel(r['slope'], k * a04) > 1e-6 or abs(r['intercept'] - off) > 1e-6 * (k * a04 + off) or abs(r['adsorbed_volume'] - vol) > 1e-5 * vol):
                    ctx.violate(core.make_violation({'check': 'isotherm-entry', 'method': 'alpha-s', 'limits': 'manual' if lim else 'automatic'},
                                                    f'alpha_s of reference*{k} + {off} (limits {lim}): slope {r["slope"]} intercept {r["intercept"]} volume {r["adsorbed_volume"]}; '
                                                    f'expected slope {k * a04}, intercept {off}, pore volume {vol}', {}, [k * a04, off, vol], [r['slope'], r['intercept'], r['adsorbed_volume']]))
    # verbose=True (log lines and a graph) changes nothing in what is returned, in any stored representation
    import matplotlib
    matplotlib.use('Agg')
    import matplotlib.pyplot as plt
    from pygaps.characterisation.models_thickness import thickness_harkins_jura as thj
    n_t = 1.5 * thj(p) + 0.3
    n_b = bet_n(p, 2.0, 80.0)
    n_d = 0.3 * c['dl'] / c['M'] * numpy.exp(-((R * T * numpy.log(1 / p)) / (6.0 * 1000)) ** 2.0) * 1000
    vcalls = (('t_plot', lambda i_, vb: pgc.t_plot(i_, t_limits=(0.25, 0.7), verbose=vb), n_t, lambda r: (r['results'][0]['slope'], r['results'][0]['intercept'], r['results'][0]['area'])),
              ('t_plot(automatic)', lambda i_, vb: pgc.t_plot(i_, verbose=vb), n_t, lambda r: tuple((x['slope'], x['intercept']) for x in r['results'])),
              ('area_BET', lambda i_, vb: pgc.area_BET(i_, p_limits=(0.03, 0.31), verbose=vb), n_b, lambda r: (r['area'], r['c_const'], r['n_monolayer'], r['bet_slope'], r['bet_intercept'])),
              ('area_langmuir', lambda i_, vb: pgc.area_langmuir(i_, p_limits=(0.03, 0.55), verbose=vb), n_b, lambda r: (r['area'], r['langmuir_const'], r['n_monolayer'])),
              ('dr_plot', lambda i_, vb: pgc.dr_plot(i_, verbose=vb), n_d, lambda r: (r['pore_volume'], r['adsorption_potential'])),
              ('alpha_s', lambda i_, vb: pgc.alpha_s(i_, mk(ref_n, reps[0]), reference_area='BET', t_limits=(0.4, 1.2), verbose=vb), 2.5 * ref_n + 0.3,
               lambda r: (r['results'][0]['slope'], r['results'][0]['intercept'], r['results'][0]['area'])))
    for mname, call_, n_, pick_ in vcalls:
        for rep in reps:
            quiet = core.call(call_, mk(n_, rep), False)
            loud = core.call(call_, mk(n_, rep), True)
            plt.close('all')
            ev += 1
            nt += 1
            if quiet.ok and (not loud.ok or numpy.shape(numpy.ravel(pick_(loud.value))) != numpy.shape(numpy.ravel(pick_(quiet.value))) or core.relerr(numpy.ravel(pick_(loud.value)), numpy.ravel(pick_(quiet.value))) > 1e-12):
                ctx.violate(core.make_violation({'check': 'isotherm-entry', 'method': mname.split('(')[0], 'what': 'verbose changes the result'},
                                                f'{mname}(verbose=True) on an isotherm stored as {rep}: {pick_(loud.value) if loud.ok else loud.brief()[:160]} but with verbose=False {pick_(quiet.value)}',
                                                {'rep': rep}, pick_(quiet.value), pick_(loud.value) if loud.ok else None))
    # alpha-s of a sample measured on a pressure range that does NOT contain the reducing pressure (the reference's range does)
    def mk_on(pp, nn):
        return pygaps.PointIsotherm(pressure=pp, loading=nn, material='c14s', adsorbate='N2', temperature=T, pressure_mode='relative', loading_basis='molar',
                                    loading_unit='mmol', material_basis='mass', material_unit='g')
    ref_full = mk(ref_n, reps[0])
    for k, off in ((1.0, 0.8), (2.5, 0.3)):
        for name, sel, red in (('sample measured up to p/p0 = 0.30, default reducing pressure 0.4', p < 0.30, None),
                               ('sample measured from p/p0 = 0.45, default reducing pressure 0.4', p > 0.45, None),
                               ('sample measured from p/p0 = 0.10, reducing pressure 0.05', p > 0.10, 0.05)):
            ps_, ns_ = p[sel], (k * ref_n + off)[sel]
            a_red = float(numpy.interp(red or 0.4, p, ref_n))
            alpha = ref_n[sel] / a_red
            lim = (float(alpha[1]) * 0.999, float(alpha[-2]) * 1.001)
            kw = dict(reducing_pressure=red) if red else {}
            o = core.call(pgc.alpha_s, mk_on(ps_, ns_), ref_full, reference_area='BET', t_limits=lim, **kw)
            ev += 1
            nt += 1
            good = o.ok and len(o.value['results']) == 1 and rel(o.value['results'][0]['slope'], k * a_red) < 1e-6 and \
                abs(o.value['results'][0]['intercept'] - off) < 1e-6 * (k * a_red + off)
            if not good:
                ctx.violate(core.make_violation({'check': 'isotherm-entry', 'method': 'alpha-s', 'what': 'reducing pressure outside the sample range'},
                                                f'alpha_s ({name}) of reference*{k} + {off}: {o.value["results"] if o.ok else o.brief()[:200]}; expected slope {k * a_red}, intercept {off}',
                                                {'case': name}, [k * a_red, off], None))
    ctx.add('isotherm_entry_points', ev, nt)


def check_branches(ctx):
    """Every isotherm entry point on an isotherm whose two branches were generated by DIFFERENT parameters: the branch asked for is analysed."""
    import pygaps
    import pygaps.characterisation as pgc
    from pygaps.characterisation.models_thickness import thickness_harkins_jura
    ev = nt = 0
    T = 77.355
    N2 = pygaps.Adsorbate.find('N2')
    c = ru.ads_consts(N2.backend_name, T)
    p = numpy.linspace(0.01, 0.6, 40)
    U = dict(pressure_mode='relative', loading_basis='molar', loading_unit='mmol', material_basis='mass', material_unit='g')

    def two(n_ads, n_des):
        return pygaps.PointIsotherm(pressure=numpy.concatenate([p, p[::-1]]), loading=numpy.concatenate([n_ads, n_des[::-1]]), material='c14b', adsorbate='N2',
                                    temperature=T, **U)

    def only(n, br):
        pp, nn = (p, n) if br == 'ads' else (p[::-1], n[::-1])
        return pygaps.PointIsotherm(pressure=pp, loading=nn, material='c14b', adsorbate='N2', temperature=T, branch=br, **U)

    def da_n(V0, E, m):
        return V0 * c['dl'] / c['M'] * numpy.exp(-((R * T * numpy.log(1 / p)) / (E * 1000)) ** m) * 1000

    ref_n = 2.0 * 30.0 * p / (1 + 30.0 * p) + 1.5 * p
    ref = pygaps.PointIsotherm(pressure=p, loading=ref_n, material='c14ref', adsorbate='N2', temperature=T, **U)
    ref_area = core.call(pgc.area_BET, ref)
    a04 = float(numpy.interp(0.4, p, ref_n))
    cases = [
        ('area_BET', lambda iso, br: pgc.area_BET(iso, branch=br, p_limits=(0.03, 0.31)), lambda q: bet_n(p, *q), ((2.0, 80.0), (2.6, 40.0)),
         lambda r, q: max(rel(r['n_monolayer'], q[0] * 1e-3), rel(r['c_const'], q[1]))),
        ('area_langmuir', lambda iso, br: pgc.area_langmuir(iso, branch=br, p_limits=(0.03, 0.55)), lambda q: q[0] * q[1] * p / (1 + q[1] * p), ((3.0, 25.0), (3.4, 12.0)),
         lambda r, q: max(rel(r['n_monolayer'], q[0] * 1e-3), rel(r['langmuir_const'], q[1]))),
        ('t_plot', lambda iso, br: pgc.t_plot(iso, branch=br, t_limits=(0.25, 0.7)), lambda q: q[0] * thickness_harkins_jura(p) + q[1], ((1.5, 0.3), (1.9, 0.5)),
         lambda r, q: max(rel(r['results'][0]['slope'], q[0]), rel(r['results'][0]['intercept'], q[1])) if len(r['results']) == 1 else float('inf')),
        ('da_plot', lambda iso, br: pgc.da_plot(iso, branch=br, exp=1.6), lambda q: da_n(q[0], q[1], 1.6), ((0.3, 6.0), (0.36, 7.5)),
         lambda r, q: max(rel(r['pore_volume'], q[0]), rel(r['adsorption_potential'], q[1]))),
        ('dr_plot', lambda iso, br: pgc.dr_plot(iso, branch=br), lambda q: da_n(q[0], q[1], 2.0), ((0.3, 6.0), (0.36, 7.5)),
         lambda r, q: max(rel(r['pore_volume'], q[0]), rel(r['adsorption_potential'], q[1]))),
        ('alpha_s', lambda iso, br: pgc.alpha_s(iso, ref, reference_area='BET', branch=br, t_limits=(0.4, 1.2)), lambda q: q[0] * ref_n + q[1], ((1.0, 0.8), (2.5, 0.3)),
         lambda r, q: max(rel(r['results'][0]['slope'], q[0] * a04), abs(r['results'][0]['intercept'] - q[1]) / (q[0] * a04 + q[1])) if len(r['results']) == 1 else float('inf')),
    ]
    for mname, call, gen, (qa, qd), err in cases:
        isos = {'both branches': two(gen(qa), gen(qd)), 'desorption only': only(gen(qd), 'des'), 'adsorption only': only(gen(qa), 'ads')}
        for held, iso in isos.items():
            for br in ('ads', 'des'):
                present = held == 'both branches' or held.startswith({'ads': 'adsorption', 'des': 'desorption'}[br])
                o = core.call(call, iso, br)
                ev += 1
                if not present:
                    if o.ok:
                        ctx.violate(core.make_violation({'check': 'branch', 'method': mname, 'what': 'absent branch analysed'},
                                                        f'{mname}(branch={br!r}) on an isotherm holding the {held} returned a result', {'held': held, 'branch': br}))
                    continue
                nt += 1
                q = qa if br == 'ads' else qd
                e = err(o.value, q) if o.ok else float('inf')
                if not e < 1e-5:
                    other = err(o.value, qd if br == 'ads' else qa) if o.ok else float('inf')
                    ctx.violate(core.make_violation(
                        {'check': 'branch', 'method': mname, 'what': 'result of the other branch' if other < 1e-5 else 'wrong result'},
                        f'{mname}(branch={br!r}) on an isotherm holding {held} (adsorption generated by {qa}, desorption by {qd}): '
                        f'{o.brief() if not o.ok else "does not recover the generator of that branch (deviation %.3g)" % e}'
                        + (' -- it recovers the generator of the OTHER branch' if other < 1e-5 else ''), {'held': held, 'branch': br}, q, None))
    ctx.add('branches', ev, nt)


def run(ctx):
    check_bet_auto_family(ctx)
    check_branches(ctx)
    sc = ctx.scale
    gk = list(grids(sc))
    if ctx.quick:
        gk = [k for k in gk if k[0] in (5, 12, 40)]
    jobs = [(nm, C, g, sc, s) for nm in (1e-4, 1e-3, 1e-2, 1e-1) for C in (2.0, 20.0, 200.0, 2000.0) for g in gk for s in ((0.162,) if ctx.quick else (0.162, 0.142, 0.21))]
    res = core.pmap(work_bet, jobs, chunk=8)
    for r in res:
        ctx.add('BET', r['ev'], r['nt'])
        ctx.violate(r['viol'])
        ctx.track('BET_recovery', r['worst'], 1e-6)
    res = core.pmap(work_bet_auto, [(nm, C, n, sc) for nm in (1e-3, 1e-1) for C in (20.0, 200.0, 2000.0) for n in (12, 25, 40, 100)], chunk=4)
    for r in res:
        ctx.add('BET_automatic_window', r['ev'], r['nt'])
        ctx.violate(r['viol'])
    jobs = [(nm, K, g, sc, 0.162) for nm in (1e-4, 1e-2, 1e-1) for K in (0.5, 5.0, 50.0, 500.0) for g in gk]
    res = core.pmap(work_langmuir, jobs, chunk=8)
    for r in res:
        ctx.add('Langmuir', r['ev'], r['nt'])
        ctx.violate(r['viol'])
        ctx.track('Langmuir_recovery', r['worst'], 1e-6)
    models = ['Halsey', 'Harkins/Jura', 'SiO2 Jaroniec/Kruk/Olivier', 'carbon black Kruk/Jaroniec/Gadkaree', 'callable']
    jobs = [(s, i, m, g, sc) for s in (0.5, 3.0) for i in (0.0, 0.4, 2.0) for m in models for g in gk if g[0] >= 12]
    res = core.pmap(work_tplot, jobs, chunk=8)
    for r in res:
        ctx.add('t_plot', r['ev'], r['nt'])
        ctx.violate(r['viol'])
        ctx.track('t_plot_recovery', r['worst'], 1e-7)
    res = core.pmap(work_alphas, [(k, a, g, sc) for k in (1.0, 0.5, 3.0) for a in (50.0, 812.5) for g in gk if g[0] >= 12 and g[2] >= 0.6], chunk=8)
    for r in res:
        ctx.add('alpha_s', r['ev'], r['nt'])
        ctx.violate(r['viol'])
    jobs = [(V0, E, m, g, srch, sc) for V0 in (0.1, 0.6) for E in (4.0, 12.0) for m in (1.0, 1.5, 2.0, 3.0) for g in gk for srch in (False, True)
            if not (srch and m in (1.0, 3.0))]
    res = core.pmap(work_da, jobs, chunk=8)
    for r in res:
        ctx.add('DR_DA', r['ev'], r['nt'])
        ctx.violate(r['viol'])
        ctx.track('DA_recovery_fixed_exponent', r['worst'], 1e-7)
    check_isotherm_entry(ctx)
    ctx.cov['rule'] = ('generating parameters (n_m 1e-4..1e-1, C 2..2000, K 0.5..500, t-plot slope x intercept on 5 thickness models, DA volume x energy x exponent 1..3 fixed '
                       'and searched) x sampling grids (5/12/40/100 points, linear/log, ending at 0.3/0.6/0.95) x limits (automatic, all pairs of 6 off-grid positions, '
                       'one-sided, zero lower limit) through the raw-array entry points; isotherm entry points in three stored representations; automatic BET window on '
                       'data with an interior maximum of n(1-p).')
    ctx.require('analyses', ctx.cov['evaluations'], 5000)
    ctx.sample({'method': 'BET', 'n_m': 1e-3, 'C': 200.0, 'grid': '12 log-spaced pressures to 0.6', 'limits': 'all pairs of off-grid limits'})
    ctx.sample({'method': 'DA', 'V0': 0.6, 'E_kJ_mol': 12.0, 'exponent': 1.5, 'searched': True})
    ctx.assumptions += ['limits never coincide with a data pressure (whether a point on a limit is inside is not fixed by the property)',
                        'automatic BET window: the end may be the first local maximum of n(1-p) or the point after it']
