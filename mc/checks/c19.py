"""C19 — enthalpy methods recover the enthalpy built into consistent synthetic data (DESIGN §4 C19; engine E2).

Isosteric: dH x temperature sets (2-5 temperatures in 200-400 K; ordered, reversed, shuffled, unevenly spaced) x generators
(Langmuir, Toth, DS-Langmuir) as model isotherms (exact) and as 200-point point isotherms x common unit representations x loading points
(explicit lists of several lengths incl. length == number of isotherms, default grid).
Whittaker: Langmuir/Toth parameter lattice x sub-critical adsorbates x loading lists in several orders against the closed form with
dH_vap from CoolProp's high-level API, incl. the set of omitted loadings.  Initial enthalpy point: both branches of calorimetric data.
"""
import itertools
import math

import numpy

from mc import core
from mc import modlat as ml
from mc import ref_units as ru

LEVEL = 'exploration'
R = 8.314462618
ADS = 'n-butane'       # liquid range covers 200-400 K (relative-pressure representations need p0 at every temperature)
T0 = 300.0

GENERATORS = {
    'Langmuir': lambda k: {'K': 5.0 * k, 'n_m': 4.0},
    'Toth': lambda k: {'K': 5.0 * k, 'n_m': 5.0, 't': 0.7},
    'DSLangmuir': lambda k: {'n_m1': 2.0, 'K1': 20.0 * k, 'n_m2': 3.0, 'K2': 0.6 * k},
}
TSETS = {
    'two': [280.0, 320.0], 'three ordered': [260.0, 300.0, 340.0], 'three reversed': [340.0, 300.0, 260.0], 'four uneven': [210.0, 225.0, 330.0, 395.0],
    'five shuffled': [300.0, 220.0, 380.0, 260.0, 340.0],
}
REPS = [
    dict(pressure_mode='absolute', pressure_unit='bar', loading_basis='molar', loading_unit='mmol', material_basis='mass', material_unit='g'),
    dict(pressure_mode='absolute', pressure_unit='Pa', loading_basis='molar', loading_unit='cm3(STP)', material_basis='mass', material_unit='kg'),
    dict(pressure_mode='absolute', pressure_unit='torr', loading_basis='mass', loading_unit='mg', material_basis='mass', material_unit='g'),
    dict(pressure_mode='relative', pressure_unit=None, loading_basis='molar', loading_unit='mmol', material_basis='mass', material_unit='g'),
    dict(pressure_mode='relative%', pressure_unit=None, loading_basis='molar', loading_unit='mol', material_basis='mass', material_unit='g'),
    # per volume of adsorbate: the same volume is a different amount at each temperature (isosteres are lines of constant amount)
    dict(pressure_mode='absolute', pressure_unit='bar', loading_basis='volume_liquid', loading_unit='cm3', material_basis='mass', material_unit='g'),
    dict(pressure_mode='absolute', pressure_unit='kPa', loading_basis='volume_gas', loading_unit='cm3', material_basis='mass', material_unit='g'),
]


def kfactor(dH, T):
    return math.exp(dH * 1000.0 / R * (1 / T - 1 / T0))


def mk_set(gen, dH, temps, kind, rep, scale):
    """Isotherms of one generator at several temperatures, affinity following van 't Hoff with enthalpy dH."""
    import pygaps
    out = []
    for T in temps:
        q = GENERATORS[gen](kfactor(dH, T) * scale)
        base = dict(pressure_mode='absolute', pressure_unit='bar', loading_basis='molar', loading_unit='mmol', material_basis='mass', material_unit='g')
        if kind == 'model':
            m = ml.mk(gen, q, T)
            m.pressure_range = (1e-6, 50.0)
            m.loading_range = (0.05, 3.5)
            # a model isotherm has no permanent conversion: it is kept in the base representation
            out.append(pygaps.ModelIsotherm(model=m, material='c19', adsorbate=ADS, temperature=T, temperature_unit='K', **base))
        else:
            n = numpy.linspace(0.02, 3.6, 200)
            m = ml.mk(gen, q, T)
            p = numpy.array([float(numpy.asarray(m.pressure(x)).reshape(-1)[0]) for x in n]) if gen != 'DSLangmuir' else m.pressure(n)
            iso = pygaps.PointIsotherm(pressure=p, loading=n, material='c19', adsorbate=ADS, temperature=T, temperature_unit='K', **base)
            conv = {k: v for k, v in rep.items()}
            iso.convert(**conv)
            out.append(iso)
    return out


def work_iso(arg):
    import pygaps.characterisation as pgc
    gen, dH, tname, kind, ri, scale = arg
    out = {'ev': 0, 'nt': 0, 'viol': [], 'worst_model': 0.0, 'worst_point': 0.0}
    rep = REPS[ri]
    temps = TSETS[tname]
    o = core.call(mk_set, gen, dH, temps, kind, rep, scale)
    if not o.ok:
        out['skipped'] = o.brief()
        return out
    isos = o.value
    seen = set()

    def v(check, what, exp=None, obs=None, extra=None):
        sig = {'check': check, 'kind': kind}
        if extra:
            sig.update(extra)
        k = core.sig_key(sig)
        if k in seen:
            return
        seen.add(k)
        out['viol'].append(core.make_violation(sig, f'isosteric {gen} dH={dH} T={tname} {kind} rep#{ri}: {what}', {'generator': gen, 'dH': dH, 'temperatures': temps, 'rep': rep}, exp, obs))

    # loading points in the units the first isotherm is stored in (the function works in those)
    c_first = isos[0]
    if kind == 'point':
        # every member carries the same molar grid: the common range expressed in the representation (and, for volumes of
        # adsorbate, at the temperature) of the first isotherm
        lo = isos[0].loading().min() * 1.05
        hi = isos[0].loading().max() * 0.95
    else:
        lo, hi = 0.1, 3.2
    point_lists = [list(numpy.linspace(lo, hi, k)) for k in (len(temps), 1, 7)] + [None]
    for lp in point_lists:
        r = core.call(pgc.isosteric_enthalpy, isos, loading_points=lp)
        out['ev'] += 1
        if not r.ok:
            v('raises', f'loading_points={None if lp is None else len(lp)} values: {r.brief()}', dH, r.brief(), {'kind_of_error': r.kind})
            continue
        got = numpy.asarray(r.value['isosteric_enthalpy'], dtype=float)
        out['nt'] += 1
        e = float(numpy.max(numpy.abs(got - dH) / dH))
        tol = 1e-8 if kind == 'model' else 2e-3
        if kind == 'model':
            out['worst_model'] = max(out['worst_model'], e)
        else:
            out['worst_point'] = max(out['worst_point'], e)
        if e > tol:
            v('enthalpy-not-recovered', f'{len(got)} loading points ({"default grid" if lp is None else "explicit"}): isosteric enthalpy {got[:4]} instead of {dH} kJ/mol (max rel. dev. {e:.3g})',
              dH, got, {'n_points_equals_n_isotherms': lp is not None and len(lp) == len(temps), 'pressure_mode': rep['pressure_mode'] if kind == 'point' else 'absolute'})
        if len(got) != (50 if lp is None else len(lp)):
            v('result-length', f'{len(got)} enthalpies for {50 if lp is None else len(lp)} loading points')
    return out


# --- Whittaker -------------------------------------------------------------------------------------------------------------

def whittaker_ref(name, params, T, backend, loadings):
    """Closed form lambda + dH_vap(p) + RT [kJ/mol] and the loadings that must be omitted."""
    import CoolProp.CoolProp as CPP
    P = CPP.PropsSI
    p_c, p_t = P('pcrit', backend), P('ptriple', backend)
    try:
        p_sat = P('P', 'T', T, 'Q', 0, backend)
    except Exception:
        T_c = P('Tcrit', backend)
        p_sat = p_c * (T / T_c) ** 2
    t = 1.0 if name == 'Langmuir' else params['t']
    K, nm = params['K'], params['n_m']
    keep, vals = [], []
    for n in loadings:
        if n == 0:
            continue
        th = n / nm
        if name == 'Langmuir':
            p = n / (K * (nm - n)) if n < nm else float('nan')
        else:
            p = (n / (nm * K)) / (1 - th ** t) ** (1 / t) if th < 1 else float('nan')
        if not (p == p) or p < 0 or p > p_c or p > p_sat:
            continue
        pe = max(p, p_t)
        hv = (P('Hmolar', 'P', pe, 'Q', 1, backend) - P('Hmolar', 'P', pe, 'Q', 0, backend))
        lam = R * T * math.log(p_sat * K * (th ** t / (1 - th ** t)) ** ((t - 1) / t))
        keep.append(n)
        vals.append((lam + hv + R * T) / 1000)
    return keep, vals


def work_whittaker(arg):
    import pygaps
    import pygaps.characterisation as pgc
    name, params, ads, T, order = arg
    out = {'ev': 0, 'nt': 0, 'viol': [], 'worst': 0.0}
    a = pygaps.Adsorbate.find(ads)
    m = ml.mk(name, params, T)
    m.pressure_range = (1.0, 1e7)
    m.loading_range = (0.0, params['n_m'])
    iso = pygaps.ModelIsotherm(model=m, material='c19', adsorbate=ads, temperature=T, pressure_mode='absolute', pressure_unit='Pa', loading_basis='molar',
                               loading_unit='mmol', material_basis='mass', material_unit='g', temperature_unit='K')
    base = list(numpy.linspace(0.02, 0.995, 14) * params['n_m'])
    if order == 'descending':
        loads = base[::-1]
    elif order == 'shuffled':
        loads = [base[i] for i in (7, 0, 13, 3, 10, 1, 12, 5, 8, 2, 11, 4, 9, 6)]
    else:
        loads = base
    r = core.call(pgc.enthalpy_sorption_whittaker, iso, loading=loads)
    out['ev'] += 1
    keep, vals = whittaker_ref(name, params, T, a.backend_name, loads)
    if not r.ok:
        out['viol'].append(core.make_violation({'check': 'whittaker-raises', 'kind': r.kind}, f'Whittaker {name}{params} {ads}@{T}: {r.brief()}', {}))
        return out
    out['nt'] += 1
    gl = [float(x) for x in r.value['loading']]
    ge = [float(x) for x in r.value['enthalpy_sorption']]
    if len(gl) != len(keep) or core.relerr(gl, keep) > 1e-12:
        out['viol'].append(core.make_violation({'check': 'whittaker-omitted-loadings'},
                                               f'Whittaker {name}{params} {ads}@{T} ({order}): kept {len(gl)} loadings, the closed form is defined for {len(keep)} '
                                               f'(those whose pressure lies inside the range where the vaporisation enthalpy exists)', {'order': order}, keep, gl))
        return out
    if not keep:
        return out
    e = core.relerr(ge, vals)
    out['worst'] = e
    if order == 'ascending' and name in ('Langmuir', 'Toth'):
        # the same curve as measured points: stored in K, converted to degC, built in degC, stored in bar - one and the same result
        pts_n = numpy.linspace(0.05, 0.95, 40) * params['n_m']
        pts_p = numpy.array([float(numpy.asarray(m.pressure(x)).reshape(-1)[0]) for x in pts_n])
        kwp = dict(pressure=pts_p, loading=pts_n, material='c19', adsorbate=ads, pressure_mode='absolute', pressure_unit='Pa', loading_basis='molar', loading_unit='mmol',
                   material_basis='mass', material_unit='g')
        variants = {'stored in K': lambda: pygaps.PointIsotherm(temperature=T, temperature_unit='K', **kwp),
                    'built in degC': lambda: pygaps.PointIsotherm(temperature=T - 273.15, temperature_unit='°C', **kwp),
                    'converted to degC': lambda: (lambda i_: (i_.convert_temperature('°C'), i_)[1])(pygaps.PointIsotherm(temperature=T, temperature_unit='K', **kwp)),
                    'converted to bar': lambda: (lambda i_: (i_.convert_pressure(unit_to='bar'), i_)[1])(pygaps.PointIsotherm(temperature=T, temperature_unit='K', **kwp))}
        lq = [float(x) for x in keep[:8]] or [0.3 * params['n_m']]
        res_ = {k_: core.call(lambda mk_=mk_: pgc.enthalpy_sorption_whittaker(mk_(), model=name, loading=lq)) for k_, mk_ in variants.items()}
        # the loadings may arrive in any iterable: tuple, array, Series, generator, iterator, map object (a one-shot iterable is consumed once)
        import pandas as _pd
        for form, mkl in (('tuple', lambda: tuple(lq)), ('ndarray', lambda: numpy.array(lq)), ('Series', lambda: _pd.Series(lq)), ('generator', lambda: (x_ for x_ in lq)),
                          ('iterator', lambda: iter(lq)), ('map object', lambda: map(float, lq)), ('read-only array', lambda: (lambda a_: (a_.setflags(write=False), a_)[1])(numpy.array(lq))),
                          ('reversed view', lambda: numpy.array(lq[::-1])[::-1])):
            res_[f'loading given as {form}'] = core.call(lambda mkl=mkl: pgc.enthalpy_sorption_whittaker(variants['stored in K'](), model=name, loading=mkl()))
        # the model may be named in any letter case (as everywhere else in the library)
        for spelled in (name.lower(), name.upper(), name[0].lower() + name[1:].upper()):
            res_[f'model named {spelled!r}'] = core.call(lambda sp_=spelled: pgc.enthalpy_sorption_whittaker(variants['stored in K'](), model=sp_, loading=lq))
        out['ev'] += 1
        b_ = res_['stored in K']
        if b_.ok:
            out['nt'] += 1
            for k_, r_ in res_.items():
                if k_ == 'stored in K':
                    continue
                if not r_.ok or len(r_.value['enthalpy_sorption']) != len(b_.value['enthalpy_sorption']) or \
                        core.relerr(r_.value['enthalpy_sorption'], b_.value['enthalpy_sorption']) > 1e-6:
                    out['viol'].append(core.make_violation({'check': 'whittaker-point-isotherm-representation', 'variant': k_},
                                                           f'Whittaker ({name}) on a point isotherm of {ads} at {T} K {k_}: {list(r_.value["enthalpy_sorption"][:3]) if r_.ok else r_.brief()[:100]} but '
                                                           f'stored in K and Pa: {list(b_.value["enthalpy_sorption"][:3])}', {'variant': k_}))
    if e > 1e-8:
        i = int(numpy.argmax(numpy.abs(numpy.array(ge) - numpy.array(vals))))
        out['viol'].append(core.make_violation({'check': 'whittaker-closed-form', 'order': order},
                                               f'Whittaker {name}{params} {ads}@{T} ({order} loadings): enthalpy at n={gl[i]:.4g} is {ge[i]:.9g} but lambda + dH_vap + RT = {vals[i]:.9g} kJ/mol',
                                               {'order': order}, vals, ge))
    return out


def check_initial_point(ctx):
    import pandas
    import pygaps
    import pygaps.characterisation as pgc
    ev = nt = 0
    U = dict(pressure_mode='absolute', pressure_unit='bar', loading_basis='molar', loading_unit='mmol', material_basis='mass', material_unit='g')
    sets = [
        ([0.01, 0.1, 0.5, 1.0, 0.6, 0.2], [0.5, 1.5, 2.5, 3.0, 2.8, 2.0], [41.5, 33.0, 28.0, 25.0, 26.5, 30.25], [0, 0, 0, 0, 1, 1]),
        ([0.2, 0.1, 0.05, 0.3, 0.9], [2.0, 1.5, 1.0, 1.2, 3.0], [30.0, 35.5, 38.0, 44.25, 22.0], [1, 1, 1, 0, 0]),
        ([0.05, 0.5, 1.0], [1.0, 2.0, 2.5], [55.125, 30.0, 20.0], [0, 0, 0]),
        # rows in measured order, not monotonic in pressure within a branch (a second dose equilibrating below the first, ...)
        ([0.2, 0.1, 0.5, 1.0, 0.6, 0.8, 0.2], [1.0, 0.8, 2.5, 3.0, 2.8, 2.9, 2.0], [41.0, 36.5, 28.0, 25.0, 26.5, 27.75, 30.25], [0, 0, 0, 0, 1, 1, 1]),
        ([0.5, 0.9, 0.3, 0.05, 0.02, 0.04], [2.0, 3.0, 1.2, 0.4, 0.2, 0.3], [30.0, 22.0, 35.5, 48.0, 52.5, 50.0], [0, 0, 1, 1, 0, 0]),
    ]
    for p, n, h, br in sets:
        df = pandas.DataFrame({'pressure': p, 'loading': n, 'enthalpy': [x * ctx.scale for x in h], 'branch': br})
        iso = pygaps.PointIsotherm(isotherm_data=df, pressure_key='pressure', loading_key='loading', material='c19', adsorbate='CO2', temperature=303.0, **U)
        for branch, flag in (('ads', 0), ('des', 1)):
            rows = [x * ctx.scale for x, b in zip(h, br) if b == flag]
            o = core.call(pgc.initial_enthalpy_point, iso, 'enthalpy', branch=branch)
            ev += 1
            if not rows:
                continue
            nt += 1
            if not o.ok or float(o.value['initial_enthalpy']) != rows[0]:
                ctx.violate(core.make_violation({'check': 'initial-enthalpy-point', 'branch': branch},
                                                f'initial_enthalpy_point(branch={branch}) = {o.value if o.ok else o.brief()} but the first measured enthalpy of that branch is {rows[0]}', {'data': h, 'branch_marks': br}))
    ctx.add('initial_enthalpy_point', ev, nt)


def check_raw(ctx):
    """The low-level function on arrays: container types of the inputs, inputs left untouched, the same arrays used again."""
    from pygaps.characterisation.isosteric_enth import isosteric_enthalpy_raw
    ev = nt = 0
    for dH in (5.0, 20.0, 40.0):
        for temps in ([260.0, 300.0, 340.0], [340.0, 300.0, 260.0], [210.0, 225.0, 330.0, 395.0], [280.0, 320.0]):
            nm = 4.0
            loads = numpy.array([0.5, 1.0, 2.0, 3.0])
            # Langmuir with a van 't Hoff affinity: p(n, T) = n / (K(T) (n_m - n))
            P = numpy.array([[n / (2.0 * kfactor(dH, T) * (nm - n)) for T in temps] for n in loads])
            for tkind, mkT in (('list', lambda: list(temps)), ('tuple', lambda: tuple(temps)), ('ndarray float64', lambda: numpy.array(temps, dtype=float)),
                               ('ndarray int64', lambda: numpy.array(temps, dtype='int64')), ('slice view of a longer array', lambda: numpy.array(temps + [999.0], dtype=float)[:len(temps)])):
                for pkind, mkP in (('ndarray', lambda: P.copy()), ('list of lists', lambda: P.tolist())):
                    Targ, Parg = mkT(), mkP()
                    keepT = numpy.array(Targ, dtype=float).copy()
                    keepP = numpy.array(Parg, dtype=float).copy()
                    results = [core.call(isosteric_enthalpy_raw, Parg, Targ) for _ in range(3)]      # the SAME argument objects, three times
                    ev += 1
                    nt += 1
                    bad = None
                    for i, r in enumerate(results):
                        if not r.ok:
                            bad = f'call {i + 1} {r.brief()}'
                            break
                        got = numpy.asarray(r.value[0], dtype=float)
                        if got.shape != (len(loads),) or numpy.max(numpy.abs(got - dH) / dH) > 1e-8:
                            bad = f'call {i + 1} with the same argument objects returns {got} instead of {dH} kJ/mol at every loading'
                            break
                    if bad is None and not (numpy.array_equal(numpy.array(Targ, dtype=float), keepT) and numpy.array_equal(numpy.array(Parg, dtype=float), keepP)):
                        bad = f'the arguments were modified: temperatures {keepT} -> {numpy.array(Targ, dtype=float)}'
                    if bad:
                        ctx.violate(core.make_violation({'check': 'raw-function', 'temperatures': tkind.split(' ')[0], 'pressures': pkind.split(' ')[0]},
                                                        f'isosteric_enthalpy_raw(pressures as {pkind}, temperatures {temps} as {tkind}), dH={dH}: {bad}', {'dH': dH, 'temperatures': temps}))
    ctx.add('raw_function', ev, nt)


def work_branches(arg):
    """Isotherm sets with hysteresis: the adsorption branch follows van 't Hoff with one enthalpy, the desorption branch with another."""
    import pygaps
    import pygaps.characterisation as pgc
    gen, dH_ads, dH_des, tname, ri, scale = arg
    out = {'ev': 0, 'nt': 0, 'viol': []}
    rep, temps = REPS[ri], TSETS[tname]
    base = dict(pressure_mode='absolute', pressure_unit='bar', loading_basis='molar', loading_unit='mmol', material_basis='mass', material_unit='g')
    n = numpy.linspace(0.02, 3.6, 120)

    def build():
        isos = []
        for T in temps:
            cols = []
            for dH in (dH_ads, dH_des):
                m = ml.mk(gen, GENERATORS[gen](kfactor(dH, T) * scale), T)
                cols.append(numpy.array([float(numpy.asarray(m.pressure(x)).reshape(-1)[0]) for x in n]) if gen != 'DSLangmuir' else numpy.asarray(m.pressure(n), dtype=float))
            iso = pygaps.PointIsotherm(pressure=numpy.concatenate([cols[0], cols[1][::-1]]), loading=numpy.concatenate([n, n[::-1]]),
                                       branch=numpy.concatenate([numpy.zeros(len(n), dtype=bool), numpy.ones(len(n), dtype=bool)]),
                                       material='c19', adsorbate=ADS, temperature=T, temperature_unit='K', **base)
            iso.convert(**rep)
            isos.append(iso)
        return isos
    o = core.call(build)
    if not o.ok:
        out['skipped'] = o.brief()
        return out
    isos = o.value
    lo, hi = isos[0].loading(branch='ads').min() * 1.05, isos[0].loading(branch='ads').max() * 0.95
    for branch, want in (('ads', dH_ads), ('des', dH_des)):
        for lp in (list(numpy.linspace(lo, hi, 5)), None):
            r = core.call(pgc.isosteric_enthalpy, isos, branch=branch, loading_points=lp)
            out['ev'] += 1
            if not r.ok:
                out['viol'].append(core.make_violation({'check': 'raises', 'kind': 'point', 'branch': branch, 'kind_of_error': r.kind},
                                                       f'isosteric {gen} (ads {dH_ads}, des {dH_des}) T={tname} rep#{ri} branch={branch}: {r.brief()}', {'rep': rep}))
                continue
            out['nt'] += 1
            got = numpy.asarray(r.value['isosteric_enthalpy'], dtype=float)
            e = float(numpy.max(numpy.abs(got - want) / want))
            if e > 2e-3:
                other = dH_des if branch == 'ads' else dH_ads
                eo = float(numpy.max(numpy.abs(got - other) / other))
                out['viol'].append(core.make_violation(
                    {'check': 'enthalpy-not-recovered', 'kind': 'point', 'branch': branch, 'what': 'enthalpy of the other branch' if eo < 2e-3 else 'wrong value',
                     'loading_basis': rep['loading_basis']},
                    f'isosteric {gen} with hysteresis (adsorption generated with {dH_ads} kJ/mol, desorption with {dH_des}) T={tname} stored as {rep}: branch={branch!r}, '
                    f'{"explicit" if lp else "default"} loading points: {got[:4]} instead of {want}', {'rep': rep, 'branch': branch}, want, got))
    return out


def run(ctx):
    check_raw(ctx)
    jobs = []
    for gen in GENERATORS:
        for dH in (5.0, 20.0, 40.0, 60.0):
            for tname in TSETS:
                jobs.append((gen, dH, tname, 'model', 0, ctx.scale))
                for ri in range(len(REPS)):
                    if ctx.quick and (gen != 'Langmuir' and ri not in (0, 3)):
                        continue
                    if ctx.quick and tname in ('four uneven',) and ri not in (0, 3):
                        continue
                    jobs.append((gen, dH, tname, 'point', ri, ctx.scale))
    res = core.pmap(work_iso, jobs, chunk=2)
    skipped = []
    for r in res:
        ctx.add('isosteric', r['ev'], r['nt'])
        ctx.violate(r['viol'])
        ctx.track('isosteric_model_isotherms', r['worst_model'], 1e-8)
        ctx.track('isosteric_point_isotherms', r['worst_point'], 2e-3)
        if r.get('skipped'):
            skipped.append(r['skipped'])
    bj = [(gen, a, d, tname, ri, ctx.scale) for gen in (('Langmuir',) if ctx.quick else tuple(GENERATORS)) for a, d in ((18.0, 32.0), (40.0, 25.0))
          for tname in (('three ordered', 'five shuffled') if ctx.quick else tuple(TSETS)) for ri in range(len(REPS))]
    for r in core.pmap(work_branches, bj, chunk=1):
        ctx.add('isosteric_branches', r['ev'], r['nt'])
        ctx.violate(r['viol'])
        if r.get('skipped'):
            skipped.append('branches: ' + r['skipped'])
    ctx.cov['isotherm_sets_that_could_not_be_built'] = skipped[:5]
    wj = []
    for ads, T in (('CO2', 250.0), ('CO2', 285.0), ('N2', 90.0), ('n-butane', 300.0), ('CH4', 150.0)):
        for name, plist in (('Langmuir', [{'K': 2e-6 * ctx.scale, 'n_m': 4.0}, {'K': 4e-5 * ctx.scale, 'n_m': 7.5}]),
                            ('Toth', [{'K': 2e-6 * ctx.scale, 'n_m': 4.0, 't': 0.6}, {'K': 3e-5 * ctx.scale, 'n_m': 6.0, 't': 1.4}])):
            for q in plist:
                for order in ('ascending', 'descending', 'shuffled'):
                    wj.append((name, q, ads, T, order))
    res = core.pmap(work_whittaker, wj, chunk=2)
    for r in res:
        ctx.add('whittaker', r['ev'], r['nt'])
        ctx.violate(r['viol'])
        ctx.track('whittaker_closed_form', r['worst'], 1e-8)
    check_initial_point(ctx)
    ctx.cov['domain_sizes'] = {'isosteric_sets': len(jobs), 'whittaker_cases': len(wj)}
    ctx.cov['rule'] = ('dH {5,20,40,60} kJ/mol x 5 temperature sets (2-5 temperatures in 210-395 K; ordered, reversed, shuffled, uneven) x 3 generators as exact model isotherms and '
                       'as 200-point point isotherms in 5 common representations (quick: thinned) x loading-point lists of lengths {number of isotherms, 1, 7} and the default grid; '
                       'Whittaker: 4 parameter vectors x 5 adsorbate/temperature pairs x 3 loading orders against lambda + dH_vap(PropsSI) + RT incl. the omitted loadings; initial '
                       'enthalpy point on both branches of 3 calorimetric data sets.')
    ctx.require('isosteric_sets', len(jobs), 100)
    ctx.sample({'generator': 'Toth', 'dH': 40.0, 'temperatures': TSETS['five shuffled'], 'kind': 'model', 'oracle': 'dH at every loading within 1e-8'})
    ctx.sample({'whittaker': {'model': 'Toth', 'adsorbate': 'CO2', 'T': 250.0, 'loadings': 'shuffled'}, 'oracle': 'lambda + dH_vap + RT from PropsSI; omitted set equal'})
    ctx.assumptions += ['point isotherms: 200-point sampling, tolerance 2e-3 (interpolation error); model isotherms 1e-8',
                        'CoolProp trusted for the vaporisation enthalpy']
