"""Independent reference model of pyGAPS' representations (DESIGN §3.4, C01).

Canonical quantities: pressure in Pa; amount of adsorbate in mol; amount of material in g.
Factors come from SI definitions, *not* from pygaps' tables; fluid constants come from
CoolProp's high-level PropsSI (the library uses the low-level AbstractState).
"""
import functools

R = 8.314462618
ATM = 101325.0
P_UNITS = {'Pa': 1.0, 'kPa': 1e3, 'MPa': 1e6, 'mbar': 100.0, 'bar': 1e5, 'atm': ATM,
           'mmHg': 133.322387415, 'torr': ATM / 760}
VM_STP = R * 273.15 / ATM * 1e6  # cm3/mol
MOLAR = {'mmol': 1e-3, 'mol': 1.0, 'kmol': 1e3, 'cm3(STP)': 1 / VM_STP, 'mL(STP)': 1 / VM_STP,
         'cc(STP)': 1 / VM_STP, 'L(STP)': 1e3 / VM_STP}  # in mol
MASS = {'amu': 1.66053906660e-24, 'mg': 1e-3, 'cg': 1e-2, 'dg': 0.1, 'g': 1.0, 'kg': 1e3}  # in g
VOL = {'cm3': 1.0, 'mL': 1.0, 'cc': 1.0, 'dm3': 1e3, 'L': 1e3, 'm3': 1e6}  # in cm3

PRESSURE_REPS = [('absolute', u) for u in P_UNITS] + [('relative', None), ('relative%', None)]
LOADING_REPS = ([('molar', u) for u in MOLAR] + [('mass', u) for u in MASS]
                + [('volume_gas', u) for u in VOL] + [('volume_liquid', u) for u in VOL]
                + [('fraction', None), ('percent', None)])
MATERIAL_REPS = [('mass', u) for u in MASS] + [('volume', u) for u in VOL] + [('molar', u) for u in MOLAR]
LOADING_TABLE = {'molar': MOLAR, 'mass': MASS, 'volume_gas': VOL, 'volume_liquid': VOL}
MATERIAL_TABLE = {'mass': MASS, 'volume': VOL, 'molar': MOLAR}
assert len(PRESSURE_REPS) == 10 and len(LOADING_REPS) == 27 and len(MATERIAL_REPS) == 19


class NotARepresentation(Exception):
    """The labels do not name a representation the reference model knows."""


@functools.lru_cache(maxsize=None)
def ads_consts(backend, T):
    """Fluid constants through PropsSI: M [g/mol], rl/rg [mol/cm3], dl/dg [g/cm3], ps [Pa]."""
    import CoolProp.CoolProp as CPP
    M = CPP.PropsSI('M', backend) * 1e3
    rl = CPP.PropsSI('Dmolar', 'T', T, 'Q', 0, backend) / 1e6
    rg = CPP.PropsSI('Dmolar', 'T', T, 'Q', 1, backend) / 1e6
    dl = CPP.PropsSI('Dmass', 'T', T, 'Q', 0, backend) / 1e3
    dg = CPP.PropsSI('Dmass', 'T', T, 'Q', 1, backend) / 1e3
    ps = CPP.PropsSI('P', 'T', T, 'Q', 0, backend)
    return dict(M=M, rl=rl, rg=rg, dl=dl, dg=dg, ps=ps)


def _tab(table, unit):
    try:
        return table[unit]
    except (KeyError, TypeError):
        raise NotARepresentation(f'unit {unit!r}')


def p_to_pa(v, mode, unit, c):
    if mode == 'absolute':
        return v * _tab(P_UNITS, unit)
    if mode == 'relative':
        return v * c['ps']
    if mode == 'relative%':
        return v * c['ps'] / 100
    raise NotARepresentation(f'pressure mode {mode!r}')


def pa_to(v, mode, unit, c):
    if mode == 'absolute':
        return v / _tab(P_UNITS, unit)
    if mode == 'relative':
        return v / c['ps']
    if mode == 'relative%':
        return v / c['ps'] * 100
    raise NotARepresentation(f'pressure mode {mode!r}')


def c_pressure(v, mode_from, unit_from, mode_to, unit_to, c):
    return pa_to(p_to_pa(v, mode_from, unit_from, c), mode_to, unit_to, c)


def amount_to_mol(v, basis, unit, c):
    if basis == 'molar':
        return v * _tab(MOLAR, unit)
    if basis == 'mass':
        return v * _tab(MASS, unit) / c['M']
    if basis == 'volume_gas':
        return v * _tab(VOL, unit) * c['rg']
    if basis == 'volume_liquid':
        return v * _tab(VOL, unit) * c['rl']
    raise NotARepresentation(f'loading basis {basis!r}')


def mol_to_amount(v, basis, unit, c):
    if basis == 'molar':
        return v / _tab(MOLAR, unit)
    if basis == 'mass':
        return v * c['M'] / _tab(MASS, unit)
    if basis == 'volume_gas':
        return v / c['rg'] / _tab(VOL, unit)
    if basis == 'volume_liquid':
        return v / c['rl'] / _tab(VOL, unit)
    raise NotARepresentation(f'loading basis {basis!r}')


def _frac_basis(mb):
    if mb not in MATERIAL_TABLE:
        raise NotARepresentation(f'material basis {mb!r}')
    return 'volume_liquid' if mb == 'volume' else mb


def c_loading(v, bf, uf, bt, ut, c, mb=None, mu=None):
    """Amount conversion at fixed material representation (what converter_mode.c_loading does)."""
    if bf in ('fraction', 'percent'):
        mol = amount_to_mol(v / 100 if bf == 'percent' else v, _frac_basis(mb), mu, c)
    else:
        mol = amount_to_mol(v, bf, uf, c)
    if bt in ('fraction', 'percent'):
        f = mol_to_amount(mol, _frac_basis(mb), mu, c)
        return f * 100 if bt == 'percent' else f
    return mol_to_amount(mol, bt, ut, c)


def mat_to_g(basis, unit, m):
    """grams of material in one `unit` of material."""
    if basis == 'mass':
        return _tab(MASS, unit)
    if basis == 'volume':
        return _tab(VOL, unit) * m['density']
    if basis == 'molar':
        return _tab(MOLAR, unit) * m['molar_mass']
    raise NotARepresentation(f'material basis {basis!r}')


def c_material(v, bf, uf, bt, ut, m):
    """A per-material quantity: x per (uf of material) -> x per (ut of material)."""
    return v / mat_to_g(bf, uf, m) * mat_to_g(bt, ut, m)


def loading_to_canon(v, lb, lu, mb, mu, c, m):
    """-> mol adsorbate per g material"""
    if lb in ('fraction', 'percent'):
        f = v / 100 if lb == 'percent' else v
        return amount_to_mol(f, _frac_basis(mb), mu, c) / mat_to_g(mb, mu, m)
    return amount_to_mol(v, lb, lu, c) / mat_to_g(mb, mu, m)


def canon_to_loading(x, lb, lu, mb, mu, c, m):
    per = x * mat_to_g(mb, mu, m)
    if lb in ('fraction', 'percent'):
        f = mol_to_amount(per, _frac_basis(mb), mu, c)
        return f * 100 if lb == 'percent' else f
    return mol_to_amount(per, lb, lu, c)


def full_loading(v, lb, lu, mb, mu, lb2, lu2, mb2, mu2, c, m):
    return canon_to_loading(loading_to_canon(v, lb, lu, mb, mu, c, m), lb2, lu2, mb2, mu2, c, m)


def norm_temp_unit(u):
    if isinstance(u, str) and 'c' in u.lower():
        return '°C'
    return u


def c_temperature(v, uf, ut):
    uf, ut = norm_temp_unit(uf), norm_temp_unit(ut)
    for u in (uf, ut):
        if u not in ('K', '°C'):
            raise NotARepresentation(f'temperature unit {u!r}')
    k = v if uf == 'K' else v + 273.15
    return k if ut == 'K' else k - 273.15


class library_tables:
    """Context: evaluate the reference *structure* with the library's own unit tables (validated against SI by C01).

    Used where a check needs conversions that agree with the library to rounding (1e-9), e.g. to translate
    query points, so that the 1e-4 table-precision differences do not mask or mimic other errors.
    """

    def __enter__(self):
        from pygaps.units import converter_unit as cu
        g = globals()
        self.saved = {k: dict(g[k]) for k in ('P_UNITS', 'MOLAR', 'MASS', 'VOL')}
        for k, lib in (('P_UNITS', cu._PRESSURE_UNITS), ('MOLAR', cu._MOLAR_UNITS), ('MASS', cu._MASS_UNITS), ('VOL', cu._VOLUME_UNITS)):
            g[k].clear()
            g[k].update(lib)
        return self

    def __exit__(self, *a):
        g = globals()
        for k, v in self.saved.items():
            g[k].clear()
            g[k].update(v)
        return False
