"""E1 — explicit-state explorer over the implementation (DESIGN §3.1).

Level-synchronous BFS.  A *state* is a picklable snapshot from which a worker rebuilds a
real object; `expand(snapshot)` executes every alphabet operation on freshly restored real
objects, checks the reference model / invariants, and returns the successor snapshots.
The parent deduplicates on `canon(snapshot)` and keeps the BFS tree (shortest history to
every state) so that every violation carries a replayable operation list.
"""
import collections

from mc import core


class Result:
    def __init__(self):
        self.states = 0
        self.transitions = 0
        self.max_depth = 0
        self.violations = []
        self.outcomes = collections.Counter()   # (op name, outcome kind) -> count
        self.parent = {}                         # canon -> (parent canon, op label)
        self.depth = {}
        self.level_sizes = []

    def history(self, key):
        ops = []
        while key in self.parent and self.parent[key] is not None:
            key, op = self.parent[key]
            ops.append(op)
        return list(reversed(ops))


def explore(initial, expand, canon, max_depth=None, jobs=None, chunk=None, on_level=None):
    """Explore to fixpoint (or to max_depth).

    expand(snapshot) -> dict(succ=[(op_label, snapshot)], transitions=int, viol=[...], outcomes={(op,kind):n})
    """
    res = Result()
    frontier = []
    for s in initial:
        k = canon(s)
        if k not in res.parent:
            res.parent[k] = None
            res.depth[k] = 0
            frontier.append((k, s))
    depth = 0
    while frontier:
        res.level_sizes.append(len(frontier))
        if max_depth is not None and depth >= max_depth:
            break
        outs = core.pmap(expand, [s for _, s in frontier], jobs=jobs, chunk=chunk or 1)
        nxt = []
        for (k, _), out in zip(frontier, outs):
            res.transitions += out['transitions']
            for v in out['viol']:
                v.setdefault('case', {})
                if isinstance(v['case'], dict):
                    v['case']['history_to_state'] = res.history(k)
                res.violations.append(v)
            for ok, n in out['outcomes'].items():
                res.outcomes[ok] += n
            for op, snap in out['succ']:
                k2 = canon(snap)
                if k2 not in res.parent:
                    res.parent[k2] = (k, op)
                    res.depth[k2] = depth + 1
                    nxt.append((k2, snap))
        depth += 1
        frontier = nxt
        if on_level:
            on_level(depth, len(res.parent), res.transitions)
    res.states = len(res.parent)
    res.max_depth = max(res.depth.values()) if res.depth else 0
    return res
