"""Parameter / pressure lattices and reference facts for the 16 isotherm models (C10, C11, C12, C13).

Reference facts are taken from the *defining equations* (docstrings / literature), not from the code:
Henry constant K_H = lim n/p, saturation capacity, validity range (pole or saturation), monotonicity region.
"""
import itertools
import math

R = 8.314462618


def lattice(ctx_scale=1.0):
    """model -> list of parameter dicts (geometric points inside the declared bounds + documented special values)."""
    s = ctx_scale
    L = {}
    L['Henry'] = [{'K': k * s} for k in (0.01, 1.0, 50.0)]
    L['Langmuir'] = [{'K': k * s, 'n_m': n} for k in (0.05, 2.0, 80.0) for n in (0.3, 5.0)]
    L['DSLangmuir'] = [{'n_m1': a, 'K1': k1 * s, 'n_m2': b, 'K2': k2 * s} for a, b in ((1.0, 3.0), (4.0, 0.5), (2.0, 2.0)) for k1, k2 in ((20.0, 0.5), (2.0, 2.0), (0.3, 40.0))]
    L['TSLangmuir'] = [{'n_m1': a, 'K1': k1 * s, 'n_m2': b, 'K2': k2 * s, 'n_m3': c, 'K3': k3 * s}
                       for a, b, c in ((1.0, 2.0, 1.5), (0.2, 3.0, 0.7)) for k1, k2, k3 in ((30.0, 3.0, 0.3), (1.0, 1.0, 1.0), (0.5, 50.0, 5.0))]
    L['BET'] = [{'n_m': n, 'C': c * s, 'N': N} for n in (0.5, 4.0) for c in (0.5, 20.0, 500.0) for N in (0.3, 0.95)]
    L['GAB'] = [{'n_m': n, 'C': c * s, 'K': K} for n in (0.5, 4.0) for c in (0.5, 20.0, 500.0) for K in (0.3, 0.95)]
    L['Freundlich'] = [{'K': k * s, 'm': m} for k in (0.2, 3.0) for m in (1.0, 1.7, 4.0)]
    L['DR'] = [{'n_m': n, 'e': e * s} for n in (0.8, 7.0) for e in (1500.0, 5000.0, 12000.0)]
    L['DA'] = [{'n_m': n, 'e': e * s, 'm': m} for n in (0.8, 7.0) for e in (2500.0, 9000.0) for m in (1.0, 2.0, 2.9)]
    L['Quadratic'] = [{'n_m': n, 'Ka': a * s, 'Kb': b * s} for n in (0.7, 3.0) for a, b in ((2.0, 0.01), (0.5, 5.0), (8.0, 0.3), (0.1, 40.0))]
    L['TemkinApprox'] = [{'n_m': n, 'K': k * s, 'tht': t} for n in (0.6, 4.0) for k in (0.3, 9.0) for t in (0.0, -0.5, 0.4, 0.9)]
    L['Toth'] = [{'n_m': n, 'K': k * s, 't': t} for n in (0.6, 5.0) for k in (0.2, 15.0) for t in (0.3, 1.0, 2.5)]
    L['JensenSeaton'] = [{'K': k * s, 'a': a, 'b': b, 'c': c} for k in (0.8, 12.0) for a in (0.7, 4.0) for b in (0.02, 0.3) for c in (0.6, 1.0, 2.2)]
    L['Virial'] = [{'K': k * s, 'A': a, 'B': b, 'C': c} for k in (0.5, 20.0) for a, b, c in ((0.05, 0.01, 0.001), (0.3, 0.0, 0.0), (-0.1, 0.05, 0.0), (0.0, 0.0, 0.0))]
    L['FHVST'] = [{'n_m': n, 'K': k * s, 'a1v': a} for n in (0.9, 5.0) for k in (0.4, 6.0) for a in (0.0, 0.5, -0.3)]
    L['WVST'] = [{'n_m': n, 'K': k * s, 'L1v': a, 'Lv1': b} for n in (0.9, 5.0) for k in (0.4, 6.0) for a, b in ((1.0, 1.0), (1.3, 0.8), (0.7, 1.2))]
    return L


FRACTIONS = [1e-4, 1e-3, 1e-2, 0.1, 0.3, 0.6, 0.9]


def mk(name, params, T=77.355):
    from pygaps.modelling import get_isotherm_model
    m = get_isotherm_model(name)
    m.params = {k: params[k] for k in m.param_names}
    if hasattr(m, 'minus_rt'):
        m.minus_rt = -R * T
    return m


def p_range(name, p):
    """Upper end of the validity range in pressure for loading-explicit models."""
    if name == 'BET':
        return 1.0 / p['N']
    if name == 'GAB':
        return 1.0 / p['K']
    if name in ('DR', 'DA'):
        return 1.0
    if name == 'DSLangmuir':
        return 20.0 / min(p['K1'], p['K2'])
    if name == 'TSLangmuir':
        return 20.0 / min(p['K1'], p['K2'], p['K3'])
    if name == 'Quadratic':
        return 20.0 / max(abs(p['Ka']), math.sqrt(abs(p['Kb'])) if p['Kb'] else 0, 1e-12)
    if name == 'Freundlich':
        return 20.0
    if name == 'JensenSeaton':
        return 20.0 * p['a'] / p['K']
    return 20.0 / p['K']


def n_range(name, p):
    """Upper end of the validity range in loading for pressure-explicit models (below saturation / the turning point)."""
    if name == 'Virial':
        # p(n) = n/K exp(A n + B n^2 + C n^3): monotone while 1 + n (A + 2 B n + 3 C n^2) > 0
        hi = 5.0
        n = 0.0
        while n < hi:
            n += 0.01
            if 1 + n * (p['A'] + 2 * p['B'] * n + 3 * p['C'] * n * n) <= 0.05:
                return n
        return hi
    return p['n_m']   # FHVST, WVST: saturation capacity


def henry_constant(name, p):
    """K_H from the defining equation, or None where the model has no Henry regime."""
    if name == 'Henry':
        return p['K']
    if name in ('Langmuir', 'Toth', 'TemkinApprox'):
        return p['n_m'] * p['K']
    if name == 'DSLangmuir':
        return p['n_m1'] * p['K1'] + p['n_m2'] * p['K2']
    if name == 'TSLangmuir':
        return p['n_m1'] * p['K1'] + p['n_m2'] * p['K2'] + p['n_m3'] * p['K3']
    if name == 'BET':
        return p['n_m'] * p['C']
    if name == 'GAB':
        return p['n_m'] * p['C'] * p['K']
    if name == 'Quadratic':
        return p['n_m'] * p['Ka']
    if name in ('JensenSeaton', 'Virial', 'FHVST', 'WVST'):
        return p['K']
    if name == 'Freundlich' and p['m'] == 1.0:
        return p['K']
    return None


def saturation(name, p):
    if name in ('Langmuir', 'Toth', 'TemkinApprox', 'DR', 'DA', 'FHVST', 'WVST'):
        return p['n_m']
    if name == 'DSLangmuir':
        return p['n_m1'] + p['n_m2']
    if name == 'TSLangmuir':
        return p['n_m1'] + p['n_m2'] + p['n_m3']
    if name == 'Quadratic':
        return 2 * p['n_m']
    return None


def monotone_expected(name, p):
    """Is the defining equation monotone over the whole validity range for these parameters?"""
    if name == 'Quadratic':
        return p['Ka'] >= 0 and p['Kb'] >= 0
    if name == 'TemkinApprox':
        # n/n_m = x + tht x^2 (x - 1), x = Kp/(1+Kp) in [0,1): derivative 1 + tht (3x^2 - 2x) > 0 for -1 < tht < 3
        return -1.0 < p['tht'] < 3.0
    return True


# independent defining equations for the loading-explicit models (used by the quadrature reference of C11 and to
# generate data in C12/C13/C14): written from the formulas in the docstrings, not calling the library
def ref_loading(name, q, p, T=77.355):
    import numpy as np
    p = np.asarray(p, dtype=float)
    if name == 'Henry':
        return q['K'] * p
    if name == 'Langmuir':
        return q['n_m'] * q['K'] * p / (1 + q['K'] * p)
    if name == 'DSLangmuir':
        return q['n_m1'] * q['K1'] * p / (1 + q['K1'] * p) + q['n_m2'] * q['K2'] * p / (1 + q['K2'] * p)
    if name == 'TSLangmuir':
        return sum(q[f'n_m{i}'] * q[f'K{i}'] * p / (1 + q[f'K{i}'] * p) for i in (1, 2, 3))
    if name == 'BET':
        x = q['N'] * p
        return q['n_m'] * q['C'] * p / ((1 - x) * (1 - x + q['C'] * p))
    if name == 'GAB':
        x = q['K'] * p
        return q['n_m'] * q['C'] * x / ((1 - x) * (1 - x + q['C'] * x))
    if name == 'Freundlich':
        return q['K'] * p ** (1 / q['m'])
    if name == 'DR':
        return q['n_m'] * np.exp(-((-R * T) * np.log(p) / q['e']) ** 2)
    if name == 'DA':
        return q['n_m'] * np.exp(-((-R * T) * np.log(p) / q['e']) ** q['m'])
    if name == 'Quadratic':
        return q['n_m'] * (q['Ka'] + 2 * q['Kb'] * p) * p / (1 + q['Ka'] * p + q['Kb'] * p * p)
    if name == 'TemkinApprox':
        x = q['K'] * p / (1 + q['K'] * p)
        return q['n_m'] * (x + q['tht'] * x * x * (x - 1))
    if name == 'Toth':
        return q['n_m'] * q['K'] * p / (1 + (q['K'] * p) ** q['t']) ** (1 / q['t'])
    if name == 'JensenSeaton':
        kp = q['K'] * p
        return kp / (1 + (kp / (q['a'] * (1 + q['b'] * p))) ** q['c']) ** (1 / q['c'])
    raise KeyError(name)


LOADING_EXPLICIT = ['Henry', 'Langmuir', 'DSLangmuir', 'TSLangmuir', 'BET', 'GAB', 'Freundlich', 'DR', 'DA', 'Quadratic', 'TemkinApprox',
                    'Toth', 'JensenSeaton']
PRESSURE_EXPLICIT = ['Virial', 'FHVST', 'WVST']
NUMERIC_INVERSE = ['TSLangmuir', 'TemkinApprox', 'JensenSeaton', 'Virial', 'FHVST', 'WVST']
