"""Shared services of the bounded-exhaustive checkers: context, outcome capture,
violation/known-finding bookkeeping, evidence, replay files, sharded execution.

Exit codes (see DESIGN §3.5): 0 held / only known findings, 1 VIOLATION, 2 harness error.
"""
import atexit
import hashlib
import json
import math
import os
import shutil
import signal
import subprocess
import sys
import time
import traceback
import warnings
from concurrent.futures import ProcessPoolExecutor
import multiprocessing

VERIF = os.path.dirname(os.path.dirname(os.path.abspath(__file__)))
EVIDENCE_DIR = os.path.join(VERIF, 'evidence')
REPLAY_DIR = os.path.join(VERIF, 'replays')
KNOWN_FILE = os.path.join(VERIF, 'known_findings.json')
NCPU = int(os.environ.get('VERIF_JOBS', '0')) or min(16, os.cpu_count() or 1)

PHASES = [1.0, 1.07, 0.93, 1.13, 0.89, 1.21, 0.83, 1.031]


class HarnessError(Exception):
    """A defect of the checking machinery (never a verdict on the property)."""


class CaseTimeout(Exception):
    pass


# ---------------------------------------------------------------------------
# scratch space

_SCRATCH = None
_SCRATCH_PID = None


def _rm_scratch(path, pid):
    if os.getpid() == pid:
        shutil.rmtree(path, True)


def scratch():
    """Per-process scratch dir under /dev/shm.  The top-level process owns the tree and removes it at
    exit; forked workers get a sub-directory of it."""
    global _SCRATCH, _SCRATCH_PID
    if _SCRATCH is not None and _SCRATCH_PID == os.getpid() and os.path.isdir(_SCRATCH):
        return _SCRATCH
    root = os.environ.get('VERIF_SCRATCH_ROOT')
    if root and os.path.isdir(root) and os.environ.get('VERIF_SCRATCH_OWNER') != str(os.getpid()):
        _SCRATCH = os.path.join(root, f'w{os.getpid()}')
        os.makedirs(_SCRATCH, exist_ok=True)
    else:
        base = '/dev/shm' if os.path.isdir('/dev/shm') else '/var/tmp'
        _SCRATCH = os.path.join(base, f'verif-{os.getpid()}')
        os.makedirs(_SCRATCH, exist_ok=True)
        os.environ['VERIF_SCRATCH_ROOT'] = _SCRATCH
        os.environ['VERIF_SCRATCH_OWNER'] = str(os.getpid())
        atexit.register(_rm_scratch, _SCRATCH, os.getpid())
    _SCRATCH_PID = os.getpid()
    return _SCRATCH


# ---------------------------------------------------------------------------
# outcome capture

def exc_kind(e):
    """Classify an exception of the code under test by *kind*."""
    try:
        from pygaps.utilities.exceptions import (CalculationError, ParameterError, ParsingError, pgError)
    except Exception:  # pragma: no cover
        return 'other:' + type(e).__name__
    if isinstance(e, ParameterError):
        return 'ParameterError'
    if isinstance(e, CalculationError):
        return 'CalculationError'
    if isinstance(e, ParsingError):
        return 'ParsingError'
    if isinstance(e, pgError):
        return 'pgError'
    return 'other:' + type(e).__name__


def is_pg(kind):
    return kind in ('ParameterError', 'CalculationError', 'ParsingError', 'pgError')


class Out:
    """Outcome of one call into the code under test."""
    __slots__ = ('ok', 'value', 'kind', 'msg')

    def __init__(self, ok, value=None, kind=None, msg=None):
        self.ok, self.value, self.kind, self.msg = ok, value, kind, msg

    def __repr__(self):
        return f'Out(ok={self.ok}, value={short(self.value)}, kind={self.kind}, msg={short(self.msg)})'

    def brief(self):
        return ('returned ' + short(self.value)) if self.ok else f'raised {self.kind}: {short(self.msg, 160)}'


def _alarm(signum, frame):
    raise CaseTimeout()


def call(fn, *a, timeout=None, **kw):
    """Call into the code under test, capturing value or exception kind.

    HarnessError and KeyboardInterrupt propagate.  A per-call alarm turns a
    hang into a CaseTimeout outcome (kind 'timeout').
    """
    old = None
    if timeout:
        old = signal.signal(signal.SIGALRM, _alarm)
        signal.alarm(int(timeout))
    try:
        with warnings.catch_warnings():
            warnings.simplefilter('ignore')
            return Out(True, fn(*a, **kw))
    except CaseTimeout:
        return Out(False, kind='timeout', msg='case exceeded its time allowance')
    except HarnessError:
        raise
    except Exception as e:  # noqa
        return Out(False, kind=exc_kind(e), msg=str(e)[:400])
    finally:
        if timeout:
            signal.alarm(0)
            signal.signal(signal.SIGALRM, old)


def short(v, n=120):
    s = repr(v)
    return s if len(s) <= n else s[:n - 3] + '...'


def jsonable(v):
    """Make a value printable in JSON evidence / replay files."""
    import numpy
    if isinstance(v, dict):
        return {str(k): jsonable(x) for k, x in v.items()}
    if isinstance(v, (list, tuple, set, frozenset)):
        return [jsonable(x) for x in v]
    if isinstance(v, numpy.ndarray):
        if v.ndim == 0:
            return jsonable(v.item())
        return [jsonable(x) for x in v.tolist()]
    try:
        import pandas
        if isinstance(v, pandas.Series):
            return {'Series': jsonable(v.values), 'index': jsonable(list(v.index))}
        if isinstance(v, pandas.DataFrame):
            return {'DataFrame': jsonable(v.to_dict(orient='list')), 'index': jsonable(list(v.index))}
    except ImportError:
        pass
    if isinstance(v, (numpy.floating,)):
        v = float(v)
    if isinstance(v, (numpy.integer,)):
        return int(v)
    if isinstance(v, (numpy.bool_,)):
        return bool(v)
    if isinstance(v, float):
        if math.isnan(v) or math.isinf(v):
            return repr(v)
        return v
    if isinstance(v, (str, int, bool)) or v is None:
        return v
    return short(v, 200)


# ---------------------------------------------------------------------------
# numeric comparison

def relerr(a, b):
    """max relative discrepancy between two (arrays of) numbers; inf if shapes differ / nan mismatch."""
    import numpy
    try:
        a = numpy.asarray(a, dtype=float)
        b = numpy.asarray(b, dtype=float)
    except Exception:
        return float('inf')
    if a.shape != b.shape:
        if a.size == b.size:
            a = a.reshape(-1); b = b.reshape(-1)
        else:
            return float('inf')
    if a.size == 0:
        return 0.0
    na, nb = numpy.isnan(a), numpy.isnan(b)
    if (na != nb).any():
        return float('inf')
    a = numpy.where(na, 0.0, a); b = numpy.where(nb, 0.0, b)
    ia, ib = numpy.isinf(a), numpy.isinf(b)
    if (ia != ib).any() or (ia & (numpy.sign(a) != numpy.sign(b))).any():
        return float('inf')
    a = numpy.where(ia, 0.0, a); b = numpy.where(ib, 0.0, b)
    den = numpy.maximum(numpy.abs(a), numpy.abs(b))
    d = numpy.abs(a - b)
    with numpy.errstate(divide='ignore', invalid='ignore'):
        r = numpy.where(den > 0, d / den, 0.0)
    return float(r.max())


def close(a, b, rel=1e-9, abs_=0.0):
    import numpy
    try:
        a = numpy.asarray(a, dtype=float); b = numpy.asarray(b, dtype=float)
    except Exception:
        return False
    if a.shape != b.shape:
        if a.size != b.size:
            return False
        a = a.reshape(-1); b = b.reshape(-1)
    if a.size == 0:
        return True
    na, nb = numpy.isnan(a), numpy.isnan(b)
    if (na != nb).any():
        return False
    a = numpy.where(na, 0.0, a); b = numpy.where(nb, 0.0, b)
    with numpy.errstate(invalid='ignore'):
        if (numpy.isinf(a) | numpy.isinf(b)).any():
            return bool((a == b).all())
        return bool((numpy.abs(a - b) <= abs_ + rel * numpy.maximum(numpy.abs(a), numpy.abs(b))).all())


# ---------------------------------------------------------------------------
# violations

def make_violation(sig, what, case, expected=None, observed=None, unit_test=None):
    """A violation record.  `sig` is the narrow structured signature used for known-finding matching."""
    return {
        'sig': jsonable(sig),
        'what': what,
        'case': jsonable(case),
        'expected': jsonable(expected),
        'observed': jsonable(observed),
        'unit_test': unit_test,
    }


def sig_key(sig):
    return json.dumps(sig, sort_keys=True, ensure_ascii=False)


def load_known(pid):
    if not os.path.exists(KNOWN_FILE):
        return [], []
    data = json.load(open(KNOWN_FILE, encoding='utf-8'))
    known = [k for k in data if k.get('property') == pid and k.get('status') == 'known']
    fixed = [k for k in data if k.get('property') == pid and k.get('status') == 'fixed']
    return known, fixed


# ---------------------------------------------------------------------------
# sharded execution

_WORK = {}


def _run_shard(args):
    key, lo, hi = args
    fn, items, init = _WORK[key]
    if init:
        init()
    res = []
    for i in range(lo, hi):
        res.append(fn(items[i]))
    return lo, hi, res


def pmap(fn, items, jobs=None, chunk=None, init=None):
    """Deterministic sharded map over forked workers.  `fn(item)` returns any picklable value.

    Results are returned in item order whatever the worker count.  A dying worker
    or a shard returning the wrong count is a HarnessError.
    """
    items = list(items)
    n = len(items)
    jobs = jobs or NCPU
    if n == 0:
        return []
    if jobs <= 1 or n < 4:
        if init:
            init()
        return [fn(x) for x in items]
    key = id(items)
    _WORK[key] = (fn, items, init)
    chunk = chunk or max(1, min(2000, n // (jobs * 4) or 1))
    shards = [(key, lo, min(n, lo + chunk)) for lo in range(0, n, chunk)]
    out = [None] * n
    try:
        ctx = multiprocessing.get_context('fork')
        with ProcessPoolExecutor(max_workers=min(jobs, len(shards)), mp_context=ctx) as ex:
            for lo, hi, res in ex.map(_run_shard, shards):
                if len(res) != hi - lo:
                    raise HarnessError(f'shard {lo}:{hi} returned {len(res)} results')
                out[lo:hi] = res
    except HarnessError:
        raise
    except Exception as e:
        raise HarnessError(f'worker failure: {type(e).__name__}: {e}') from e
    finally:
        _WORK.pop(key, None)
    return out


# ---------------------------------------------------------------------------
# context

class Ctx:
    """One run of one property check."""

    def __init__(self, pid, tier, seed, level):
        self.pid, self.tier, self.seed, self.level = pid, tier, seed, level
        self.phase = seed % len(PHASES)
        self.scale = PHASES[self.phase]
        self.t0 = time.time()
        self.violations = []
        self.cov = {'evaluations': 0, 'distinct_nontrivial': 0, 'samples': [], 'exhaustive': True}
        self.assumptions = []
        self.parts = {}
        self.notes = []
        self.marginal = 0
        self.worst = {}
        self.minimums = {}

    @property
    def quick(self):
        return self.tier == 'quick'

    def grid(self, values):
        """Apply this run's lattice phase to a value grid (never to structural points)."""
        return [v * self.scale for v in values]

    # -- bookkeeping -------------------------------------------------------
    def add(self, part, evaluations=0, nontrivial=0, **extra):
        """Accumulate coverage counts for a named part of the check."""
        p = self.parts.setdefault(part, {'evaluations': 0, 'distinct_nontrivial': 0})
        p['evaluations'] += int(evaluations)
        p['distinct_nontrivial'] += int(nontrivial)
        for k, v in extra.items():
            if isinstance(v, (int, float)) and not isinstance(v, bool) and isinstance(p.get(k, 0), (int, float)):
                p[k] = p.get(k, 0) + v
            else:
                p[k] = v
        self.cov['evaluations'] += int(evaluations)
        self.cov['distinct_nontrivial'] += int(nontrivial)

    def sample(self, s, limit=10):
        if len(self.cov['samples']) < limit:
            self.cov['samples'].append(jsonable(s))

    def track(self, name, value, threshold):
        """Record the worst discrepancy seen for a tolerance (headroom bookkeeping)."""
        if value != value:
            return
        w = self.worst.setdefault(name, {'worst': 0.0, 'threshold': threshold})
        if value > w['worst']:
            w['worst'] = float(value)
        if threshold and threshold / 10 < value <= threshold:
            self.marginal += 1

    def require(self, name, got, minimum):
        """Vacuity guard: a run that explored less than the declared minimum is a harness error."""
        self.minimums[name] = {'got': got, 'minimum': minimum}
        if got < minimum:
            raise HarnessError(f'vacuous exploration: {name}={got} < declared minimum {minimum}')

    def violate(self, v):
        if isinstance(v, list):
            self.violations.extend(v)
        elif v:
            self.violations.append(v)

    # -- finish ------------------------------------------------------------
    def finish(self):
        known, fixed = load_known(self.pid)
        kmap = {sig_key(k['signature']): k for k in known}
        absorbed = {}
        unknown = []
        for v in self.violations:
            k = sig_key(v['sig'])
            if k in kmap:
                absorbed[k] = absorbed.get(k, 0) + 1
            else:
                unknown.append(v)
        # ceilings: a known finding that swallows more than its declared ceiling is a harness error
        for k, n in absorbed.items():
            ceil = kmap[k].get('ceiling')
            if ceil is not None and n > ceil:
                raise HarnessError(f'known finding {k} absorbed {n} cases > ceiling {ceil}')
        lines = []
        for k, n in absorbed.items():
            lines.append(f"KNOWN-FINDING: property={self.pid} {kmap[k]['what']} [{n} case(s) this run]")
        not_repro = [kmap[k]['what'] for k in kmap if k not in absorbed
                     and (kmap[k].get('tier', 'quick') == 'quick' or self.tier == 'thorough')]
        # replay files for unknown violations, grouped by signature (first of each group kept)
        groups = {}
        for v in unknown:
            groups.setdefault(sig_key(v['sig']), []).append(v)
        replay_paths = []
        for k, vs in groups.items():
            v = vs[0]
            rec = dict(v, property=self.pid, tier=self.tier, seed=self.seed, same_signature_cases=len(vs))
            h = hashlib.sha1(k.encode()).hexdigest()[:12]
            d = os.path.join(REPLAY_DIR, self.pid)
            os.makedirs(d, exist_ok=True)
            path = os.path.join(d, h + '.json')
            with open(path, 'w', encoding='utf-8') as f:
                json.dump(rec, f, indent=1, ensure_ascii=False)
            replay_paths.append((path, v))
        cov = dict(self.cov)
        cov['parts'] = self.parts
        cov['known_findings_absorbed'] = {kmap[k]['what'][:100]: n for k, n in absorbed.items()}
        cov['known_not_reproduced'] = not_repro
        cov['marginal'] = self.marginal
        cov['tolerance_headroom'] = self.worst
        cov['declared_minimums'] = self.minimums
        cov['lattice_phase'] = self.phase
        if self.notes:
            cov['notes'] = self.notes
        if self.level == 'model_checking':
            for k in ('states', 'transitions', 'traces_validated_against_impl'):
                cov.setdefault(k, 0)
        ev = {
            'property_id': self.pid, 'tier': self.tier, 'seed': self.seed, 'level': self.level,
            'coverage': jsonable(cov), 'assumptions': self.assumptions,
            'wall_s': round(time.time() - self.t0, 2),
            'violations': len(unknown),
        }
        os.makedirs(EVIDENCE_DIR, exist_ok=True)
        path = os.path.join(EVIDENCE_DIR, self.pid + '.json')
        with open(path, 'w', encoding='utf-8') as f:
            json.dump(ev, f, indent=1, ensure_ascii=False)
        validate_evidence(path)
        for ln in lines:
            print(ln)
        for i, (p, v) in enumerate(replay_paths):
            if i == 40:
                print(f'  ... {len(replay_paths) - 40} further violation groups (replay files written, not listed)')
                break
            print(f"  violation: {v['what'][:400]}")
            print(f'VIOLATION property={self.pid} replay={p}')
        extra = ''
        if self.level == 'model_checking':
            extra = f" states={cov.get('states')} transitions={cov.get('transitions')}"
        print(f"[{self.pid}] tier={self.tier} seed={self.seed} evaluations={cov['evaluations']} "
              f"nontrivial={cov['distinct_nontrivial']}{extra} known={sum(absorbed.values())} "
              f"violations={len(unknown)} wall={ev['wall_s']}s")
        return 1 if unknown else 0


def validate_evidence(path):
    """Validate with jsonschema under python3-vt when present; minimal structural check otherwise."""
    schema = '/root/.vp/EVIDENCE.schema.json'
    ev = json.load(open(path, encoding='utf-8'))
    for k in ('property_id', 'tier', 'seed', 'level', 'coverage', 'wall_s'):
        if k not in ev:
            raise HarnessError(f'evidence lacks {k}')
    cov = ev['coverage']
    if ev['level'] in ('exploration', 'fault_enumeration'):
        if cov.get('evaluations', 0) < 1 or cov.get('distinct_nontrivial', 0) < 2 or not cov.get('samples') \
                or 'rule' not in cov:
            raise HarnessError('evidence coverage does not meet the exploration-level schema')
    if ev['level'] == 'model_checking':
        if cov.get('states', 0) < 1 or cov.get('transitions', 0) < 1 or not cov.get('samples'):
            raise HarnessError('evidence coverage does not meet the model_checking-level schema')
    vt = shutil.which('python3-vt')
    if vt and os.path.exists(schema):
        code = ("import json,sys,jsonschema;"
                "jsonschema.validate(json.load(open(sys.argv[1])),json.load(open(sys.argv[2])))")
        r = subprocess.run([vt, '-c', code, path, schema], capture_output=True, text=True)
        if r.returncode != 0:
            raise HarnessError('evidence fails schema validation: ' + r.stderr[-600:])


class ResultKeeper:
    """Results handed out by the library belong to the caller: a later call must not rewrite them (shared result templates, module-level buffers).
    add() keeps the live object next to a pickle taken at once; changed() lists the results whose content is no longer what was returned."""

    def __init__(self):
        self.items = []

    def add(self, desc, value):
        import pickle
        try:
            self.items.append((desc, value, pickle.dumps(value, protocol=4)))
        except Exception:
            pass

    def changed(self):
        import pickle
        out = []
        for i, (desc, value, snap) in enumerate(self.items):
            try:
                if pickle.dumps(value, protocol=4) != snap:
                    out.append((i, desc))
            except Exception:
                out.append((i, desc))
        return out
